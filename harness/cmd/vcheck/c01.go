package main

import (
	"bytes"
	"fmt"
	"image"
	"image/color"
	"image/draw"
	"math/rand"
	"time"

	"github.com/deepteams/webp"
	"github.com/deepteams/webp/verifx/vx"
)

func init() { register("C01", checkC01) }

type vp8lLine struct {
	ID    string `json:"id"`
	Bytes []int  `json:"bytes"`
	W     int    `json:"w"`
	H     int    `json:"h"`
	Pix   []int  `json:"pix"`
	TZero int    `json:"tzero"`
}

func argbList(img *image.NRGBA) []int {
	b := img.Bounds()
	out := make([]int, 0, 4*b.Dx()*b.Dy())
	for y := b.Min.Y; y < b.Max.Y; y++ {
		for x := b.Min.X; x < b.Max.X; x++ {
			c := img.NRGBAAt(x, y)
			out = append(out, int(c.A), int(c.R), int(c.G), int(c.B))
		}
	}
	return out
}

// validateVP8L runs the independent TLA+ reader over the lines (batched, parallel JVMs).
func validateVP8L(run *vx.Run, lines []vp8lLine) map[string]string {
	bad := map[string]string{}
	if len(lines) == 0 {
		return bad
	}
	const batch = 250
	type out struct {
		bl  []vx.BadLine
		res *vx.TLCResult
	}
	n := (len(lines) + batch - 1) / batch
	ch := make(chan out, n)
	sem := make(chan struct{}, 8)
	for i := 0; i < n; i++ {
		lo, hi := i*batch, (i+1)*batch
		if hi > len(lines) {
			hi = len(lines)
		}
		go func(part []vp8lLine) {
			sem <- struct{}{}
			defer func() { <-sem }()
			res := vx.MustTLC(vx.TLCOpts{Module: "TVVp8l", Cfg: "TVVp8l.cfg", Workers: 1, Timeout: 40 * time.Minute, Heap: "4g",
				Files: map[string][]byte{"trace.ndjson": vx.NDJSON(part)}})
			ch <- out{vx.Verdict(res, len(part), "TVVp8l"), res}
		}(lines[lo:hi])
	}
	for i := 0; i < n; i++ {
		o := <-ch
		run.AddTLC(o.res)
		for _, b := range o.bl {
			bad[b.ID] = b.Why
		}
	}
	run.AddTraces(len(lines))
	return bad
}

// picture classes of the C01 quantifier
type picSpec struct {
	w, h    int
	colours int // 0 = true colour
	content string
	alpha   string
	typ     string
}

func (p picSpec) String() string {
	return fmt.Sprintf("%dx%d/%s/c%d/%s/%s", p.w, p.h, p.content, p.colours, p.alpha, p.typ)
}

func buildPicture(rng *rand.Rand, p picSpec) *image.NRGBA {
	img := image.NewNRGBA(image.Rect(0, 0, p.w, p.h))
	var pal []color.NRGBA
	if p.colours > 0 {
		for i := 0; i < p.colours; i++ {
			pal = append(pal, color.NRGBA{uint8(rng.Intn(256)), uint8(rng.Intn(256)), uint8(rng.Intn(256)), 255})
		}
	}
	rowRepeat := 3 + rng.Intn(3)
	for y := 0; y < p.h; y++ {
		for x := 0; x < p.w; x++ {
			var c color.NRGBA
			yy := y
			if p.content == "repeated-rows" {
				yy = y % rowRepeat
			}
			switch {
			case p.colours > 0:
				switch p.content {
				case "flat":
					c = pal[0]
				case "gradient":
					c = pal[((x+yy)*p.colours/(p.w+p.h))%p.colours]
				case "repeated-rows":
					c = pal[(x*7+yy*3)%p.colours]
				default:
					c = pal[rng.Intn(p.colours)]
				}
			case p.content == "flat":
				c = color.NRGBA{120, 30, 200, 255}
			case p.content == "gradient":
				c = color.NRGBA{uint8(x * 255 / p.w), uint8(yy * 255 / p.h), uint8((x + yy) * 3), 255}
			case p.content == "photo":
				c = color.NRGBA{uint8((x*255/p.w + rng.Intn(9)) & 255), uint8((yy*255/p.h + rng.Intn(9)) & 255), uint8(((x+yy)*2 + rng.Intn(20)) & 255), 255}
			case p.content == "repeated-rows":
				r := rand.New(rand.NewSource(int64(yy*1000 + x)))
				c = color.NRGBA{uint8(r.Intn(256)), uint8(r.Intn(256)), uint8(r.Intn(256)), 255}
			default:
				c = color.NRGBA{uint8(rng.Intn(256)), uint8(rng.Intn(256)), uint8(rng.Intn(256)), 255}
			}
			switch p.alpha {
			case "binary":
				if rng.Intn(3) == 0 {
					c.A = 0
				}
			case "levels":
				c.A = []uint8{0, 64, 127, 128, 200, 255}[rng.Intn(6)]
			case "gradient":
				c.A = uint8((x*200/p.w + yy*55/p.h) & 255)
			case "straddle128": // neighbouring alphas on both sides of 128
				c.A = uint8(112 + rng.Intn(33))
			case "zero-coloured": // alpha 0 with non-zero RGB
				if (x+y)%3 == 0 {
					c.A = 0
				}
			case "noise":
				c.A = uint8(rng.Intn(256))
			}
			if p.colours > 0 && p.alpha != "opaque" {
				// keep the colour count: alpha is a function of the palette entry
				k := 0
				for i, pc := range pal {
					if pc.R == c.R && pc.G == c.G && pc.B == c.B {
						k = i
					}
				}
				switch p.alpha {
				case "binary", "zero-coloured":
					c.A = uint8(255 * (k % 2))
				default:
					c.A = uint8((k * 255) / p.colours)
				}
			}
			img.SetNRGBA(x, y, c)
		}
	}
	return img
}

// asType converts the NRGBA picture to the requested Go image type and returns the NRGBA picture the type can express.
func asType(src *image.NRGBA, typ string) (image.Image, *image.NRGBA) {
	switch typ {
	case "RGBA":
		r := image.NewRGBA(src.Rect)
		draw.Draw(r, r.Rect, src, image.Point{}, draw.Src)
		// what the type expresses: un-premultiplied through the standard colour model
		e := image.NewNRGBA(src.Rect)
		for y := 0; y < src.Rect.Dy(); y++ {
			for x := 0; x < src.Rect.Dx(); x++ {
				e.SetNRGBA(x, y, color.NRGBAModel.Convert(r.RGBAAt(x, y)).(color.NRGBA))
			}
		}
		return r, e
	case "Gray":
		g := image.NewGray(src.Rect)
		draw.Draw(g, g.Rect, src, image.Point{}, draw.Src)
		e := image.NewNRGBA(src.Rect)
		draw.Draw(e, e.Rect, g, image.Point{}, draw.Src)
		return g, e
	case "Paletted":
		pal := color.Palette{}
		seen := map[color.NRGBA]bool{}
		for i := 0; i+3 < len(src.Pix) && len(pal) < 256; i += 4 {
			c := color.NRGBA{src.Pix[i], src.Pix[i+1], src.Pix[i+2], src.Pix[i+3]}
			if !seen[c] {
				seen[c] = true
				pal = append(pal, c)
			}
		}
		p := image.NewPaletted(src.Rect, pal)
		draw.Draw(p, p.Rect, src, image.Point{}, draw.Src)
		e := image.NewNRGBA(src.Rect)
		for y := 0; y < src.Rect.Dy(); y++ {
			for x := 0; x < src.Rect.Dx(); x++ {
				e.SetNRGBA(x, y, color.NRGBAModel.Convert(p.At(x, y)).(color.NRGBA))
			}
		}
		return p, e
	case "generic":
		return genericImage{src}, src
	}
	return src, src
}

// shiftBounds returns the same picture as a sub-image, at (3,2), of a larger image of the same concrete type whose
// other pixels hold garbage.
func shiftBounds(rng *rand.Rand, img image.Image) image.Image {
	b := img.Bounds()
	pr := image.Rect(0, 0, b.Dx()+5, b.Dy()+4)
	win := image.Rect(3, 2, 3+b.Dx(), 2+b.Dy())
	fill := func(set func(x, y int)) {
		for y := 0; y < pr.Dy(); y++ {
			for x := 0; x < pr.Dx(); x++ {
				set(x, y)
			}
		}
	}
	switch v := img.(type) {
	case *image.NRGBA:
		p := image.NewNRGBA(pr)
		rng.Read(p.Pix)
		draw.Draw(p, win, v, b.Min, draw.Src)
		return p.SubImage(win)
	case *image.RGBA:
		p := image.NewRGBA(pr)
		fill(func(x, y int) {
			a := rng.Intn(256)
			p.SetRGBA(x, y, color.RGBA{uint8(rng.Intn(a + 1)), uint8(rng.Intn(a + 1)), uint8(rng.Intn(a + 1)), uint8(a)})
		})
		draw.Draw(p, win, v, b.Min, draw.Src)
		return p.SubImage(win)
	case *image.Gray:
		p := image.NewGray(pr)
		rng.Read(p.Pix)
		draw.Draw(p, win, v, b.Min, draw.Src)
		return p.SubImage(win)
	case *image.Paletted:
		p := image.NewPaletted(pr, v.Palette)
		fill(func(x, y int) { p.SetColorIndex(x, y, uint8(rng.Intn(len(v.Palette)))) })
		for y := 0; y < b.Dy(); y++ {
			for x := 0; x < b.Dx(); x++ {
				p.SetColorIndex(3+x, 2+y, v.ColorIndexAt(b.Min.X+x, b.Min.Y+y))
			}
		}
		return p.SubImage(win)
	case genericImage:
		return genericImage{shiftBounds(rng, v.im).(*image.NRGBA)}
	}
	return img
}

// farMatchPicture is a 1024x1040 grey-noise picture, larger than the LZ77 window (2^20 - 120 pixels at Quality > 75,
// width << 8 / << 6 / << 4 below), whose tail repeats 150-pixel runs that lie exactly at, just inside and just outside
// the window limit of each quality class.
func farMatchPicture(rng *rand.Rand) *image.NRGBA {
	const fw, fh = 1024, 1040
	far := image.NewNRGBA(image.Rect(0, 0, fw, fh))
	for i := 0; i < fw*fh; i++ {
		v := uint8(rng.Intn(256))
		far.Pix[4*i], far.Pix[4*i+1], far.Pix[4*i+2], far.Pix[4*i+3] = v, v, v, 255
	}
	pos := 1<<20 + 200
	for _, d := range []int{1<<20 - 121, 1<<20 - 120, 1<<20 - 119, 1<<20 - 60, 1<<20 - 1, 1 << 20, 1024 << 8, 1024<<8 - 1, 1024<<8 + 1, 1024 << 6, 1024<<6 + 1, 1024 << 4, 1024<<4 - 1} {
		copy(far.Pix[4*pos:4*(pos+150)], far.Pix[4*(pos-d):4*(pos-d+150)])
		pos += 400
	}
	return far
}

var c01Qualities = []int{0, 1, 9, 10, 24, 25, 26, 49, 50, 51, 74, 75, 76, 89, 90, 99, 100}

type c01Case struct {
	pic   picSpec
	o     webp.EncoderOptions
	meta  bool
	tlaOK bool
}

func c01Cases(run *vx.Run, rng *rand.Rand) []c01Case {
	var cs []c01Case
	colourClasses := []int{1, 2, 4, 5, 16, 17, 200, 0}
	// full Method x Quality-boundary x colour-class grid on 8x8
	for m := 0; m <= 6; m++ {
		for _, q := range c01Qualities {
			for ci, cc := range colourClasses {
				if !run.Thorough() && (m+q+ci)%3 != 0 {
					continue
				}
				alpha := []string{"opaque", "levels", "binary"}[(m+ci)%3]
				cs = append(cs, c01Case{pic: picSpec{8, 8, cc, "noise", alpha, "NRGBA"}, o: webp.EncoderOptions{Lossless: true, Method: m, Quality: float32(q)}, tlaOK: true})
			}
		}
	}
	sizes := [][2]int{{1, 1}, {1, 9}, {9, 1}, {2, 2}, {3, 5}, {7, 7}, {15, 16}, {16, 16}, {17, 17}, {31, 33}, {33, 31}, {5, 40}, {40, 5}, {64, 2}, {17, 65}}
	contents := []string{"flat", "gradient", "noise", "photo", "repeated-rows"}
	alphas := []string{"opaque", "binary", "levels", "gradient", "straddle128", "zero-coloured", "noise"}
	types := []string{"NRGBA", "NRGBA", "RGBA", "Gray", "Paletted", "generic"}
	n := run.Pick(500, 6000)
	for i := 0; i < n; i++ {
		sz := sizes[rng.Intn(len(sizes))]
		p := picSpec{sz[0], sz[1], colourClasses[rng.Intn(len(colourClasses))], contents[rng.Intn(len(contents))], alphas[rng.Intn(len(alphas))], types[rng.Intn(len(types))]}
		o := webp.EncoderOptions{Lossless: true, Method: rng.Intn(7), Quality: float32(c01Qualities[rng.Intn(len(c01Qualities))]), Exact: rng.Intn(2) == 0}
		c := c01Case{pic: p, o: o, meta: rng.Intn(3) == 0, tlaOK: sz[0]*sz[1] <= 1100}
		cs = append(cs, c)
	}
	// the combinations called out in the property: Exact x metadata x alpha-0 pixels carrying colour; true colour with alpha around 128
	for m := 0; m <= 6; m += 2 {
		for _, ex := range []bool{false, true} {
			for _, meta := range []bool{false, true} {
				cs = append(cs, c01Case{pic: picSpec{13, 11, 0, "noise", "zero-coloured", "NRGBA"}, o: webp.EncoderOptions{Lossless: true, Method: m, Quality: 75, Exact: ex}, meta: meta, tlaOK: true})
				cs = append(cs, c01Case{pic: picSpec{24, 24, 0, "photo", "straddle128", "NRGBA"}, o: webp.EncoderOptions{Lossless: true, Method: m, Quality: 80, Exact: ex}, meta: meta, tlaOK: true})
			}
		}
	}
	// large classes: parallel sections, strips at the dimension limit
	large := []picSpec{{260, 200, 0, "photo", "gradient", "NRGBA"}, {16383, 1, 0, "gradient", "opaque", "NRGBA"}, {1, 16383, 5, "noise", "opaque", "NRGBA"}, {300, 180, 12, "noise", "binary", "NRGBA"}}
	if run.Thorough() {
		large = append(large, picSpec{640, 400, 0, "photo", "opaque", "NRGBA"}, picSpec{640, 400, 0, "noise", "noise", "RGBA"}, picSpec{513, 257, 200, "gradient", "levels", "Paletted"})
	}
	for i, p := range large {
		cs = append(cs, c01Case{pic: p, o: webp.EncoderOptions{Lossless: true, Method: []int{4, 0, 6, 2, 3, 5, 1}[i%7], Quality: []float32{75, 20, 100, 50, 90, 30, 60}[i%7]}})
	}
	return cs
}

func checkC01(args []string) {
	run := vx.NewRun("C01", "translation_validation", args)
	activeRun = run
	run.Rule = "pictures from the classes of the property (size x colour count x content x alpha pattern x Go image type) x Method 0..6 x Quality boundary list x Exact x metadata: (a) webp.Encode then webp.Decode must reproduce every pixel (alpha-0 pixels may be transparent black unless Exact); (b) for pictures up to about 1100 pixels the emitted VP8L payload is also decoded by the independent TLA+ reader (spec/Vp8l.tla via TVVp8l) and must give the same pixels, so a matched encoder/decoder deviation is caught. distinct = distinct (picture class, options) cases"
	run.Assumptions = []string{"for RGBA / Gray / Paletted sources the expected pixels are what the Go image type expresses through the standard colour model", "TLA+ decoding is limited to small pictures (32-bit TLC integers, speed)"}
	rng := rand.New(rand.NewSource(run.Seed))
	cases := c01Cases(run, rng)
	var lines []vp8lLine
	info := map[string]string{}
	for i, c := range cases {
		src := buildPicture(rng, c.pic)
		in, want := asType(src, c.pic.typ)
		shifted := ""
		if i%3 == 1 {
			// the same pixels as a window of a larger parent full of other content: Bounds().Min is (3,2), not (0,0)
			in, shifted = shiftBounds(rng, in), " bounds@(3,2)"
		}
		o := c.o
		if c.meta {
			o.ICC, o.XMP = []byte{1, 2, 3}, []byte("x")
		}
		name := fmt.Sprintf("%v%s m%d q%v exact=%v meta=%v", c.pic, shifted, o.Method, o.Quality, o.Exact, c.meta)
		out, err, pan := safeEncode(in, &o)
		if pan != nil || err != nil {
			run.Violate("encode-fails|"+c.pic.typ, fmt.Sprintf("%s: err=%v panic=%v", name, err, pan), name)
			continue
		}
		run.Eval(name)
		dec, derr := guardedDecode(out)
		sigCls := fmt.Sprintf("%s|colours=%d|alpha=%s|m%d|exact=%v|meta=%v", c.pic.typ, c.pic.colours, c.pic.alpha, o.Method, o.Exact, c.meta)
		if derr != nil {
			run.Violate("decode-fails|"+sigCls, name+": "+derr.Error(), name)
			continue
		}
		if dec.Bounds().Dx() != c.pic.w || dec.Bounds().Dy() != c.pic.h {
			run.Violate("size|"+sigCls, fmt.Sprintf("%s: decoded %v", name, dec.Bounds()), name)
			continue
		}
		wrong := 0
		first := ""
		for y := 0; y < c.pic.h; y++ {
			for x := 0; x < c.pic.w; x++ {
				g := color.NRGBAModel.Convert(dec.At(dec.Bounds().Min.X+x, dec.Bounds().Min.Y+y)).(color.NRGBA)
				e := want.NRGBAAt(x, y)
				if g == e || (!o.Exact && e.A == 0 && g == (color.NRGBA{})) {
					continue
				}
				if wrong == 0 {
					first = fmt.Sprintf("(%d,%d) want %v got %v", x, y, e, g)
				}
				wrong++
			}
		}
		if wrong > 0 {
			run.Violate("pixels|"+sigCls, fmt.Sprintf("%s: %d pixels differ after the round trip, first %s", name, wrong, first), name)
		}
		if c.tlaOK {
			if payload := findChunk(out, "VP8L"); payload != nil {
				id := fmt.Sprintf("r%d", i)
				lines = append(lines, vp8lLine{ID: id, Bytes: vx.Ints(payload), W: c.pic.w, H: c.pic.h, Pix: argbList(want), TZero: b2i(!o.Exact)})
				info[id] = name + "||" + sigCls
			}
		}
		if i%400 == 0 {
			run.Sample(map[string]any{"case": name, "file_bytes": len(out)})
		}
	}
	// horizontally banded pictures: a quiet band (low-amplitude noise) over a busy one (full-range noise), the band
	// edge on a multiple of the histogram tile size, 3..7 tile rows with a complete or partial last row: several
	// prefix-code groups whose tile map is uniform except at the bottom
	{
		type band struct{ w, h, split, method int }
		var bands []band
		for _, m := range []int{0, 2, 4} {
			for _, w := range []int{64, 128} {
				for _, g := range [][2]int{{384, 256}, {896, 768}, {96, 64}, {300, 256}, {224, 192}, {160, 32}} {
					bands = append(bands, band{w, g[0], g[1], m})
				}
			}
		}
		for i, b := range bands {
			_ = i
			img := image.NewNRGBA(image.Rect(0, 0, b.w, b.h))
			for y := 0; y < b.h; y++ {
				for x := 0; x < b.w; x++ {
					o := img.PixOffset(x, y)
					if y < b.split {
						img.Pix[o], img.Pix[o+1], img.Pix[o+2] = uint8(100+rng.Intn(8)), uint8(100+rng.Intn(8)), uint8(100+rng.Intn(8))
					} else {
						img.Pix[o], img.Pix[o+1], img.Pix[o+2] = uint8(rng.Intn(256)), uint8(rng.Intn(256)), uint8(rng.Intn(256))
					}
					img.Pix[o+3] = 255
				}
			}
			for _, q := range []float32{50, 75} {
				name := fmt.Sprintf("%dx%d banded noise (quiet above row %d, busy below), lossless q%v m%d", b.w, b.h, b.split, q, b.method)
				out, err, pan := safeEncode(img, &webp.EncoderOptions{Lossless: true, Quality: q, Method: b.method})
				run.Eval(name)
				if pan != nil || err != nil {
					run.Violate("encode-fails|banded", fmt.Sprintf("%s: err=%v panic=%v", name, err, pan), name)
					continue
				}
				dec, derr := guardedDecode(out)
				if derr != nil {
					run.Violate(fmt.Sprintf("decode-fails|banded|m%d", b.method), name+": "+derr.Error(), name)
					continue
				}
				if got, ok := dec.(*image.NRGBA); !ok || got.Bounds() != img.Bounds() || !bytes.Equal(got.Pix, img.Pix) {
					run.Violate(fmt.Sprintf("pixels|banded|m%d", b.method), name+": the round trip does not reproduce the picture", name)
				}
			}
		}
	}
	// scan-order run pictures: flat runs shorter than, at and longer than the 4095-pixel copy length cap, each followed
	// by a distinctive tail that already occurred after a run of another length, so that near the end of a long run the
	// best match changes from "the pixel before" to a longer one at another distance (all cost-model qualities)
	{
		n := run.Pick(36, 400)
		for i := 0; i < n; i++ {
			w := []int{100, 64, 37, 128, 255}[rng.Intn(5)]
			ntails := 1 + rng.Intn(3)
			tails := make([][]uint8, ntails)
			next := uint8(10)
			for j := range tails {
				for k, tl := 0, 8+rng.Intn(53); k < tl; k++ {
					tails[j] = append(tails[j], next)
					next++
				}
			}
			var seq []uint8
			runLen := func(long bool) int {
				if !long {
					return 100 + rng.Intn(3000)
				}
				return []int{4090 + rng.Intn(12), 4096 + rng.Intn(1500), 5400 + rng.Intn(300), 8185 + rng.Intn(12), 9000 + rng.Intn(4000)}[rng.Intn(5)]
			}
			seq = append(seq, 1)
			for b, nb := 0, 2+rng.Intn(3); b < nb; b++ {
				flat := uint8(0)
				if rng.Intn(4) == 0 {
					flat = 8
				}
				for k, l := 0, runLen(b > 0 && rng.Intn(4) != 0); k < l; k++ {
					seq = append(seq, flat)
				}
				seq = append(seq, tails[rng.Intn(ntails)]...)
				for k, l := 0, rng.Intn(9); k < l; k++ {
					seq = append(seq, 2)
				}
				seq = append(seq, uint8(3+rng.Intn(5)))
			}
			h := (len(seq) + w - 1) / w
			img := image.NewNRGBA(image.Rect(0, 0, w, h))
			trueColour := rng.Intn(4) == 0
			for k := 0; k < w*h; k++ {
				v := uint8(9)
				if k < len(seq) {
					v = seq[k]
				}
				img.Pix[4*k], img.Pix[4*k+1], img.Pix[4*k+2], img.Pix[4*k+3] = v*3, v*5, 255-v, 255
				if trueColour && k >= w*h-300 {
					// more than 256 colours at the end: no palette, the ARGB pipeline sees the same runs
					img.Pix[4*k], img.Pix[4*k+1] = uint8(k), uint8(k>>1)
				}
			}
			o := webp.EncoderOptions{Lossless: true, Quality: []float32{90, 100, 75, 95, 50, 25}[rng.Intn(6)], Method: []int{4, 4, 6, 3, 5, 2}[rng.Intn(6)]}
			name := fmt.Sprintf("%dx%d scan-order runs around the 4095-pixel length cap with repeated tails (%d pixels, true colour %v), lossless q%v m%d #%d", w, h, len(seq), trueColour, o.Quality, o.Method, i)
			out, err, pan := safeEncode(img, &o)
			run.Eval(name)
			if pan != nil || err != nil {
				run.Violate("encode-fails|long-runs", fmt.Sprintf("%s: err=%v panic=%v", name, err, pan), name)
				continue
			}
			dec, derr := guardedDecode(out)
			if derr != nil {
				run.Violate("decode-fails|long-runs", name+": "+derr.Error(), name)
				continue
			}
			if got, ok := dec.(*image.NRGBA); !ok || got.Bounds() != img.Bounds() || !bytes.Equal(got.Pix, img.Pix) {
				run.Violate(fmt.Sprintf("pixels|long-runs|q>=90:%v", o.Quality >= 90), name+": the round trip does not reproduce the picture", name)
			}
		}
	}
	// colour-cache histories: pictures of 17..40 colours (a palette of 8-bit indices, so many colours share a slot of
	// a small cache) built from the pattern  "S A T ... S A | B | A T | B":  a copy that ends in colour A, a literal B,
	// a copy that starts with A, then B again - for random pairs (A, B); whether B may be coded as a cache reference
	// the second time depends on every insertion in between being mirrored by the encoder
	{
		n := run.Pick(150, 1500)
		for i := 0; i < n; i++ {
			nc := 17 + rng.Intn(24)
			grey := rng.Intn(2) == 0
			var seq []uint8
			snip := func(l int) []uint8 {
				o := make([]uint8, l)
				for k := range o {
					o[k] = uint8(rng.Intn(nc))
				}
				return o
			}
			for b, nb := 0, 2+rng.Intn(6); b < nb; b++ {
				a, bb := uint8(rng.Intn(nc)), uint8(rng.Intn(nc))
				sn, tn := snip(3+rng.Intn(4)), snip(3+rng.Intn(4))
				seq = append(seq, sn...)
				seq = append(seq, a)
				seq = append(seq, tn...)
				seq = append(seq, snip(rng.Intn(4))...)
				seq = append(seq, sn...)
				seq = append(seq, a, bb, a)
				seq = append(seq, tn...)
				seq = append(seq, bb)
				seq = append(seq, snip(rng.Intn(3))...)
			}
			w := []int{len(seq), (len(seq) + 1) / 2, (len(seq) + 3) / 4, 11, 16}[rng.Intn(5)]
			h := (len(seq) + w - 1) / w
			img := image.NewNRGBA(image.Rect(0, 0, w, h))
			colour := make([][3]uint8, nc)
			for k := range colour {
				if grey {
					v := uint8(k * 255 / (nc - 1))
					colour[k] = [3]uint8{v, v, v}
				} else {
					colour[k] = [3]uint8{uint8(rng.Intn(256)), uint8(rng.Intn(256)), uint8(rng.Intn(256))}
				}
			}
			for k := 0; k < w*h; k++ {
				c := colour[0]
				if k < len(seq) {
					c = colour[seq[k]]
				}
				img.Pix[4*k], img.Pix[4*k+1], img.Pix[4*k+2], img.Pix[4*k+3] = c[0], c[1], c[2], 255
			}
			o := webp.EncoderOptions{Lossless: true, Quality: []float32{30, 60, 75, 26, 50, 90}[rng.Intn(6)], Method: []int{2, 4, 3, 6, 0}[rng.Intn(5)]}
			name := fmt.Sprintf("%dx%d colour-cache history of %d pixels over %d colours (grey %v), lossless q%v m%d #%d", w, h, len(seq), nc, grey, o.Quality, o.Method, i)
			out, err, pan := safeEncode(img, &o)
			run.Eval(name)
			if pan != nil || err != nil {
				run.Violate("encode-fails|cache-history", fmt.Sprintf("%s: err=%v panic=%v", name, err, pan), name)
				continue
			}
			dec, derr := guardedDecode(out)
			if derr != nil {
				run.Violate("decode-fails|cache-history", name+": "+derr.Error(), name)
				continue
			}
			if got, ok := dec.(*image.NRGBA); !ok || got.Bounds() != img.Bounds() || !bytes.Equal(got.Pix, img.Pix) {
				run.Violate("pixels|cache-history", name+": the round trip does not reproduce the picture", name)
			}
			if w*h <= 1100 && i%3 == 0 {
				if payload := findChunk(out, "VP8L"); payload != nil {
					id := fmt.Sprintf("cc%d", i)
					lines = append(lines, vp8lLine{ID: id, Bytes: vx.Ints(payload), W: w, H: h, Pix: argbList(img), TZero: 1})
					info[id] = name + "||cache-history"
				}
			}
		}
	}
	// pictures larger than the LZ77 window (2^20 - 120 pixels at Quality > 75, width << 8 / << 6 / << 4 below) whose
	// tail repeats runs that lie exactly at, just inside and just outside the window limit of each quality class
	{
		const fw, fh = 1024, 1040
		far := farMatchPicture(rng)
		quals := []float32{80}
		if run.Thorough() {
			quals = []float32{80, 60, 30, 10, 100}
		}
		for _, q := range quals {
			name := fmt.Sprintf("%dx%d grey noise with repeats at the window limits, lossless q%v m4", fw, fh, q)
			out, err, pan := safeEncode(far, &webp.EncoderOptions{Lossless: true, Quality: q, Method: 4})
			run.Eval(name)
			if pan != nil || err != nil {
				run.Violate("encode-fails|far-matches", fmt.Sprintf("%s: err=%v panic=%v", name, err, pan), name)
				continue
			}
			dec, derr := guardedDecode(out)
			if derr != nil {
				run.Violate("decode-fails|far-matches", name+": "+derr.Error(), name)
				continue
			}
			got, ok := dec.(*image.NRGBA)
			if !ok || got.Bounds() != far.Bounds() || !bytes.Equal(got.Pix, far.Pix) {
				n := 0
				if ok && len(got.Pix) == len(far.Pix) {
					for k := 0; k < len(far.Pix); k += 4 {
						if got.Pix[k] != far.Pix[k] {
							n++
						}
					}
				}
				run.Violate("pixels|far-matches", fmt.Sprintf("%s: the round trip does not reproduce the picture (%d pixels differ)", name, n), name)
			}
		}
	}
	for id, why := range validateVP8L(run, lines) {
		parts := bytes.SplitN([]byte(info[id]), []byte("||"), 2)
		run.Violate("independent-reader|"+string(parts[1]), string(parts[0])+": "+why, string(parts[0]))
	}
	run.Cov["streams_decoded_by_the_tla_reader"] = len(lines)
	validateCodeDescriptions(run)
	run.Finish()
}
