package main

import (
	"fmt"
	"hash/fnv"
	"image"
	"image/color"

	"github.com/deepteams/webp/animation"
)

// Shared pieces of the animation checks (C08, C09, C18): recording playback of the real AnimDecoder
// in the shape spec/TVAnimDec.tla reads.

type tvFrame struct {
	OX      int      `json:"ox"`
	OY      int      `json:"oy"`
	W       int      `json:"w"`
	H       int      `json:"h"`
	Blend   int      `json:"blend"`
	Dispose int      `json:"dispose"`
	Pix     [][4]int `json:"pix"`
}

type tvPlayback struct {
	ID     string     `json:"id"`
	CW     int        `json:"cw"`
	CH     int        `json:"ch"`
	Frames []tvFrame  `json:"frames"`
	Snaps  [][][4]int `json:"snaps"`
}

func pixList(img *image.NRGBA) [][4]int {
	b := img.Bounds()
	out := make([][4]int, 0, b.Dx()*b.Dy())
	for y := b.Min.Y; y < b.Max.Y; y++ {
		for x := b.Min.X; x < b.Max.X; x++ {
			c := img.NRGBAAt(x, y)
			out = append(out, [4]int{int(c.R), int(c.G), int(c.B), int(c.A)})
		}
	}
	return out
}

func hashNRGBA(img *image.NRGBA) uint64 {
	h := fnv.New64a()
	b := img.Bounds()
	for y := b.Min.Y; y < b.Max.Y; y++ {
		off := img.PixOffset(b.Min.X, y)
		h.Write(img.Pix[off : off+4*b.Dx()])
	}
	return h.Sum64()
}

func frameToTV(f *animation.Frame) tvFrame {
	im := f.Image.(*image.NRGBA)
	return tvFrame{OX: f.OffsetX, OY: f.OffsetY, W: im.Bounds().Dx(), H: im.Bounds().Dy(),
		Blend: b2i(f.Blend == animation.BlendAlpha), Dispose: b2i(f.Dispose == animation.DisposeBackground), Pix: pixList(im)}
}

// playAll runs the real AnimDecoder over the animation. It returns the playback record and, separately, any
// violation of the clauses TVAnimDec does not see: Reset replays identically, returned snapshots are never modified.
func playAll(id string, a *animation.Animation) (rec tvPlayback, intrinsic string, err error) {
	defer func() {
		if r := recover(); r != nil {
			err = fmt.Errorf("panic: %v", r)
		}
	}()
	d, err := animation.NewAnimDecoder(a)
	if err != nil {
		return rec, "", err
	}
	rec = tvPlayback{ID: id, CW: a.CanvasWidth, CH: a.CanvasHeight}
	for i := range a.Frames {
		rec.Frames = append(rec.Frames, frameToTV(&a.Frames[i]))
	}
	var snaps []*image.NRGBA
	var hashes []uint64
	recheck := func(when string) string {
		for i, s := range snaps {
			if hashNRGBA(s) != hashes[i] {
				return fmt.Sprintf("snapshot of frame %d was modified by %s", i, when)
			}
		}
		return ""
	}
	for d.HasNext() {
		s, _, e := d.NextFrame()
		if e != nil {
			return rec, "", e
		}
		if s.Bounds().Dx() != a.CanvasWidth || s.Bounds().Dy() != a.CanvasHeight {
			return rec, "", fmt.Errorf("snapshot bounds %v", s.Bounds())
		}
		if m := recheck(fmt.Sprintf("NextFrame #%d", len(snaps))); m != "" && intrinsic == "" {
			intrinsic = m
		}
		snaps = append(snaps, s)
		hashes = append(hashes, hashNRGBA(s))
		rec.Snaps = append(rec.Snaps, pixList(s))
	}
	// Reset after every prefix length, then replay: same pictures; earlier snapshots untouched
	for k := 1; k <= len(a.Frames) && intrinsic == ""; k++ {
		d.Reset()
		if m := recheck("Reset"); m != "" {
			intrinsic = m
			break
		}
		for i := 0; i < k; i++ {
			s, _, e := d.NextFrame()
			if e != nil {
				return rec, "", e
			}
			if hashNRGBA(s) != hashes[i] {
				intrinsic = fmt.Sprintf("after Reset, frame %d of a replay of %d frames differs from the first playback", i, k)
				break
			}
		}
		if m := recheck("replay after Reset"); m != "" && intrinsic == "" {
			intrinsic = m
		}
	}
	return rec, intrinsic, nil
}

func fillFrame(w, h int, px1, px2 [4]int) *image.NRGBA {
	im := image.NewNRGBA(image.Rect(0, 0, w, h))
	c1 := color.NRGBA{uint8(px1[0]), uint8(px1[1]), uint8(px1[2]), uint8(px1[3])}
	c2 := color.NRGBA{uint8(px2[0]), uint8(px2[1]), uint8(px2[2]), uint8(px2[3])}
	for y := 0; y < h; y++ {
		for x := 0; x < w; x++ {
			im.SetNRGBA(x, y, c1)
		}
	}
	im.SetNRGBA(0, 0, c2)
	return im
}
