package main

import (
	"bytes"
	"encoding/json"
	"fmt"
	"github.com/deepteams/webp/animation"
	"image"
	"io"
	"math/rand"
	"sort"
	"time"

	"github.com/deepteams/webp"
	"github.com/deepteams/webp/verifx/vx"
)

func init() { register("C17", checkC17) }

type layoutEl struct {
	Name string `json:"name"`
	From int    `json:"from"`
	To   int    `json:"to"`
}

type layoutLine struct {
	ID  string     `json:"id"`
	OK  bool       `json:"ok"`
	Why string     `json:"why"`
	Els []layoutEl `json:"els"`
}

type idBytes struct {
	ID    string `json:"id"`
	Bytes []int  `json:"bytes"`
}

// specLayouts asks the TLA+ reader for the element map of every file.
func specLayouts(run *vx.Run, files map[string][]byte) map[string]layoutLine {
	var lines []idBytes
	var ids []string
	for id := range files {
		ids = append(ids, id)
	}
	sort.Strings(ids)
	for _, id := range ids {
		lines = append(lines, idBytes{id, vx.Ints(files[id])})
	}
	res := vx.MustTLC(vx.TLCOpts{Module: "TVLayout", Cfg: "TVLayout.cfg", Workers: 1, Timeout: 20 * time.Minute,
		Files: map[string][]byte{"trace.ndjson": vx.NDJSON(lines)}})
	run.AddTLC(res)
	out := map[string]layoutLine{}
	for _, raw := range res.Tagged("LAYOUT") {
		var l layoutLine
		if err := json.Unmarshal(raw, &l); err != nil {
			vx.Fatal2("LAYOUT: %v", err)
		}
		out[l.ID] = l
	}
	if len(out) != len(files) {
		vx.Fatal2("TVLayout returned %d layouts for %d files", len(out), len(files))
	}
	return out
}

func classAt(l layoutLine, off int) string {
	for _, e := range l.Els {
		if off >= e.From && off < e.To {
			return e.Name
		}
	}
	return "outside-any-element"
}

type c17File struct {
	name string
	data []byte
}

func c17Files(run *vx.Run) []c17File {
	rng := rand.New(rand.NewSource(run.Seed))
	var fs []c17File
	add := func(name string, img image.Image, o *webp.EncoderOptions) {
		oo := withDefaults(*o) // loop filter, SNS, segments as a default encode has them
		fs = append(fs, c17File{name, mustEncode(img, &oo)})
	}
	sz := func() (int, int) { return 17 + rng.Intn(30), 17 + rng.Intn(24) }
	for p := 0; p <= 3; p++ {
		w, h := sz()
		if p == 3 {
			w, h = 40+rng.Intn(10), 130+rng.Intn(8) // 8 partitions need >= 8 macroblock rows to be all used
		}
		add(fmt.Sprintf("lossy-partitions%d", p), noiseNRGBA(rng, w, h, 0), &webp.EncoderOptions{Quality: float32(30 + rng.Intn(50)), Method: 2 + rng.Intn(4), Partitions: p})
	}
	w, h := sz()
	add("lossy-filter-segments", noiseNRGBA(rng, w, h, 0), &webp.EncoderOptions{Quality: 55, Method: 4, Segments: 4, FilterStrength: 40, FilterType: 1})
	w, h = sz()
	add("lossless", noiseNRGBA(rng, w, h, 0), &webp.EncoderOptions{Lossless: true, Quality: 50, Method: 3})
	add("lossless-alpha-palette", palettedNRGBA(rng, w, h, 5), &webp.EncoderOptions{Lossless: true, Quality: 80, Method: 5})
	w, h = sz()
	add("lossy-alpha-raw", noiseNRGBA(rng, w, h, 2), &webp.EncoderOptions{Quality: 60, Method: 3, AlphaCompression: 0, AlphaFiltering: 0})
	add("lossy-alpha-compressed", gradientAlpha(rng, w, h), &webp.EncoderOptions{Quality: 60, Method: 3, AlphaCompression: 1, AlphaFiltering: 2})
	w, h = sz()
	add("extended-lossy-meta", noiseNRGBA(rng, w, h, 0), &webp.EncoderOptions{Quality: 60, Method: 3, ICC: []byte("icc-profile-odd"), EXIF: []byte("exif"), XMP: []byte("<x/>")})
	add("extended-lossless-meta", noiseNRGBA(rng, w, h, 3), &webp.EncoderOptions{Lossless: true, Quality: 60, Method: 2, ICC: []byte{1}, XMP: []byte("xmp-odd")})
	// odd payload with pad byte: search a size that gives an odd VP8 chunk
	for try := 0; try < 40; try++ {
		w, h = sz()
		f := mustEncode(noiseNRGBA(rng, w, h, 0), &webp.EncoderOptions{Quality: float32(40 + try), Method: 1})
		if len(findChunk(f, "VP8 "))%2 == 1 {
			fs = append(fs, c17File{"lossy-odd-payload", f})
			break
		}
	}
	if run.Thorough() {
		for i := 0; i < 12; i++ {
			w, h = sz()
			am := rng.Intn(4)
			o := &webp.EncoderOptions{Lossless: rng.Intn(2) == 0, Quality: float32(rng.Intn(101)), Method: rng.Intn(7), Partitions: rng.Intn(4), Segments: 1 + rng.Intn(4)}
			if rng.Intn(2) == 0 {
				o.EXIF = []byte("e")
			}
			add(fmt.Sprintf("random%d-lossless=%v-alpha%d", i, o.Lossless, am), noiseNRGBA(rng, w, h, am), o)
		}
	}
	return fs
}

// c17Poison is a truncated two-frame animation (frames of a size no still of the check has).
var c17Poison []byte

func buildC17Poison(rng *rand.Rand) []byte {
	b := buildC17Animation(rng)
	return append([]byte(nil), b[:len(b)-7]...)
}

func buildC17Animation(rng *rand.Rand) []byte {
	var buf bytes.Buffer
	e := animation.NewEncoder(&buf, 48, 40, &animation.EncodeOptions{Quality: 60, Lossless: true})
	e.AddFrame(noiseNRGBA(rng, 48, 40, 0), 30*time.Millisecond)
	e.AddFrame(noiseNRGBA(rng, 48, 40, 1), 30*time.Millisecond)
	if err := e.Close(); err != nil {
		vx.Fatal2("C17: building the animation: %v", err)
	}
	return append([]byte(nil), buf.Bytes()...)
}

func checkC17(args []string) {
	run := vx.NewRun("C17", "fault_enumeration", args)
	activeRun = run
	run.Rule = "every proper prefix (length 0..len-1) of every file of the structure classes; the cut position is classified by the syntax element the first removed byte belongs to, using the layout map computed by the TLA+ reader (spec/Riff.tla LayoutMap); distinct = distinct (file class, element class) pairs that were cut"
	run.Assumptions = []string{"files come from this tree's encoder; the TLA+ strict reader must accept each complete file"}
	files := c17Files(run)
	c17Poison = buildC17Poison(rand.New(rand.NewSource(run.Seed + 5)))
	// (the property speaks about still files only; how a truncated animation itself is treated is not judged here)
	byID := map[string][]byte{}
	for _, f := range files {
		byID[f.name] = f.data
	}
	lay := specLayouts(run, byID)
	classes := map[string]int{}
	for _, f := range files {
		l := lay[f.name]
		if !l.OK {
			run.Violate("nonconformant-file|"+f.name, "strict reader rejects the complete file: "+l.Why, f.name)
			continue
		}
		full, err := guardedDecode(f.data)
		if err != nil {
			run.Violate("full-decode-fails|"+f.name, err.Error(), f.name)
			continue
		}
		fcfg, err1 := webp.DecodeConfig(bytes.NewReader(f.data))
		ffeat, err2 := webp.GetFeatures(bytes.NewReader(f.data))
		if err1 != nil || err2 != nil {
			run.Violate("full-config-fails|"+f.name, fmt.Sprint(err1, err2), f.name)
			continue
		}
		nOK := 0
		for k := 0; k < len(f.data); k++ {
			cls := classAt(l, k)
			classes[cls]++
			run.Eval(f.name + "|" + cls)
			pre := f.data[:k]
			key, msg := truncOne(pre, full, fcfg, ffeat)
			if key == "accepted-identical" {
				nOK++
				continue
			}
			if key != "" {
				run.Violate(key+"|"+f.name+"|"+cls, fmt.Sprintf("%s cut at %d of %d (in %s): %s", f.name, k, len(f.data), cls, msg),
					map[string]any{"file": f.name, "cut": k, "bytes": f.data})
			}
		}
		run.AddTraces(len(f.data))
		run.Sample(map[string]any{"file": f.name, "bytes": len(f.data), "prefixes": len(f.data), "prefixes_decoding_to_the_full_picture": nOK, "elements": len(l.Els)})
	}
	run.Cov["cut_element_classes"] = classes
	run.Finish()
}

func truncOne(pre []byte, full image.Image, fcfg image.Config, ffeat *webp.Features) (key, msg string) {
	defer func() {
		if r := recover(); r != nil {
			key, msg = "panic", fmt.Sprint(r)
		}
	}()
	identical := false
	// a failed call precedes every prefix: a truncated animation whose parse fails after frames were seen (state a
	// failed parse leaves behind must not turn the next truncated file into an accepted one)
	if c17Poison != nil {
		webp.GetFeatures(bytes.NewReader(c17Poison))
		webp.Decode(bytes.NewReader(c17Poison))
	}
	// every entry point is fed twice: from a *bytes.Reader and from a plain stream (no Len, short reads)
	for _, kind := range []string{"bytes.Reader", "stream"} {
		rd := func() io.Reader {
			if kind == "stream" {
				return streamOf(pre)
			}
			return bytes.NewReader(pre)
		}
		if im, err := guardedDecodeFrom(pre, rd()); err == nil {
			if fmt.Sprintf("%T", im) != fmt.Sprintf("%T", full) || !sameImage(im, full) {
				return "partial-picture|" + kind, fmt.Sprintf("Decode of the prefix (read from a %s) returned a different picture (%T %v)", kind, im, im.Bounds())
			}
			identical = true
		}
		if c, err := webp.DecodeConfig(rd()); err == nil {
			if c.Width != fcfg.Width || c.Height != fcfg.Height || c.ColorModel != fcfg.ColorModel {
				return "config-differs|" + kind, fmt.Sprintf("DecodeConfig on the prefix (read from a %s): %dx%d, full file %dx%d (or colour model differs)", kind, c.Width, c.Height, fcfg.Width, fcfg.Height)
			}
		}
		if f, err := webp.GetFeatures(rd()); err == nil {
			if *f != *ffeat {
				return "features-differ|" + kind, fmt.Sprintf("GetFeatures on the prefix (read from a %s): %+v, full file %+v", kind, *f, *ffeat)
			}
		}
	}
	if identical {
		return "accepted-identical", ""
	}
	return "", ""
}
