package main

import (
	"bytes"
	"fmt"
	"image"
	"image/png"
	"os"
	"path/filepath"
	"sort"
	"strings"

	"github.com/deepteams/webp"
)

const fixtureDir = "/verif/fixtures/ximage"

// refPlanes is libwebp's own decode of a lossy fixture (dwebp -pgm, stored as a gray PNG in
// golang.org/x/image/testdata): Y plane on top, below it U and V side by side, then alpha.
type refPlanes struct {
	w, h      int
	y, cb, cr []byte // strides w, (w+1)/2
	a         []byte // nil without alpha
}

func loadRefPlanes(pngPath string, w, h int, withAlpha bool) (*refPlanes, error) {
	b, err := os.ReadFile(pngPath)
	if err != nil {
		return nil, err
	}
	im, err := png.Decode(bytes.NewReader(b))
	if err != nil {
		return nil, err
	}
	g, ok := im.(*image.Gray)
	if !ok {
		return nil, fmt.Errorf("%s: not a gray PNG", pngPath)
	}
	w2, h2 := (w+1)/2, (h+1)/2
	wantH := h + h2
	if withAlpha {
		wantH += h
	}
	if g.Bounds().Dx() != 2*w2 || g.Bounds().Dy() != wantH {
		return nil, fmt.Errorf("%s: reference is %v, expected %dx%d", pngPath, g.Bounds(), 2*w2, wantH)
	}
	r := &refPlanes{w: w, h: h, y: make([]byte, w*h), cb: make([]byte, w2*h2), cr: make([]byte, w2*h2)}
	for y := 0; y < h; y++ {
		copy(r.y[y*w:(y+1)*w], g.Pix[y*g.Stride:y*g.Stride+w])
	}
	for y := 0; y < h2; y++ {
		row := g.Pix[(h+y)*g.Stride:]
		copy(r.cb[y*w2:(y+1)*w2], row[:w2])
		copy(r.cr[y*w2:(y+1)*w2], row[w2:2*w2])
	}
	if withAlpha {
		r.a = make([]byte, w*h)
		for y := 0; y < h; y++ {
			copy(r.a[y*w:(y+1)*w], g.Pix[(h+h2+y)*g.Stride:(h+h2+y)*g.Stride+w])
		}
	}
	return r, nil
}

// lossyFixtures lists the libwebp-encoded lossy files that have reference planes.
func lossyFixtures() []string {
	m, _ := filepath.Glob(filepath.Join(fixtureDir, "*.lossy.webp"))
	sort.Strings(m)
	return m
}

// compareLossyFixture decodes a fixture with the real decoder and counts samples that differ from libwebp's planes.
func compareLossyFixture(path string) (diffY, diffC int, first string, err error) {
	data, err := os.ReadFile(path)
	if err != nil {
		return 0, 0, "", err
	}
	im, err := webp.Decode(bytes.NewReader(data))
	if err != nil {
		return 0, 0, "", err
	}
	yc, ok := im.(*image.YCbCr)
	if !ok {
		return 0, 0, "", fmt.Errorf("%s: decoded to %T", path, im)
	}
	w, h := yc.Rect.Dx(), yc.Rect.Dy()
	ref, err := loadRefPlanes(path+".ycbcr.png", w, h, false)
	if err != nil {
		return 0, 0, "", err
	}
	for y := 0; y < h; y++ {
		for x := 0; x < w; x++ {
			if yc.Y[y*yc.YStride+x] != ref.y[y*w+x] {
				if diffY == 0 {
					first = fmt.Sprintf("Y(%d,%d) got %d want %d", x, y, yc.Y[y*yc.YStride+x], ref.y[y*w+x])
				}
				diffY++
			}
		}
	}
	w2, h2 := (w+1)/2, (h+1)/2
	for y := 0; y < h2; y++ {
		for x := 0; x < w2; x++ {
			if yc.Cb[y*yc.CStride+x] != ref.cb[y*w2+x] || yc.Cr[y*yc.CStride+x] != ref.cr[y*w2+x] {
				if diffY+diffC == 0 {
					first = fmt.Sprintf("C(%d,%d)", x, y)
				}
				diffC++
			}
		}
	}
	return diffY, diffC, strings.TrimSpace(first), nil
}
