package main

import (
	"bytes"
	"fmt"
	"image"
	"math/rand"
	"os"
	"os/exec"
	"runtime"
	"strings"
	"sync"
	"time"

	"github.com/deepteams/webp"
	"github.com/deepteams/webp/animation"
	"github.com/deepteams/webp/internal/verifhook"
	"github.com/deepteams/webp/mux"
	"github.com/deepteams/webp/verifx/vx"
)

func init() {
	register("C10", checkC10)
	register("C10-race-child", c10RaceChild)
	register("C10-cold-child", c10ColdChild)
}

// c10ColdChild makes the FIRST library calls of a fresh process concurrent: several goroutines, released together,
// each start one Encode (no library call has been made before, so every lazily built table, every dispatch
// initialisation and every pool is met for the first time by all of them at once). Each result must equal the result
// of the same call made again afterwards, alone.
func c10ColdChild(args []string) {
	seed := int64(1)
	if len(args) > 0 {
		fmt.Sscan(args[0], &seed)
	}
	runtime.GOMAXPROCS(8)
	rng := rand.New(rand.NewSource(seed))
	type job struct {
		name string
		img  image.Image
		o    webp.EncoderOptions
	}
	def := *webp.DefaultOptions()
	withO := func(f func(o *webp.EncoderOptions)) webp.EncoderOptions { o := def; f(&o); return o }
	pics := []image.Image{noiseNRGBA(rng, 96, 80, 0), gradientAlpha(rng, 64, 80), lossyPicture(rng, 120, 90, "smooth"), palettedNRGBA(rng, 40, 40, 9)}
	var jobs []job
	for k := 0; k < 10; k++ {
		p := pics[(int(seed)+k)%len(pics)]
		switch (int(seed) + k) % 5 {
		case 0:
			jobs = append(jobs, job{"lossy default", p, def})
		case 1:
			jobs = append(jobs, job{"lossy sharp-yuv m2", p, withO(func(o *webp.EncoderOptions) { o.UseSharpYUV, o.Method = true, 2 })})
		case 2:
			jobs = append(jobs, job{"lossless q60", p, withO(func(o *webp.EncoderOptions) { o.Lossless, o.Quality = true, 60 })})
		case 3:
			jobs = append(jobs, job{"lossy m0 dithered", p, withO(func(o *webp.EncoderOptions) { o.Method, o.Preprocessing, o.Quality = 0, 2, 40 })})
		default:
			jobs = append(jobs, job{"lossy m6 q90", p, withO(func(o *webp.EncoderOptions) { o.Method, o.Quality = 6, 90 })})
		}
	}
	enc := func(j job) string {
		o := j.o
		var buf bytes.Buffer
		if err := webp.Encode(&buf, j.img, &o); err != nil {
			return "error: " + err.Error()
		}
		return fmt.Sprintf("%d bytes %x", buf.Len(), hashBytes(buf.Bytes()))
	}
	res := make([]string, len(jobs))
	var ready, wg sync.WaitGroup
	start := make(chan struct{})
	for i := range jobs {
		ready.Add(1)
		wg.Add(1)
		go func(i int) {
			defer wg.Done()
			ready.Done()
			<-start
			res[i] = enc(jobs[i])
		}(i)
	}
	ready.Wait()
	close(start)
	wg.Wait()
	bad := 0
	for i, j := range jobs {
		if again := enc(j); again != res[i] {
			fmt.Printf("COLD-VIOLATION concurrent-first-use|%s: as one of the first concurrent calls of a fresh process Encode(%s) returned %s, the same call made alone afterwards returns %s\n", j.name, j.name, res[i], again)
			bad++
		}
	}
	fmt.Printf("COLD-DONE bad=%d\n", bad)
}

type rowTrace struct {
	ID string            `json:"id"`
	W  int               `json:"W"`
	H  int               `json:"H"`
	Ev []verifhook.Event `json:"ev"`
}

var c10Profiles = []struct {
	name string
	prof map[string]int
}{
	{"none", nil},
	{"random", map[string]int{"*": 30}},
	{"slow-waiter-before-cond-wait", map[string]int{"wslow": 100, "*": 4}},
	{"slow-signaller-after-store", map[string]int{"stored": 100, "*": 4}},
	{"slow-row-above", map[string]int{"write_e": 70, "sig_b": 30}},
	{"slow-reader", map[string]int{"read_b": 60, "read_e": 30}},
}

// encodeTraced runs one parallel lossy encode with hooks on; a hang is reported as deadlock.
func encodeTraced(img image.Image, o *webp.EncoderOptions, seed int64, prof map[string]int, limit time.Duration) (out []byte, ev []verifhook.Event, hung bool, err error) {
	type res struct {
		b   []byte
		err error
	}
	ch := make(chan res, 1)
	done := make(chan struct{})
	cpu0 := procCPU(os.Getpid())
	verifhook.Start(seed, prof)
	go func() {
		defer close(done)
		var buf bytes.Buffer
		e := webp.Encode(&buf, img, o)
		ch <- res{buf.Bytes(), e}
	}()
	select {
	case r := <-ch:
		ev = verifhook.Stop()
		return r.b, ev, false, r.err
	case <-time.After(limit):
		// not back within the wall-clock limit: blocked (no CPU used) or spinning -> hung; merely slow -> wait
		if hangVerdict(done, cpu0, limit) == "finished" {
			r := <-ch
			ev = verifhook.Stop()
			return r.b, ev, false, r.err
		}
		ev = verifhook.Stop()
		return nil, ev, true, nil
	}
}

// apiCall is one public call of the concurrent-programs alphabet; run returns a digest of the result.
type apiCall struct {
	name string
	run  func() (string, error)
}

func digestImage(im image.Image) string {
	h := fmt.Sprintf("%T%v", im, im.Bounds())
	switch v := im.(type) {
	case *image.NRGBA:
		return h + fmt.Sprintf("%x", hashNRGBA(v))
	case *image.YCbCr:
		return h + fmt.Sprintf("%x", hashBytes(v.Y, v.Cb, v.Cr))
	}
	return h
}

func buildAPICalls(seed int64) []apiCall {
	rng := rand.New(rand.NewSource(seed))
	imgs := map[string]*image.NRGBA{
		"33x17":         noiseNRGBA(rng, 33, 17, 0),
		"48x32":         noiseNRGBA(rng, 48, 32, 0), // same macroblock grid as 33x17: 3x2
		"40x24-alpha":   noiseNRGBA(rng, 40, 24, 2),
		"96x128":        noiseNRGBA(rng, 96, 128, 0), // parallel lossy path
		"64x80-alpha":   gradientAlpha(rng, 64, 80),
		"pal-20x20":     palettedNRGBA(rng, 20, 20, 7),
		"260x200":       noiseNRGBA(rng, 260, 200, 0), // > 50 000 px: parallel lossless sections
		"400x300-alpha": gradientAlpha(rng, 400, 300), // alpha plane above the parallel thresholds
	}
	// flat blocks on a slow gradient and a repeated tile: long matches, empty histogram tiles, several clusters
	for _, kind := range []int{0, 2} {
		p := image.NewNRGBA(image.Rect(0, 0, 400, 300))
		for y := 0; y < 300; y++ {
			for x := 0; x < 400; x++ {
				var r, g, b uint8
				if kind == 0 {
					s := uint32((x%16)*131+(y%16)*977)*1664525 + 1013904223
					r, g, b = uint8(s>>24), uint8(s>>16), uint8(s>>8)
					if y > 200 {
						r, g, b = uint8(x), uint8(y), uint8(rng.Intn(256))
					}
				} else {
					r, g, b = uint8(x/2), uint8(y/2), 200
					if (x/7+y/11)%3 == 0 {
						r, g, b = 20, 20, uint8(x)
					}
				}
				i := p.PixOffset(x, y)
				p.Pix[i], p.Pix[i+1], p.Pix[i+2], p.Pix[i+3] = r, g, b, 255
			}
		}
		imgs[fmt.Sprintf("repetitive%d-400x300", kind)] = p
	}
	// alpha planes on which several prediction filters of the alpha encoder give exactly the same size (a function of
	// x+y, a horizontal ramp, a vertical ramp, noise that no filter compresses): the choice among ties must not depend
	// on timing
	for _, kind := range []string{"diag", "hramp", "vramp", "noise"} {
		p := image.NewNRGBA(image.Rect(0, 0, 100, 60))
		for y := 0; y < 60; y++ {
			for x := 0; x < 100; x++ {
				a := 0
				switch kind {
				case "diag":
					a = (x + y) * 255 / 158
				case "hramp":
					a = x * 255 / 99
				case "vramp":
					a = y * 255 / 59
				default:
					a = rng.Intn(256)
				}
				i := p.PixOffset(x, y)
				p.Pix[i], p.Pix[i+1], p.Pix[i+2], p.Pix[i+3] = uint8(x*2), uint8(y*3), 90, uint8(a)
			}
		}
		imgs["alpha-"+kind+"-100x60"] = p
	}
	var calls []apiCall
	files := map[string][]byte{}
	addEnc := func(name, im string, o webp.EncoderOptions) {
		o = withDefaults(o)
		oo := o
		files[name] = mustEncode(imgs[im], &oo)
		calls = append(calls, apiCall{"Encode:" + name, func() (string, error) {
			o2 := o
			var buf yieldWriter
			if err := webp.Encode(&buf, imgs[im], &o2); err != nil {
				return "", err
			}
			return fmt.Sprintf("%x", hashBytes(buf.b)), nil
		}})
	}
	addEnc("lossy-33x17-m4", "33x17", webp.EncoderOptions{Quality: 60, Method: 4})
	addEnc("lossy-48x32-m4-seg2", "48x32", webp.EncoderOptions{Quality: 40, Method: 4, Segments: 2, FilterStrength: 20})
	addEnc("lossy-48x32-m6", "48x32", webp.EncoderOptions{Quality: 80, Method: 6, Partitions: 2})
	addEnc("lossy-96x128-m4", "96x128", webp.EncoderOptions{Quality: 70, Method: 4})
	addEnc("lossy-96x128-m3-sns", "96x128", webp.EncoderOptions{Quality: 50, Method: 3, SNSStrength: 80})
	addEnc("lossy-alpha-40x24", "40x24-alpha", webp.EncoderOptions{Quality: 60, Method: 2})
	addEnc("lossy-alpha-64x80-sharp", "64x80-alpha", webp.EncoderOptions{Quality: 60, Method: 4, UseSharpYUV: true})
	addEnc("lossless-33x17", "33x17", webp.EncoderOptions{Lossless: true, Quality: 75, Method: 4})
	addEnc("lossless-pal", "pal-20x20", webp.EncoderOptions{Lossless: true, Quality: 90, Method: 6})
	addEnc("lossless-260x200", "260x200", webp.EncoderOptions{Lossless: true, Quality: 50, Method: 3})
	addEnc("lossless-alpha-64x80", "64x80-alpha", webp.EncoderOptions{Lossless: true, Quality: 75, Method: 4, Exact: true})
	addEnc("lossy-alpha-400x300", "400x300-alpha", webp.EncoderOptions{Quality: 50, Method: 1})
	addEnc("lossless-repetitive0-q95", "repetitive0-400x300", webp.EncoderOptions{Lossless: true, Quality: 95, Method: 4})
	addEnc("lossless-repetitive2-q100", "repetitive2-400x300", webp.EncoderOptions{Lossless: true, Quality: 100, Method: 3})
	for _, kind := range []string{"diag", "hramp", "vramp", "noise"} {
		addEnc("lossy-alpha-"+kind+"-best-filter", "alpha-"+kind+"-100x60", webp.EncoderOptions{Quality: 50, Method: 3, AlphaFiltering: 2})
		addEnc("lossy-alpha-"+kind+"-best-filter-m6", "alpha-"+kind+"-100x60", webp.EncoderOptions{Quality: 50, Method: 6, AlphaFiltering: 2, AlphaQuality: 80})
	}
	// extended-container output (metadata, alpha) with call-specific blobs: the writer yields inside Write, so
	// several Encode calls are between "file assembled" and "file written" at the same time
	blob := func(tag byte, n int) []byte {
		b := make([]byte, n)
		for i := range b {
			b[i] = tag ^ byte(i*7)
		}
		return b
	}
	addEnc("lossy-33x17-exif", "33x17", webp.EncoderOptions{Quality: 60, Method: 2, EXIF: blob(0x11, 300)})
	addEnc("lossy-48x32-icc-xmp", "48x32", webp.EncoderOptions{Quality: 60, Method: 2, ICC: blob(0x22, 180), XMP: blob(0x33, 121)})
	addEnc("lossless-33x17-exif", "33x17", webp.EncoderOptions{Lossless: true, Quality: 30, Method: 1, EXIF: blob(0x44, 300)})
	addEnc("lossless-pal-icc-exif-xmp", "pal-20x20", webp.EncoderOptions{Lossless: true, Quality: 30, Method: 1, ICC: blob(0x55, 64), EXIF: blob(0x66, 65), XMP: blob(0x77, 66)})
	for name, f := range files {
		f := f
		calls = append(calls, apiCall{"Decode:" + name, func() (string, error) {
			im, err := webp.Decode(bytes.NewReader(f))
			if err != nil {
				return "", err
			}
			return digestImage(im), nil
		}})
	}
	// decodes that fail inside the bitstream (container intact, second half of the payload overwritten): error paths
	// release pooled objects too
	for _, nm := range []string{"lossy-96x128-m4", "lossy-alpha-40x24", "lossless-260x200"} {
		tag := "VP8 "
		if strings.HasPrefix(nm, "lossless") {
			tag = "VP8L"
		}
		bad := corruptPayload(files[nm], tag)
		if tag == "VP8 " {
			// a lossy payload with garbage in it usually still "decodes"; cut the payload instead (the frame header
			// then announces more partition data than the chunk holds), keeping the container consistent
			pl := findChunk(files[nm], "VP8 ")
			for _, keep := range []int{len(pl) / 2, len(pl) / 4, 30, 12} {
				cand := wrapVP8(pl[:keep])
				if _, err := webp.Decode(bytes.NewReader(cand)); err != nil {
					bad = cand
					break
				}
			}
		}
		calls = append(calls, apiCall{"Decode(corrupted " + nm + ")", func() (string, error) {
			im, err := webp.Decode(bytes.NewReader(bad))
			if err != nil {
				return "error: " + err.Error(), nil
			}
			return digestImage(im), nil
		}})
	}
	f0 := files["lossy-alpha-40x24"]
	calls = append(calls, apiCall{"DecodeConfig+GetFeatures", func() (string, error) {
		c, err := webp.DecodeConfig(bytes.NewReader(f0))
		if err != nil {
			return "", err
		}
		ft, err := webp.GetFeatures(bytes.NewReader(f0))
		if err != nil {
			return "", err
		}
		return fmt.Sprintf("%dx%d %+v", c.Width, c.Height, *ft), nil
	}})
	animIn := []*image.NRGBA{noiseNRGBA(rng, 24, 20, 1), noiseNRGBA(rng, 24, 20, 1), noiseNRGBA(rng, 24, 20, 2)}
	calls = append(calls, apiCall{"AnimEncode+Decode", func() (string, error) {
		var buf bytes.Buffer
		e := animation.NewEncoder(&buf, 24, 20, &animation.EncodeOptions{Lossless: true, Quality: 75})
		for i, p := range animIn {
			if err := e.AddFrame(p, time.Duration(10*(i+1))*time.Millisecond); err != nil {
				return "", err
			}
		}
		if err := e.Close(); err != nil {
			return "", err
		}
		a, err := animation.DecodeBytes(buf.Bytes())
		if err != nil {
			return "", err
		}
		if err := a.DecodeFramesParallel(); err != nil {
			return "", err
		}
		d, err := animation.NewAnimDecoder(a)
		if err != nil {
			return "", err
		}
		s := fmt.Sprintf("%x", hashBytes(buf.Bytes()))
		for d.HasNext() {
			fr, _, err := d.NextFrame()
			if err != nil {
				return "", err
			}
			s += fmt.Sprintf(":%x", hashNRGBA(fr))
		}
		return s, nil
	}})
	vp8 := findChunk(files["lossy-33x17-m4"], "VP8 ")
	calls = append(calls, apiCall{"Mux+Demux", func() (string, error) {
		m := mux.NewMuxer()
		m.AddFrame(vp8, &mux.FrameOptions{Duration: 5})
		m.AddFrame(vp8, &mux.FrameOptions{Duration: 6, OffsetX: 2})
		m.SetCanvasSize(40, 20)
		var buf bytes.Buffer
		if err := m.Assemble(&buf); err != nil {
			return "", err
		}
		d, err := mux.NewDemuxer(buf.Bytes())
		if err != nil {
			return "", err
		}
		return fmt.Sprintf("%x/%d", hashBytes(buf.Bytes()), d.NumFrames()), nil
	}})
	return calls
}

// yieldWriter is an in-memory io.Writer that gives up the processor inside Write (as a pipe or a socket would while
// it blocks): it widens the window in which another goroutine runs while this call's output is still being written.
type yieldWriter struct{ b []byte }

func (w *yieldWriter) Write(p []byte) (int, error) {
	n := len(p)
	for len(p) > 0 {
		k := 96
		if k > len(p) {
			k = len(p)
		}
		runtime.Gosched()
		w.b = append(w.b, p[:k]...)
		p = p[k:]
	}
	runtime.Gosched()
	return n, nil
}

// runWriterOverlap keeps many Encode calls that write an extended container (metadata or alpha) between "file
// assembled" and "file written" at the same time: more goroutines than processors, every writer yields inside Write.
// Each output must equal the solo output of the same call.
func runWriterOverlap(seed int64, rounds int, report func(key, msg string), eval func(sig string)) {
	calls := buildAPICalls(seed)
	var ext []int
	for i, c := range calls {
		if strings.HasPrefix(c.name, "Encode:") && (strings.Contains(c.name, "exif") || strings.Contains(c.name, "icc") || strings.Contains(c.name, "alpha")) && !strings.Contains(c.name, "best-filter-m6") {
			ext = append(ext, i)
		}
	}
	solo := map[int]string{}
	cpuSolo0 := procCPU(os.Getpid())
	for _, i := range ext {
		d, err := calls[i].run()
		if err != nil {
			report("solo-call-fails|"+calls[i].name, err.Error())
			return
		}
		solo[i] = d
	}
	// the CPU time one pass over the calls takes in this build (plain or -race) scales the budget below
	expected := (procCPU(os.Getpid()) - cpuSolo0) * time.Duration(6*rounds)
	limit := 120 * time.Second
	if l := expected * 3 / 2; l > limit {
		limit = l
	}
	defer runtime.GOMAXPROCS(runtime.GOMAXPROCS(2))
	rng := rand.New(rand.NewSource(seed))
	var wg sync.WaitGroup
	var mu sync.Mutex
	for g := 0; g < 6; g++ {
		order := rng.Perm(len(ext))
		wg.Add(1)
		go func(order []int) {
			defer wg.Done()
			for r := 0; r < rounds; r++ {
				for _, k := range order {
					ci := ext[k]
					d, err := calls[ci].run()
					if err != nil || d != solo[ci] {
						mu.Lock()
						report("concurrent-result-differs|"+calls[ci].name, fmt.Sprintf("%s wrote a different file (err=%v) while other Encode calls were writing theirs", calls[ci].name, err))
						mu.Unlock()
					}
				}
			}
		}(order)
	}
	done := make(chan struct{})
	cpu0 := procCPU(os.Getpid())
	go func() { wg.Wait(); close(done) }()
	select {
	case <-done:
	case <-time.After(120 * time.Second):
		if v := hangVerdict(done, cpu0, limit); v != "finished" {
			report("deadlock|writer-overlap", "overlapping Encode calls did not return within 120 s ("+v+")")
			return
		}
	}
	eval(fmt.Sprintf("writer-overlap x%d", rounds))
}

// runAfterFailures: calls that fail inside a bitstream are made first (their error paths hand pooled objects back),
// then many goroutines decode and encode at once; every result must equal the solo result.
func runAfterFailures(seed int64, rounds int, report func(key, msg string), eval func(sig string)) {
	calls := buildAPICalls(seed)
	var failing, work []int
	for i, c := range calls {
		switch {
		case strings.HasPrefix(c.name, "Decode(corrupted"):
			failing = append(failing, i)
		case strings.HasPrefix(c.name, "Decode:"), strings.HasPrefix(c.name, "Encode:lossy-33x17"), strings.HasPrefix(c.name, "Encode:lossless-33x17"):
			work = append(work, i)
		}
	}
	solo := map[int]string{}
	for _, i := range work {
		d, err := calls[i].run()
		if err != nil {
			report("solo-call-fails|"+calls[i].name, err.Error())
			return
		}
		solo[i] = d
	}
	rng := rand.New(rand.NewSource(seed))
	for r := 0; r < rounds; r++ {
		for k := 0; k < 3; k++ {
			calls[failing[rng.Intn(len(failing))]].run()
		}
		var wg sync.WaitGroup
		var mu sync.Mutex
		for g := 0; g < 8; g++ {
			order := rng.Perm(len(work))
			wg.Add(1)
			go func(order []int) {
				defer wg.Done()
				defer func() {
					if p := recover(); p != nil {
						mu.Lock()
						report("panic|after-failed-calls", fmt.Sprintf("a call panicked while running concurrently after failed decodes: %v", p))
						mu.Unlock()
					}
				}()
				for _, k := range order[:4] {
					ci := work[k]
					d, err := calls[ci].run()
					if err != nil || d != solo[ci] {
						mu.Lock()
						report("concurrent-result-differs|"+calls[ci].name, fmt.Sprintf("%s returned a different result (err=%v) when run concurrently with other calls right after decodes that failed", calls[ci].name, err))
						mu.Unlock()
					}
				}
			}(order)
		}
		wg.Wait()
	}
	eval(fmt.Sprintf("after-failures x%d", rounds))
}

// runParallelFrames: parallel frame decoding (Animation.DecodeFramesParallel) of animations in which 0..all frames
// carry a damaged bitstream, under several GOMAXPROCS values: the call must return (no deadlock, whatever the number of
// failing frames relative to the number of workers), report an error exactly when a frame fails, and give every
// undamaged frame the image a decode of the intact animation gives it.
func runParallelFrames(seed int64, thorough bool, report func(key, msg string), eval func(sig string)) {
	rng := rand.New(rand.NewSource(seed))
	old := runtime.GOMAXPROCS(0)
	defer runtime.GOMAXPROCS(old)
	for _, nf := range []int{3, 6, 12, 40} {
		if nf == 40 && !thorough {
			nf = 20
		}
		var buf bytes.Buffer
		e := animation.NewEncoder(&buf, 24, 20, &animation.EncodeOptions{Lossless: true, Quality: 50, Kmin: 3, Kmax: 5})
		for i := 0; i < nf; i++ {
			if err := e.AddFrame(noiseNRGBA(rng, 24, 20, i%3), 20*time.Millisecond); err != nil {
				report("parallel-frames|setup", err.Error())
				return
			}
		}
		if err := e.Close(); err != nil {
			report("parallel-frames|setup", err.Error())
			return
		}
		ref, err := animation.DecodeBytes(buf.Bytes())
		if err != nil || ref.DecodeFrames() != nil || len(ref.Frames) != nf {
			report("parallel-frames|setup", fmt.Sprintf("reference decode of a %d-frame animation: %v", nf, err))
			return
		}
		want := make([]string, nf)
		for i := range ref.Frames {
			want[i] = digestImage(ref.Frames[i].Image)
		}
		for _, procs := range []int{1, 2, 4, 16} {
			runtime.GOMAXPROCS(procs)
			workers := procs
			if workers > nf {
				workers = nf
			}
			for _, bad := range []int{0, 1, workers - 1, workers, workers + 1, nf} {
				if bad < 0 || bad > nf {
					continue
				}
				a, err := animation.DecodeBytes(buf.Bytes())
				if err != nil {
					report("parallel-frames|setup", err.Error())
					return
				}
				damaged := map[int]bool{}
				for _, i := range rng.Perm(nf)[:bad] {
					damaged[i] = true
					d := a.Frames[i].BitstreamData
					a.Frames[i].BitstreamData = append([]byte(nil), d[:len(d)/2]...)
				}
				sig := fmt.Sprintf("parallel-frames frames=%d GOMAXPROCS=%d damaged=%d", nf, procs, bad)
				done := make(chan struct{})
				var perr error
				var pan any
				start := procCPU(os.Getpid())
				go func() {
					defer close(done)
					defer func() { pan = recover() }()
					perr = a.DecodeFramesParallel()
				}()
				eval(sig)
				if v := hangVerdict(done, start, 20*time.Second); v != "finished" {
					report("deadlock|parallel-frame-decoding", fmt.Sprintf("%s: DecodeFramesParallel does not return (%s)", sig, v))
					return // the blocked goroutines stay behind: stop this stage
				}
				if pan != nil {
					report("panic|parallel-frame-decoding", fmt.Sprintf("%s: %v", sig, pan))
					continue
				}
				if (perr != nil) != (bad > 0) {
					report("result|parallel-frame-decoding", fmt.Sprintf("%s: DecodeFramesParallel returns %v", sig, perr))
				}
				for i := range a.Frames {
					if damaged[i] {
						continue
					}
					if a.Frames[i].Image == nil || digestImage(a.Frames[i].Image) != want[i] {
						report("result|parallel-frame-decoding", fmt.Sprintf("%s: undamaged frame %d does not get the image of the intact animation", sig, i))
						break
					}
				}
			}
		}
	}
}

// runConcurrentPrograms runs k goroutines x sequences of calls and compares every result with the solo result.
func runConcurrentPrograms(seed int64, rounds, k, seqLen int, report func(key, msg string), eval func(sig string)) {
	calls := buildAPICalls(seed)
	solo := make([]string, len(calls))
	for i, c := range calls {
		d, err := c.run()
		if err != nil {
			report("solo-call-fails|"+c.name, err.Error())
			return
		}
		solo[i] = d
	}
	rng := rand.New(rand.NewSource(seed))
	for r := 0; r < rounds; r++ {
		progs := make([][]int, k)
		for g := range progs {
			for j := 0; j < seqLen; j++ {
				progs[g] = append(progs[g], rng.Intn(len(calls)))
			}
		}
		var wg sync.WaitGroup
		var mu sync.Mutex
		for g := range progs {
			wg.Add(1)
			go func(p []int) {
				defer wg.Done()
				for _, ci := range p {
					d, err := calls[ci].run()
					if err != nil || d != solo[ci] {
						mu.Lock()
						report("concurrent-result-differs|"+calls[ci].name, fmt.Sprintf("%s returned a different result (err=%v) when run concurrently with other calls", calls[ci].name, err))
						mu.Unlock()
					}
				}
			}(progs[g])
		}
		done := make(chan struct{})
		cpu0 := procCPU(os.Getpid())
		go func() { wg.Wait(); close(done) }()
		select {
		case <-done:
		case <-time.After(120 * time.Second):
			if v := hangVerdict(done, cpu0, 120*time.Second); v != "finished" {
				report("deadlock|concurrent-programs", "concurrent public API calls did not return within 120 s ("+v+")")
				return
			}
		}
		names := []string{}
		for _, p := range progs {
			for _, ci := range p {
				names = append(names, calls[ci].name)
			}
		}
		eval(strings.Join(names, ","))
	}
}

// c10RaceChild is run from a binary built with -race: it executes the concurrent programs and parallel encodes.
func c10RaceChild(args []string) {
	seed := int64(1)
	fmt.Sscan(os.Getenv("VERIF_SEED"), &seed)
	runtime.GOMAXPROCS(8)
	bad := 0
	rounds := 6
	if os.Getenv("VERIF_TIER") == "thorough" {
		rounds = 40
	}
	runConcurrentPrograms(seed, rounds, 4, 3, func(key, msg string) { fmt.Printf("CHILD-VIOLATION %s: %s\n", key, msg); bad++ }, func(string) {})
	runWriterOverlap(seed, rounds, func(key, msg string) { fmt.Printf("CHILD-VIOLATION %s: %s\n", key, msg); bad++ }, func(string) {})
	runAfterFailures(seed, 2*rounds, func(key, msg string) { fmt.Printf("CHILD-VIOLATION %s: %s\n", key, msg); bad++ }, func(string) {})
	runtime.GOMAXPROCS(8)
	verifhook.Start(seed+1, map[string]int{"pool_put": 70, "*": 3})
	runConcurrentPrograms(seed+1, rounds, 6, 3, func(key, msg string) { fmt.Printf("CHILD-VIOLATION %s: %s\n", key, msg); bad++ }, func(string) {})
	verifhook.Stop()
	fmt.Printf("CHILD-DONE bad=%d\n", bad)
	if bad > 0 {
		os.Exit(3)
	}
}

func checkC10(args []string) {
	run := vx.NewRun("C10", "model_checking", args)
	activeRun = run
	run.Rule = "(1) TLC explores every interleaving of the row-pipeline protocol model (spec/RowSync.tla: claim, waitFor fast/slow path, cond.Wait, signal store/check/lock/broadcast, context read/export, token recorder) for the bounded grid: safety invariants, deadlock freedom and termination under weak fairness; (2) real parallel encodes run with hooks under seeded perturbation profiles, each event log is trace-validated by spec/TVRowSync.tla and the bytes must equal the unperturbed run; hangs are deadlocks; (3) seeded concurrent programs of public API calls sharing the pools, each result compared with its solo result, also executed in a -race build. distinct = distinct (picture size, profile, seed) traces + distinct concurrent programs"
	run.Assumptions = []string{"hook sequence numbers come from one global atomic counter, so the recorded order respects the library's own synchronisation", "schedules are those produced by the Go runtime plus delay injection at hook points", "GOMAXPROCS is fixed to 8 during the runs (the dependence on GOMAXPROCS itself is C12)"}
	old := runtime.GOMAXPROCS(8)
	defer runtime.GOMAXPROCS(old)

	cfg := "MC_RowSync_quick.cfg"
	if run.Thorough() {
		cfg = "MC_RowSync.cfg"
	}
	mc := vx.MustTLC(vx.TLCOpts{Module: "RowSync", Cfg: cfg, Workers: 12, Deadlock: true, Timeout: 60 * time.Minute, Heap: "16g"})
	run.AddTLC(mc)
	if mc.InvViolated != "" || mc.Deadlocked {
		run.Note("model counterexample in RowSync (%s, deadlock=%v): information only", mc.InvViolated, mc.Deadlocked)
	}

	if run.Thorough() {
		rowSyncCoreProof(run)
	}

	rng := rand.New(rand.NewSource(run.Seed))
	sizes := [][2]int{{96, 128}, {48, 64}, {160, 80}, {33, 100}}
	if run.Thorough() {
		sizes = append(sizes, [2]int{256, 192}, [2]int{17, 200}, [2]int{400, 64})
	}
	var traces []rowTrace
	info := map[string]string{}
	seedsPer := run.Pick(3, 12)
	for _, sz := range sizes {
		img := noiseNRGBA(rng, sz[0], sz[1], 0)
		for _, method := range []int{4, 3} {
			oo := withDefaults(webp.EncoderOptions{Quality: 60, Method: method})
			o := &oo
			var base []byte
			for pi, pf := range c10Profiles {
				for s := 0; s < seedsPer; s++ {
					if pf.prof == nil && s > 0 {
						continue
					}
					seed := run.Seed*1000 + int64(pi*100+s)
					out, ev, hung, err := encodeTraced(img, o, seed, pf.prof, 60*time.Second)
					id := fmt.Sprintf("%dx%d-m%d-%s-%d", sz[0], sz[1], method, pf.name, s)
					if hung {
						run.Violate("deadlock|row-pipeline|"+pf.name, id+": parallel Encode did not return within 60 s (deadlock or lost wake-up); last events: "+lastEvents(ev, 12), id)
						run.Finish() // goroutines are stuck; nothing more can be trusted in this process
					}
					if err != nil {
						run.Violate("encode-error", id+": "+err.Error(), id)
						continue
					}
					run.Eval(id)
					if base == nil {
						base = out
					} else if !bytes.Equal(base, out) {
						run.Violate("bytes-depend-on-schedule|row-pipeline", id+": output differs from the unperturbed run of the same call", id)
					}
					if len(ev) == 0 {
						vx.Fatal2("%s: no hook events were recorded (parallel path not taken or hooks off)", id)
					}
					traces = append(traces, rowTrace{ID: id, W: (sz[0] + 15) / 16, H: (sz[1] + 15) / 16, Ev: ev})
					info[id] = pf.name
				}
			}
		}
	}
	res := vx.MustTLC(vx.TLCOpts{Module: "TVRowSync", Cfg: "TVRowSync.cfg", Workers: 1, Timeout: 30 * time.Minute, Heap: "8g",
		Files: map[string][]byte{"trace.ndjson": vx.NDJSON(traces)}})
	run.AddTLC(res)
	for _, b := range vx.Verdict(res, len(traces), "TVRowSync") {
		if strings.HasPrefix(b.Why, "SPEC-DRIFT") {
			fmt.Printf("SPEC-DRIFT: %s %s\n", b.ID, b.Why)
			run.Note("SPEC-DRIFT %s: %s", b.ID, b.Why)
			continue
		}
		run.Violate("protocol|"+strings.SplitN(b.Why, "): ", 2)[len(strings.SplitN(b.Why, "): ", 2))-1], b.ID+": "+b.Why, b.ID)
	}
	run.AddTraces(len(traces))
	if len(traces) > 0 {
		t := traces[len(traces)/2]
		n := len(t.Ev)
		if n > 14 {
			n = 14
		}
		run.Sample(map[string]any{"trace": t.ID, "events": len(t.Ev), "first_events": t.Ev[:n]})
	}

	// concurrent programs in this process (under random perturbation of the lossy pipeline)
	verifhook.Start(run.Seed, map[string]int{"*": 10})
	runConcurrentPrograms(run.Seed, run.Pick(6, 40), 4, 3,
		func(key, msg string) { run.Violate(key, msg, key) }, func(sig string) { run.Eval("prog:" + sig) })
	verifhook.Stop()
	runWriterOverlap(run.Seed, run.Pick(4, 30), func(key, msg string) { run.Violate(key, msg, key) }, func(sig string) { run.Eval("prog:" + sig) })
	runAfterFailures(run.Seed, run.Pick(12, 80), func(key, msg string) { run.Violate(key, msg, key) }, func(sig string) { run.Eval("prog:" + sig) })
	runParallelFrames(run.Seed, run.Thorough(), func(key, msg string) { run.Violate(key, msg, key) }, func(sig string) { run.Eval(sig) })
	// the same alphabet with the caller delayed right after every pool Put (hook PoolPut): an object that is still
	// used after its release is now in other goroutines' hands while that use goes on
	verifhook.Start(run.Seed+1, map[string]int{"pool_put": 70, "*": 3})
	runConcurrentPrograms(run.Seed+1, run.Pick(6, 40), 6, 3,
		func(key, msg string) { run.Violate(key, msg+" (callers delayed after pool Put)", key) }, func(sig string) { run.Eval("prog-put:" + sig) })
	verifhook.Stop()

	// cold start: fresh processes whose first library calls are concurrent (plain build, and once in the -race build)
	{
		bins := []string{os.Args[0]}
		nCold := run.Pick(8, 60)
		if rb := os.Getenv("VCHECK_RACE_BIN"); rb != "" {
			bins = append(bins, rb)
		}
		for bi, bin := range bins {
			n := nCold
			if bi == 1 {
				n = run.Pick(2, 10)
			}
			for k := 0; k < n; k++ {
				cmd := exec.Command(bin, "C10-cold-child", fmt.Sprint(run.Seed*100+int64(k)))
				cmd.Env = append(os.Environ(), "GORACE=halt_on_error=1 exitcode=66")
				out, err := cmd.CombinedOutput()
				so := string(out)
				run.Eval(fmt.Sprintf("cold-start|%d|%d", bi, k))
				switch {
				case strings.Contains(so, "WARNING: DATA RACE"):
					i := strings.Index(so, "WARNING: DATA RACE")
					rep := so[i:]
					if len(rep) > 1500 {
						rep = rep[:1500]
					}
					run.Violate("data-race|first-use", "race detector report while the first library calls of a fresh process run concurrently:\n"+rep, "C10-cold-child")
				case strings.Contains(so, "COLD-VIOLATION"):
					for _, ln := range strings.Split(so, "\n") {
						if strings.HasPrefix(ln, "COLD-VIOLATION ") {
							run.Violate(strings.SplitN(strings.TrimPrefix(ln, "COLD-VIOLATION "), ":", 2)[0], ln, "C10-cold-child")
						}
					}
				case err != nil || !strings.Contains(so, "COLD-DONE"):
					vx.Fatal2("cold-start child failed: %v\n%s", err, tailStr(so, 1200))
				}
			}
		}
		run.Cov["cold_start_processes"] = nCold
	}
	// the same programs in a -race build
	if bin := os.Getenv("VCHECK_RACE_BIN"); bin != "" {
		cmd := exec.Command(bin, "C10-race-child")
		cmd.Env = append(os.Environ(), "GORACE=halt_on_error=1 exitcode=66")
		out, err := cmd.CombinedOutput()
		s := string(out)
		switch {
		case strings.Contains(s, "WARNING: DATA RACE"):
			i := strings.Index(s, "WARNING: DATA RACE")
			rep := s[i:]
			if len(rep) > 1800 {
				rep = rep[:1800]
			}
			site := "unknown"
			for _, ln := range strings.Split(rep, "\n") {
				if strings.Contains(ln, "github.com/deepteams/webp") && strings.Contains(ln, "(") {
					site = strings.TrimSpace(strings.SplitN(ln, "(", 2)[0])
					break
				}
			}
			run.Violate("data-race|"+site, "race detector report while running concurrent public API calls:\n"+rep, "C10-race-child seed "+fmt.Sprint(run.Seed))
		case strings.Contains(s, "CHILD-VIOLATION"):
			for _, ln := range strings.Split(s, "\n") {
				if strings.HasPrefix(ln, "CHILD-VIOLATION ") {
					run.Violate(strings.SplitN(strings.TrimPrefix(ln, "CHILD-VIOLATION "), ":", 2)[0], ln, "race child")
				}
			}
		case err != nil || !strings.Contains(s, "CHILD-DONE"):
			vx.Fatal2("race child failed: %v\n%s", err, tailStr(s, 1500))
		}
		run.Cov["race_build_run"] = true
	} else {
		run.Cov["race_build_run"] = false
		run.Note("VCHECK_RACE_BIN not set: the -race execution was skipped")
	}
	run.Cov["row_pipeline_traces"] = len(traces)
	run.Cov["pool_hits"] = verifhook.PoolHits()
	run.Finish()
}

func lastEvents(ev []verifhook.Event, n int) string {
	if len(ev) > n {
		ev = ev[len(ev)-n:]
	}
	s := ""
	for _, e := range ev {
		s += fmt.Sprintf("%s(y=%d,a=%d) ", e.K, e.Y, e.A)
	}
	return s
}

// rowSyncCoreProof runs the design-level checks of spec/RowSyncCore.tla (the wait/signal core of one row, cut out of
// RowSync with the same action labels): TLC on small constants (the inductive invariant holds in every reachable state,
// every wait returns), TLC on the variant without the Lock/Unlock pair in signal() (a lost wake-up must be reachable:
// non-vacuity), and Apalache for every row width: Init => IndInv, IndInv /\ Next => IndInv', IndInv => Quiet, and
// the failure of the inductive step without the lock. Model-level results are information (evidence notes), the
// verdict of C10 comes from the real runs below.
func rowSyncCoreProof(run *vx.Run) {
	core := map[string]any{}
	mc, err := vx.RunTLC(vx.TLCOpts{Module: "MC_RowSyncCore", Cfg: "MC_RowSyncCore.cfg", Workers: 12, Timeout: 30 * time.Minute, Heap: "8g"})
	if err != nil {
		run.Note("RowSyncCore: TLC did not run: %v", err)
	} else {
		run.AddTLC(mc)
		core["tlc_width3_distinct_states"] = mc.Distinct
		core["tlc_width3_ok"] = mc.OK()
		if !mc.OK() {
			run.Note("model counterexample in RowSyncCore (%s %s): information only", mc.InvViolated, mc.ErrText)
		}
	}
	nl, err := vx.RunTLC(vx.TLCOpts{Module: "MC_RowSyncCore", Cfg: "MC_RowSyncCore_nolock.cfg", Workers: 12, Timeout: 30 * time.Minute, Heap: "8g"})
	if err == nil {
		core["tlc_nolock_violates"] = nl.InvViolated
		if nl.InvViolated != "NoLostWakeup" {
			run.Note("RowSyncCore without the signal lock: expected a NoLostWakeup counterexample, got %q (the model has lost its discriminating power)", nl.InvViolated)
		}
	}
	apa := func(name string, wantOK bool, args ...string) {
		dir, err := os.MkdirTemp("", "vx-apalache-")
		if err != nil {
			return
		}
		defer os.RemoveAll(dir)
		src, err := os.ReadFile(vx.SpecDir + "/RowSyncCore.tla")
		if err != nil || os.WriteFile(dir+"/RowSyncCore.tla", src, 0o644) != nil {
			return
		}
		a := append([]string{"600", "apalache-mc", "check", "--out-dir=" + dir + "/out"}, args...)
		cmd := exec.Command("timeout", append(a, "RowSyncCore.tla")...)
		cmd.Dir = dir
		out, _ := cmd.CombinedOutput()
		s := string(out)
		switch {
		case strings.Contains(s, "EXITCODE: OK"):
			core["apalache_"+name] = "no error"
			if !wantOK {
				run.Note("RowSyncCore/Apalache %s: expected a counterexample, found none", name)
			}
		case strings.Contains(s, "EXITCODE: ERROR (12)"):
			core["apalache_"+name] = "counterexample"
			if wantOK {
				run.Note("RowSyncCore/Apalache %s: counterexample (information only)", name)
			}
		default:
			core["apalache_"+name] = "not run"
			run.Note("RowSyncCore/Apalache %s did not complete", name)
		}
	}
	apa("init_implies_indinv", true, "--cinit=ConstInit", "--init=Init", "--inv=IndInv", "--length=0")
	apa("indinv_inductive_any_width", true, "--cinit=ConstInit", "--init=IndInit", "--inv=IndInv", "--length=1")
	apa("indinv_implies_quiet", true, "--cinit=ConstInit", "--init=IndInit", "--inv=Quiet", "--length=0")
	apa("nolock_not_inductive", false, "--cinit=ConstInitNoLock", "--init=IndInit", "--inv=IndInv", "--length=1")
	run.Cov["rowsync_core"] = core
}
