package main

import (
	"bytes"
	"fmt"
	"image"
	"image/color"
	"image/draw"
	"math/rand"
	"strings"
	"time"

	"github.com/deepteams/webp"
	"github.com/deepteams/webp/animation"
	"github.com/deepteams/webp/mux"
	"github.com/deepteams/webp/verifx/vx"
)

func init() { register("C15", checkC15) }

// blob classes of the C15 quantifier
func metaBlob(rng *rand.Rand, class int) []byte {
	switch class {
	case 0:
		return nil
	case 1:
		return []byte{}
	case 2:
		return []byte{0x5a}
	case 3:
		return []byte{1, 2}
	case 4: // odd, looks like a chunk
		return append([]byte("VP8 \x05\x00\x00\x00ab"), byte(rng.Intn(256)))
	case 5: // even, looks like a file
		return []byte("RIFF\x04\x00\x00\x00WEBPVP8X")
	case 6: // odd, random
		b := make([]byte, 301)
		rng.Read(b)
		return b
	case 7: // even, random, larger
		b := make([]byte, 4096)
		rng.Read(b)
		return b
	case 8:
		b := make([]byte, 65536+1)
		rng.Read(b)
		return b
	}
	return nil
}

type c15Case struct {
	kind           string // lossy | lossy+alpha | lossless | lossless+alpha | anim1 | anim2
	icc, exif, xmp int
}

func (c c15Case) String() string {
	return fmt.Sprintf("%s/icc%d/exif%d/xmp%d", c.kind, c.icc, c.exif, c.xmp)
}

func c15Encode(c c15Case, img1, img2 *image.NRGBA, icc, exif, xmp []byte) ([]byte, error) {
	var buf bytes.Buffer
	kind, typ, _ := strings.Cut(c.kind, "/")
	kind, variant, _ := strings.Cut(kind, "@")
	// option variants: the rarely used options under which an encode could start to look at the metadata
	lossyO := webp.EncoderOptions{Quality: 60, Method: 3}
	losslessO := webp.EncoderOptions{Lossless: true, Quality: 60, Method: 3}
	switch variant {
	case "targetsize":
		lossyO.TargetSize, lossyO.Pass = 250, 6
	case "targetpsnr":
		lossyO.TargetPSNR, lossyO.Pass = 36, 4
	case "sharp-m6":
		lossyO.UseSharpYUV, lossyO.Method, lossyO.Segments, lossyO.Partitions = true, 6, 2, 2
	case "aq50":
		lossyO.AlphaQuality, lossyO.AlphaFiltering, lossyO.Exact = 50, 2, true
	case "q100m6":
		losslessO.Quality, losslessO.Method, losslessO.Exact = 100, 6, true
	case "q10m0":
		losslessO.Quality, losslessO.Method = 10, 0
	}
	var src image.Image = img1
	switch typ {
	case "rgba": // premultiplied storage: exercises the un-premultiply code of every encode path
		r := image.NewRGBA(img1.Rect)
		draw.Draw(r, r.Rect, img1, image.Point{}, draw.Src)
		src = r
	case "gray":
		g := image.NewGray(img1.Rect)
		draw.Draw(g, g.Rect, img1, image.Point{}, draw.Src)
		src = g
	case "generic":
		src = genericImage{img1}
	}
	switch kind {
	case "lossy", "lossy+alpha":
		lossyO.ICC, lossyO.EXIF, lossyO.XMP = icc, exif, xmp
		err := webp.Encode(&buf, src, &lossyO)
		return buf.Bytes(), err
	case "lossless", "lossless+alpha":
		losslessO.ICC, losslessO.EXIF, losslessO.XMP = icc, exif, xmp
		err := webp.Encode(&buf, src, &losslessO)
		return buf.Bytes(), err
	case "anim1", "anim2", "anim2lossy", "anim1lossy":
		e := animation.NewEncoder(&buf, img1.Rect.Dx(), img1.Rect.Dy(), &animation.EncodeOptions{Quality: 60, Lossless: c.kind != "anim2lossy" && c.kind != "anim1lossy", LoopCount: 2})
		e.SetICCProfile(icc)
		e.SetEXIF(exif)
		e.SetXMP(xmp)
		if err := e.AddFrame(img1, 40*time.Millisecond); err != nil {
			return nil, err
		}
		if c.kind != "anim1" && c.kind != "anim1lossy" {
			if err := e.AddFrame(img2, 60*time.Millisecond); err != nil {
				return nil, err
			}
		}
		err := e.Close()
		return buf.Bytes(), err
	}
	return nil, fmt.Errorf("unknown kind")
}

// imagePayloads returns the image-carrying chunk payloads of a file (top-level and inside ANMF), via the driver's
// own minimal walker (stimulus building only; the comparison itself is made by TVFiles).
func checkC15(args []string) {
	run := vx.NewRun("C15", "translation_validation", args)
	activeRun = run
	run.Rule = "product of output kind x metadata subset x blob class (all subsets with one class each; pairwise class mixes seeded); every written file is read by the strict TLA+ container reader: blobs byte-equal, VP8X flags = exactly the chunks present, image chunks byte-identical to the same encode without metadata; distinct = distinct (kind, classes) cases with at least one blob"
	run.Assumptions = []string{"an empty (zero-length) blob may be stored as an empty chunk or omitted", "spec/Riff.tla is the reference reader"}
	rng := rand.New(rand.NewSource(run.Seed))
	kinds := []string{"lossy", "lossy+alpha", "lossless", "lossless+alpha", "lossless+alpha/rgba", "lossy+alpha/rgba", "lossless/gray", "lossless+alpha/generic", "anim1", "anim2", "anim2lossy", "anim1lossy",
		"lossy@targetsize", "lossy+alpha@targetsize", "lossy@targetpsnr", "lossy@sharp-m6", "lossy+alpha@aq50", "lossless@q100m6", "lossless+alpha@q10m0"}
	var cases []c15Case
	classes := []int{2, 3, 4, 5, 6}
	if run.Thorough() {
		classes = []int{1, 2, 3, 4, 5, 6, 7, 8}
	}
	for _, k := range kinds {
		// every subset, one class per blob (rotating), plus the empty blob
		for sub := 1; sub < 8; sub++ {
			for ci, cl := range classes {
				c := c15Case{kind: k}
				if sub&1 != 0 {
					c.icc = cl
				}
				if sub&2 != 0 {
					c.exif = classes[(ci+1)%len(classes)]
				}
				if sub&4 != 0 {
					c.xmp = classes[(ci+2)%len(classes)]
				}
				cases = append(cases, c)
			}
		}
		cases = append(cases, c15Case{kind: k, icc: 1}, c15Case{kind: k, exif: 1, xmp: 2}, c15Case{kind: k, icc: 7}, c15Case{kind: k, xmp: 7, exif: 6})
		// an empty (zero-length, non-nil) blob as the LAST chunk of the file, alone and after other metadata
		cases = append(cases, c15Case{kind: k, xmp: 1}, c15Case{kind: k, exif: 1}, c15Case{kind: k, icc: 3, xmp: 1}, c15Case{kind: k, icc: 2, exif: 1})
		for i := 0; i < run.Pick(4, 40); i++ {
			cases = append(cases, c15Case{kind: k, icc: rng.Intn(8), exif: rng.Intn(8), xmp: rng.Intn(8)})
		}
	}
	if run.Thorough() {
		cases = append(cases, c15Case{kind: "lossy", icc: 8}, c15Case{kind: "lossless", exif: 8}, c15Case{kind: "anim2", xmp: 8})
	}

	var files []vx.FileCase
	info := map[string]c15Case{}
	base := map[string][]byte{} // kind -> file without metadata
	imgs := map[string][2]*image.NRGBA{}
	for _, k := range kinds {
		am := 0
		if strings.Contains(k, "+alpha") || k == "anim2" || k == "anim2lossy" || k == "anim1lossy" {
			am = 2
		}
		w, h := 9+rng.Intn(8), 7+rng.Intn(8)
		a, b := noiseNRGBA(rng, w, h, am), noiseNRGBA(rng, w, h, am)
		imgs[k] = [2]*image.NRGBA{a, b}
		f, err := c15Encode(c15Case{kind: k}, a, b, nil, nil, nil)
		if err != nil {
			vx.Fatal2("baseline encode %s: %v", k, err)
		}
		base[k] = f
	}
	for i, c := range cases {
		icc, exif, xmp := metaBlob(rng, c.icc), metaBlob(rng, c.exif), metaBlob(rng, c.xmp)
		im := imgs[c.kind]
		// every other case hands the blobs over as consecutive windows of ONE caller buffer (each window's capacity
		// reaches into the next blob, as slicing gives it): what is stored must be the blob, and the buffer stays as it was
		pi, pe, px := icc, exif, xmp
		var shared, sharedBefore []byte
		if i%2 == 1 {
			shared = append(append(append(append([]byte{}, icc...), exif...), xmp...), 0xEE, 0xEF, 0xF0, 0xF1)
			sharedBefore = append([]byte(nil), shared...)
			window := func(b []byte, off int) []byte {
				if b == nil {
					return nil
				}
				return shared[off : off+len(b)]
			}
			pi, pe, px = window(icc, 0), window(exif, len(icc)), window(xmp, len(icc)+len(exif))
		}
		out, err := c15Encode(c, im[0], im[1], pi, pe, px)
		if shared != nil && !bytes.Equal(shared, sharedBefore) {
			run.Violate("caller-buffer-modified|"+c.kind, fmt.Sprintf("%v: the caller's buffer holding the three blobs was modified by the encode", c), c.String())
		}
		if err != nil {
			run.Violate("encode-error|"+c.kind, fmt.Sprintf("%v: encode with metadata failed: %v", c, err), c.String())
			continue
		}
		sig := ""
		if c.icc+c.exif+c.xmp > 0 {
			sig = c.String()
		}
		run.Eval(sig)
		id := fmt.Sprintf("c%d", i)
		info[id] = c
		e := vx.NewExpect("input")
		e.W, e.H = im[0].Rect.Dx(), im[0].Rect.Dy()
		blobExp := func(b []byte, class int) []int {
			if class == 0 {
				return vx.Absent
			}
			if len(b) == 0 {
				return vx.SkipB
			}
			return vx.Ints(b)
		}
		e.ICC, e.EXIF, e.XMP = blobExp(icc, c.icc), blobExp(exif, c.exif), blobExp(xmp, c.xmp)
		// image chunks must be those of the metadata-free encode
		bd, err := mux.NewDemuxer(base[c.kind])
		if err != nil {
			vx.Fatal2("baseline demux: %v", err)
		}
		nontrivialMeta := len(icc)+len(exif)+len(xmp) > 0
		if (c.kind == "anim1" || c.kind == "anim1lossy") && nontrivialMeta {
			// a single picture may be stored as a still or as a 1-frame animation; the bitstream is then not comparable
			// with the baseline (which is a still). Only metadata, flags and size are compared.
			e.NFrames = 1
		} else {
			e.NFrames = bd.NumFrames()
			for j := 0; j < bd.NumFrames(); j++ {
				fi, _ := bd.Frame(j)
				fe := vx.NewFrameExp()
				fe.Img = vx.Ints(fi.Data)
				fe.Alph = vx.MetaInts(fi.AlphaData, fi.AlphaData != nil)
				e.Frames = append(e.Frames, fe)
			}
		}
		fc := vx.FileCase{ID: id, Must: "accept", Bytes: vx.Ints(out), X: []vx.Expect{e}}
		// what the package's own readers return for the blobs (GetChunk by id; animation.DecodeBytes fields)
		if dv, derr := demuxView(out); derr != nil {
			run.Violate("demux-error|"+c.kind, fmt.Sprintf("%v: NewDemuxer fails on encoder output: %v", c, derr), c.String())
		} else {
			dv.Frames = nil
			dv.Frames = []vx.FrameExp{}
			dv.NFrames = -1
			fc.X = append(fc.X, dv)
		}
		if an, aerr := animation.DecodeBytes(out); aerr != nil {
			run.Violate("animation-read-error|"+c.kind, fmt.Sprintf("%v: animation.DecodeBytes fails: %v", c, aerr), c.String())
		} else {
			av := vx.NewExpect("animation.DecodeBytes")
			av.ICC, av.EXIF, av.XMP = vx.MetaInts(an.ICC, an.ICC != nil), vx.MetaInts(an.EXIF, an.EXIF != nil), vx.MetaInts(an.XMP, an.XMP != nil)
			fc.X = append(fc.X, av)
		}
		files = append(files, fc)
		// animations: what a player shows must not depend on the metadata either (a one-picture animation may be stored
		// as a still or as a one-frame animation, but it is the same picture)
		if c.kind[:4] == "anim" {
			pa, err1 := playbackDigests(out)
			pb, err2 := playbackDigests(base[c.kind])
			if err1 != nil || err2 != nil {
				run.Violate("decode-error|"+c.kind, fmt.Sprintf("%v: playback failed: %v %v", c, err1, err2), c.String())
			} else if pa != pb {
				run.Violate("pixels-changed|"+c.kind, fmt.Sprintf("%v: the pictures played back differ from those of the encode without metadata", c), c.String())
			}
		}
		// decoded pixels identical to the metadata-free encode (stills)
		if c.kind[:4] != "anim" {
			a, err1 := guardedDecode(out)
			b, err2 := webp.Decode(bytes.NewReader(base[c.kind]))
			if err1 != nil || err2 != nil {
				run.Violate("decode-error|"+c.kind, fmt.Sprintf("%v: decode failed: %v %v", c, err1, err2), c.String())
			} else if !sameImage(a, b) {
				run.Violate("pixels-changed|"+c.kind, fmt.Sprintf("%v: decoded pixels differ from the encode without metadata", c), c.String())
			}
		}
		if i%37 == 0 {
			run.Sample(map[string]any{"case": c.String(), "file_bytes": len(out), "icc": len(icc), "exif": len(exif), "xmp": len(xmp)})
		}
	}
	bad := vx.ValidateFiles(run, files)
	for id, why := range bad {
		c := info[id]
		key := "container|" + c.kind + "|" + why
		run.Violate(key, fmt.Sprintf("%v: %s", c, why), c.String())
	}
	// blobs at the 100 MB cap (too large for TLC to read: plain comparisons). Whatever blob Encode / the animation
	// encoder accepts must come back byte for byte through GetChunk, and the file must still decode to the pixels of
	// the metadata-free file.
	{
		const capBytes = 100 * 1024 * 1024
		type capCase struct {
			kind  string
			which int // 0 ICC, 1 EXIF, 2 XMP
			size  int
		}
		capCases := []capCase{{"lossy", 0, capBytes}}
		if run.Thorough() {
			capCases = append(capCases, capCase{"lossless+alpha", 1, capBytes - 1}, capCase{"anim2", 2, capBytes}, capCase{"lossy+alpha", 0, capBytes - 7}, capCase{"anim2", 0, capBytes - 8})
		}
		big := make([]byte, capBytes)
		rng.Read(big[:1<<20])
		for i := 1 << 20; i < len(big); i += 1 << 20 {
			copy(big[i:], big[:1<<20])
			big[i] = byte(i >> 20)
		}
		for _, cc := range capCases {
			blob := big[:cc.size]
			var bl [3][]byte
			bl[cc.which] = blob
			c := c15Case{kind: cc.kind}
			name := fmt.Sprintf("%s with a %d-byte %s blob (the cap is %d)", cc.kind, cc.size, []string{"ICC", "EXIF", "XMP"}[cc.which], capBytes)
			im := imgs[cc.kind]
			out, err := c15Encode(c, im[0], im[1], bl[0], bl[1], bl[2])
			run.Eval("cap:" + name)
			if err != nil {
				run.Note("%s: the encoder refuses the blob (an error, not a violation): %v", name, err)
				continue
			}
			d, derr := mux.NewDemuxer(out)
			if derr != nil {
				run.Violate("cap|demuxer rejects", fmt.Sprintf("%s: mux.NewDemuxer fails on the written file: %v", name, derr), name)
				continue
			}
			got, gerr := d.GetChunk([]mux.ChunkID{mux.FourCCICCP, mux.FourCCEXIF, mux.FourCCXMP}[cc.which])
			if gerr != nil || !bytes.Equal(got, blob) {
				run.Violate("cap|blob not byte-exact", fmt.Sprintf("%s: GetChunk returns %d bytes, err=%v", name, len(got), gerr), name)
			}
			pa, err1 := playbackDigests(out)
			pb, err2 := playbackDigests(base[cc.kind])
			if err1 != nil || err2 != nil || pa != pb {
				run.Violate("cap|picture changed or undecodable", fmt.Sprintf("%s: the file with the blob plays as %q (err=%v), the metadata-free file as %q (err=%v)", name, pa, err1, pb, err2), name)
			}
			if _, ferr := webp.GetFeatures(bytes.NewReader(out)); ferr != nil {
				run.Violate("cap|GetFeatures fails", fmt.Sprintf("%s: %v", name, ferr), name)
			}
		}
	}
	run.Finish()
}

// playbackDigests plays a file (still or animation) and returns the digests of the canvases shown.
func playbackDigests(file []byte) (string, error) {
	a, err := animation.DecodeBytes(file)
	if err != nil {
		return "", err
	}
	if err := a.DecodeFrames(); err != nil {
		return "", err
	}
	d, err := animation.NewAnimDecoder(a)
	if err != nil {
		return "", err
	}
	s := ""
	for d.HasNext() {
		fr, _, err := d.NextFrame()
		if err != nil {
			return "", err
		}
		s += fmt.Sprintf("%x:", hashNRGBA(fr))
	}
	return s, nil
}

func sameImage(a, b image.Image) bool {
	if a.Bounds() != b.Bounds() {
		return false
	}
	r := a.Bounds()
	for y := r.Min.Y; y < r.Max.Y; y++ {
		for x := r.Min.X; x < r.Max.X; x++ {
			r1, g1, b1, a1 := a.At(x, y).RGBA()
			r2, g2, b2, a2 := b.At(x, y).RGBA()
			if r1 != r2 || g1 != g2 || b1 != b2 || a1 != a2 {
				return false
			}
		}
	}
	return true
}

// genericImage hides the concrete type so that Encode must take its generic At() path.
type genericImage struct{ im *image.NRGBA }

func (g genericImage) ColorModel() color.Model { return color.NRGBAModel }
func (g genericImage) Bounds() image.Rectangle { return g.im.Bounds() }
func (g genericImage) At(x, y int) color.Color { return g.im.NRGBAAt(x, y) }
