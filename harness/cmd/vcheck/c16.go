package main

import (
	"bytes"
	"encoding/binary"
	"encoding/json"
	"fmt"
	"image"
	"image/color"
	"math/rand"
	"sort"
	"strings"
	"time"

	"github.com/deepteams/webp"
	"github.com/deepteams/webp/animation"
	"github.com/deepteams/webp/mux"
	"github.com/deepteams/webp/verifx/vx"
)

func init() { register("C16", checkC16) }

type genChunk struct {
	Tag string `json:"tag"`
	Tok string `json:"tok"`
}

type riffGenCase struct {
	Base       string     `json:"base"`
	Irr        []string   `json:"irr"`
	Chunks     []genChunk `json:"chunks"`
	Flags      int        `json:"flags"`
	Trailing   bool       `json:"trailing"`
	Anim       bool       `json:"anim"`
	NFrames    int        `json:"nframes"`
	Loop       int        `json:"loop"`
	Alpha      bool       `json:"alpha"`
	WellFormed bool       `json:"wellformed"`
}

func (c riffGenCase) name() string {
	s := append([]string(nil), c.Irr...)
	sort.Strings(s)
	return c.Base + "{" + strings.Join(s, ",") + "}"
}

// riffTokens are the real payloads bound to the tokens of spec/RiffGen.tla.
type riffTokens struct {
	w, h int
	pay  map[string][]byte
}

func chunkBytes(tag string, payload []byte) []byte {
	var b bytes.Buffer
	b.WriteString(tag)
	binary.Write(&b, binary.LittleEndian, uint32(len(payload)))
	b.Write(payload)
	if len(payload)%2 == 1 {
		b.WriteByte(0)
	}
	return b.Bytes()
}

func le24(v int) []byte { return []byte{byte(v), byte(v >> 8), byte(v >> 16)} }

func anmfPayload(x, y, w, h, dur int, flags byte, sub ...[]byte) []byte {
	var b bytes.Buffer
	b.Write(le24(x / 2))
	b.Write(le24(y / 2))
	b.Write(le24(w - 1))
	b.Write(le24(h - 1))
	b.Write(le24(dur))
	b.WriteByte(flags)
	for _, s := range sub {
		b.Write(s)
	}
	return b.Bytes()
}

func buildRiffTokens(seed int64) *riffTokens {
	rng := rand.New(rand.NewSource(seed))
	t := &riffTokens{w: 8 + 2*rng.Intn(4), h: 6 + rng.Intn(5), pay: map[string][]byte{}}
	opaque := noiseNRGBA(rng, t.w, t.h, 0)
	transp := noiseNRGBA(rng, t.w, t.h, 2)
	transp.SetNRGBA(0, 0, color.NRGBA{1, 2, 3, 0})
	lossy := mustEncode(opaque, &webp.EncoderOptions{Quality: 40, Method: 1})
	t.pay["vp8"] = findChunk(lossy, "VP8 ")
	ll := append([]byte(nil), findChunk(mustEncode(opaque, &webp.EncoderOptions{Lossless: true, Quality: 40, Method: 1}), "VP8L")...)
	ll[4] &^= 0x10
	t.pay["vp8l"] = ll
	lla := append([]byte(nil), findChunk(mustEncode(transp, &webp.EncoderOptions{Lossless: true, Quality: 40, Method: 1}), "VP8L")...)
	lla[4] |= 0x10
	t.pay["vp8la"] = lla
	la := mustEncode(transp, &webp.EncoderOptions{Quality: 40, Method: 1})
	t.pay["alph"], t.pay["vp8a"] = findChunk(la, "ALPH"), findChunk(la, "VP8 ")
	if t.pay["alph"] == nil || t.pay["vp8a"] == nil || t.pay["vp8"] == nil {
		vx.Fatal2("could not build container tokens")
	}
	// ALPH chunks whose plane is 255 everywhere: stored raw, and raw with the horizontal filter (255 then zeros)
	ao := make([]byte, 1+t.w*t.h)
	af := make([]byte, 1+t.w*t.h)
	af[0] = 1 << 2
	for i := 1; i < len(ao); i++ {
		ao[i] = 255
	}
	af[1] = 255 // first sample; every other residual is 0 (left neighbour, and the sample above in column 0)
	t.pay["alph-opaque"], t.pay["alph-opaque-f"] = ao, af
	// VP8 payloads whose frame header carries upscaling hints (the two bits above each 14-bit dimension)
	for _, base := range []string{"vp8", "vp8a"} {
		for _, v := range []string{"+hs", "+vs", "+hs+vs"} {
			b := append([]byte(nil), t.pay[base]...)
			if strings.Contains(v, "+hs") {
				b[7] |= 0x80
			}
			if strings.Contains(v, "+vs") {
				b[9] |= 0x40
			}
			t.pay[base+v] = b
		}
	}
	t.pay["anim"] = []byte{0x44, 0x33, 0x22, 0x11, 7, 0x80} // loop count 32775: the top bit of the 16-bit field is set
	t.pay["f-vp8"] = anmfPayload(0, 0, t.w, t.h, 50, 0, chunkBytes("VP8 ", t.pay["vp8"]))
	t.pay["f-vp8l"] = anmfPayload(0, 0, t.w, t.h, 70, 2, chunkBytes("VP8L", t.pay["vp8l"]))
	t.pay["f-vp8la"] = anmfPayload(0, 0, t.w, t.h, 30, 0, chunkBytes("VP8L", t.pay["vp8la"]))
	t.pay["f-alph-vp8"] = anmfPayload(0, 0, t.w, t.h, 20, 1, chunkBytes("ALPH", t.pay["alph"]), chunkBytes("VP8 ", t.pay["vp8a"]))
	t.pay["odd"] = []byte{9, 8, 7}
	t.pay["even"] = []byte{1, 2, 3, 4}
	t.pay["empty"] = []byte{}
	return t
}

func (t *riffTokens) assemble(c riffGenCase) []byte {
	var body bytes.Buffer
	body.WriteString("WEBP")
	for _, ch := range c.Chunks {
		if ch.Tok == "vp8x" {
			p := []byte{byte(c.Flags), 0, 0, 0}
			p = append(p, le24(t.w-1)...)
			p = append(p, le24(t.h-1)...)
			body.Write(chunkBytes("VP8X", p))
			continue
		}
		p, ok := t.pay[ch.Tok]
		if !ok {
			vx.Fatal2("unknown token %q", ch.Tok)
		}
		body.Write(chunkBytes(ch.Tag, p))
	}
	var f bytes.Buffer
	f.WriteString("RIFF")
	binary.Write(&f, binary.LittleEndian, uint32(body.Len()))
	f.Write(body.Bytes())
	if c.Trailing {
		f.Write([]byte{0xde, 0xad, 0xbe, 0xef, 0x01})
	}
	return f.Bytes()
}

// headerViews collects what every query of the package says about one file.
type headerViews struct {
	decErr, cfgErr, featErr, idecErr, icfgErr, dmxErr, animErr error
	img                                                        image.Image
	cfg, icfg                                                  image.Config
	ifmt, icfmt                                                string
	feat                                                       *webp.Features
	dmxFeat                                                    mux.Features
	dmxFrames, dmxLoop                                         int
	animW, animH, animFrames, animLoop                         int
}

// queryOrder counts queryAll calls; queryStep holds the strides (all coprime to 5) that permute the query order.
var queryOrder int
var queryStep = []int{1, 2, 3, 4}

func queryAll(data []byte) (v headerViews, panicked any) {
	defer func() {
		if r := recover(); r != nil {
			panicked = r
		}
	}()
	// the five package-level queries run in a rotating order, so that each of them is at some point the first call on
	// a new file right after each of the others was the last call on the previous (still / animated / extended) file
	qs := []func(){
		func() { v.img, v.decErr = webp.Decode(bytes.NewReader(data)) },
		func() { v.cfg, v.cfgErr = webp.DecodeConfig(bytes.NewReader(data)) },
		func() { v.feat, v.featErr = webp.GetFeatures(bytes.NewReader(data)) },
		func() { _, v.ifmt, v.idecErr = image.Decode(bytes.NewReader(data)) },
		func() { v.icfg, v.icfmt, v.icfgErr = image.DecodeConfig(bytes.NewReader(data)) },
	}
	queryOrder++
	for k := range qs {
		qs[(k*queryStep[queryOrder%len(queryStep)]+queryOrder)%5]()
	}
	d, err := mux.NewDemuxer(data)
	v.dmxErr = err
	if err == nil {
		v.dmxFeat, v.dmxFrames, v.dmxLoop = d.GetFeatures(), d.NumFrames(), d.LoopCount()
	}
	a, err := animation.DecodeBytes(data)
	v.animErr = err
	if err == nil {
		v.animW, v.animH, v.animFrames, v.animLoop = a.CanvasWidth, a.CanvasHeight, len(a.Frames), a.LoopCount
	}
	return
}

func anyNonOpaque(img image.Image) bool {
	r := img.Bounds()
	for y := r.Min.Y; y < r.Max.Y; y++ {
		for x := r.Min.X; x < r.Max.X; x++ {
			if _, _, _, a := img.At(x, y).RGBA(); a != 0xffff {
				return true
			}
		}
	}
	return false
}

// judgeHeaders applies the C16 contract. expect < 0 means "not given by the model".
func judgeHeaders(v headerViews, still, wellFormed, packageWritten bool, expW, expH, expFrames, expLoop int, expAnim int) (string, string) {
	if still && v.decErr == nil {
		b := v.img.Bounds()
		if b.Dx() <= 0 || b.Dy() <= 0 {
			return "bounds", "Decode returned empty bounds"
		}
		if v.cfgErr != nil {
			return "decodeconfig-fails", fmt.Sprintf("Decode accepts but DecodeConfig fails: %v", v.cfgErr)
		}
		if v.featErr != nil {
			return "getfeatures-fails", fmt.Sprintf("Decode accepts but GetFeatures fails: %v", v.featErr)
		}
		if v.cfg.Width != b.Dx() || v.cfg.Height != b.Dy() {
			return "decodeconfig-size", fmt.Sprintf("DecodeConfig %dx%d, decoded %dx%d", v.cfg.Width, v.cfg.Height, b.Dx(), b.Dy())
		}
		if v.feat.Width != b.Dx() || v.feat.Height != b.Dy() {
			return "getfeatures-size", fmt.Sprintf("GetFeatures %dx%d, decoded %dx%d", v.feat.Width, v.feat.Height, b.Dx(), b.Dy())
		}
		if v.cfg.ColorModel != v.img.ColorModel() {
			return "colormodel", fmt.Sprintf("DecodeConfig colour model differs from the decoded %T", v.img)
		}
		if v.idecErr != nil || v.ifmt != "webp" {
			return "image.Decode", fmt.Sprintf("image.Decode: format %q err %v", v.ifmt, v.idecErr)
		}
		if v.icfgErr != nil || v.icfmt != "webp" || v.icfg.Width != b.Dx() || v.icfg.Height != b.Dy() {
			return "image.DecodeConfig", fmt.Sprintf("image.DecodeConfig: format %q err %v %dx%d", v.icfmt, v.icfgErr, v.icfg.Width, v.icfg.Height)
		}
		if packageWritten && anyNonOpaque(v.img) && !v.feat.HasAlpha {
			return "alpha-flag", "a decoded pixel is not opaque but GetFeatures.HasAlpha is false"
		}
	}
	if wellFormed {
		if v.featErr != nil || v.cfgErr != nil || v.dmxErr != nil || v.animErr != nil {
			return "view-fails", fmt.Sprintf("a container view fails on a well-formed file: GetFeatures=%v DecodeConfig=%v demux=%v animation=%v", v.featErr, v.cfgErr, v.dmxErr, v.animErr)
		}
		w, h := v.dmxFeat.Width, v.dmxFeat.Height
		if v.feat.Width != w || v.feat.Height != h || v.cfg.Width != w || v.cfg.Height != h || v.animW != w || v.animH != h {
			return "canvas", fmt.Sprintf("canvas: GetFeatures %dx%d DecodeConfig %dx%d demux %dx%d animation %dx%d", v.feat.Width, v.feat.Height, v.cfg.Width, v.cfg.Height, w, h, v.animW, v.animH)
		}
		if expW >= 0 && (w != expW || h != expH) {
			return "canvas-vs-model", fmt.Sprintf("canvas %dx%d, file was assembled with %dx%d", w, h, expW, expH)
		}
		if v.feat.HasAnimation != v.dmxFeat.HasAnimation || (expAnim >= 0 && b2i(v.feat.HasAnimation) != expAnim) {
			return "animation-flag", fmt.Sprintf("animation flag: GetFeatures %v demux %v model %d", v.feat.HasAnimation, v.dmxFeat.HasAnimation, expAnim)
		}
		if v.feat.FrameCount != v.dmxFrames || v.animFrames != v.dmxFrames || (expFrames >= 0 && v.dmxFrames != expFrames) {
			return "frame-count", fmt.Sprintf("frame count: GetFeatures %d demux %d animation %d model %d", v.feat.FrameCount, v.dmxFrames, v.animFrames, expFrames)
		}
		if v.dmxFeat.HasAnimation {
			if v.feat.LoopCount != v.dmxLoop || v.animLoop != v.dmxLoop || (expLoop >= 0 && v.dmxLoop != expLoop) {
				return "loop-count", fmt.Sprintf("loop count: GetFeatures %d demux %d animation %d model %d", v.feat.LoopCount, v.dmxLoop, v.animLoop, expLoop)
			}
		}
	}
	return "", ""
}

// loop counts of the muxer-written files: two distinct bytes, and the top bit of the 16-bit field set
var c16Loops = []int{258, 40000, 65535, 32768}

func checkC16(args []string) {
	run := vx.NewRun("C16", "model_checking", args)
	activeRun = run
	run.Rule = "hand-assembled containers: every (base layout, irregularity set) state of spec/RiffGen.tla up to MAXIRR, bound to real bitstreams; plus package-written files (Encode option grid, animation encoder, muxer); distinct = distinct (base, irregularities) states / distinct package-written configurations whose views were compared"
	run.Assumptions = []string{"well-formed = headers mutually consistent (still canvas = image size, frames inside the canvas), as in the property's quantifier", "Features.LoopCount is compared for animated files only"}
	toks := buildRiffTokens(run.Seed)
	maxirr := run.Pick(3, 5)
	res := vx.MustTLC(vx.TLCOpts{Module: "RiffGen", Cfg: fmt.Sprintf("SPECIFICATION Spec\nCONSTANT MAXIRR = %d\nINVARIANTS FlagsOK Truthful\nCHECK_DEADLOCK FALSE\n", maxirr), Workers: 1, Timeout: 20 * time.Minute, Heap: "8g"})
	if res.InvViolated != "" {
		vx.Fatal2("RiffGen invariant %s violated (spec bug)", res.InvViolated)
	}
	run.AddTLC(res)
	seen := map[string]bool{}
	n := 0
	for _, raw := range res.Tagged("CASE") {
		var c riffGenCase
		if err := json.Unmarshal(raw, &c); err != nil {
			vx.Fatal2("CASE: %v", err)
		}
		nm := c.name()
		if seen[nm] {
			continue
		}
		seen[nm] = true
		data := toks.assemble(c)
		v, pan := queryAll(data)
		if pan != nil {
			run.Violate("panic|"+c.Base, fmt.Sprintf("%s: panic %v", nm, pan), map[string]any{"case": c, "bytes": data})
			continue
		}
		run.Eval(nm)
		run.AddTraces(1)
		key, msg := judgeHeaders(v, !c.Anim, c.WellFormed, false, toks.w, toks.h, c.NFrames, c.Loop, b2i(c.Anim))
		if key != "" {
			sig := key + "|" + c.Base
			if len(c.Irr) > 0 {
				s := append([]string(nil), c.Irr...)
				sort.Strings(s)
				sig += "|" + s[0]
			}
			run.Violate(sig, nm+": "+msg, map[string]any{"case": c, "bytes": data})
		}
		if n%301 == 0 {
			run.Sample(map[string]any{"case": nm, "file_bytes": len(data), "decode_err": fmt.Sprint(v.decErr)})
		}
		n++
	}
	// package-written files
	rng := rand.New(rand.NewSource(run.Seed + 1))
	pw := 0
	for i := 0; i < run.Pick(120, 1200); i++ {
		w, h := 1+rng.Intn(24), 1+rng.Intn(24)
		am := rng.Intn(4)
		img := noiseNRGBA(rng, w, h, am)
		o := &webp.EncoderOptions{Lossless: rng.Intn(2) == 0, Quality: float32(rng.Intn(101)), Method: rng.Intn(7), Exact: rng.Intn(2) == 0}
		if rng.Intn(3) == 0 {
			o.ICC = []byte{1, 2, 3}
		}
		if rng.Intn(3) == 0 {
			o.XMP = []byte("x")
		}
		data := mustEncode(img, o)
		v, pan := queryAll(data)
		nm := fmt.Sprintf("Encode(%dx%d,alpha%d,lossless=%v,q%v,m%d,icc=%d,xmp=%d)", w, h, am, o.Lossless, o.Quality, o.Method, len(o.ICC), len(o.XMP))
		if pan != nil {
			run.Violate("panic|encode-output", nm, nm)
			continue
		}
		if v.decErr != nil {
			run.Violate("decode-fails|encode-output", nm+": "+v.decErr.Error(), nm)
			continue
		}
		run.Eval(fmt.Sprintf("enc|%v|a%d|icc%d|xmp%d|m%d", o.Lossless, am, len(o.ICC), len(o.XMP), o.Method))
		if key, msg := judgeHeaders(v, true, true, true, w, h, 1, -1, 0); key != "" {
			run.Violate(key+"|encode-output|lossless="+fmt.Sprint(o.Lossless), nm+": "+msg, nm)
		}
		pw++
	}
	// package-written extended files whose chunk boundaries fall on or just below the sizes a reader is likely to
	// use for a header prefix or a read buffer (512 .. 8192): the ICC profile length moves every later chunk, so each
	// chunk end (ICCP, ALPH, image chunk, EXIF) is placed at B-d for d = 0, 2 .. 10. A header query that works on a
	// prefix of the file must still agree with the full decode.
	aligned := 0
	for ki := 0; ki < 3; ki++ {
		w, h := 96, 96
		img := noiseNRGBA(rng, w, h, 0)
		od := withDefaults(webp.EncoderOptions{Quality: 90, Method: 2, EXIF: []byte("Exif\x00\x00II*\x00")})
		od.AlphaCompression = 1 // a zero-valued literal would store the plane raw (9 KB): the ALPH chunk must stay small to be placed
		o := &od
		switch ki {
		case 0: // lossy + small ALPH (smooth alpha): VP8X ICCP ALPH VP8 EXIF
			for y := 0; y < h; y++ {
				for x := 0; x < w; x++ {
					img.Pix[img.PixOffset(x, y)+3] = uint8(255 - y)
				}
			}
		case 1: // lossy opaque: VP8X ICCP VP8 EXIF
		case 2: // lossless with alpha: VP8X ICCP VP8L EXIF
			o.Lossless, o.Quality = true, 20
			for y := 0; y < h; y++ {
				for x := 0; x < w; x++ {
					img.Pix[img.PixOffset(x, y)+3] = uint8(255 - x)
				}
			}
		}
		o.ICC = []byte{7, 7}
		base := mustEncode(img, o)
		var ends []int
		for off := 12; off+8 <= len(base); {
			sz := int(base[off+4]) | int(base[off+5])<<8 | int(base[off+6])<<16 | int(base[off+7])<<24
			off += 8 + sz + sz&1
			ends = append(ends, off)
		}
		for _, b := range []int{512, 1024, 2048, 4096, 8192} {
			for d := 0; d <= 10; d += 2 {
				for ci, e := range ends {
					if ci == 0 { // the VP8X chunk itself does not move
						continue
					}
					l := 2 + b - d - e
					if l < 1 || l > 1<<15 {
						continue
					}
					oo := *o
					oo.ICC = bytes.Repeat([]byte{byte(b >> 8), byte(d)}, l/2)
					data := mustEncode(img, &oo)
					nm := fmt.Sprintf("Encode(96x96,kind%d,icc=%d: chunk %d ends at %d)", ki, l, ci, b-d)
					v, pan := queryAll(data)
					if pan != nil {
						run.Violate("panic|encode-output", nm, nm)
						continue
					}
					if v.decErr != nil {
						run.Violate("decode-fails|encode-output", nm+": "+v.decErr.Error(), nm)
						continue
					}
					run.Eval(fmt.Sprintf("aligned|k%d|c%d|B%d|d%d", ki, ci, b, d))
					if key, msg := judgeHeaders(v, true, true, true, w, h, 1, -1, 0); key != "" {
						run.Violate(key+"|encode-output|aligned|lossless="+fmt.Sprint(o.Lossless), nm+": "+msg, nm)
					}
					aligned++
				}
			}
		}
	}
	run.Cov["boundary_aligned_files"] = aligned
	// animation-encoder outputs
	for i := 0; i < run.Pick(30, 300); i++ {
		w, h := 2+rng.Intn(12), 2+rng.Intn(12)
		nf := 1 + rng.Intn(4)
		loop := rng.Intn(5)
		var buf bytes.Buffer
		lossless := rng.Intn(2) == 0
		e := animation.NewEncoder(&buf, w, h, &animation.EncodeOptions{Quality: 50 + rng.Intn(50), Lossless: lossless, LoopCount: loop, AllowMixed: rng.Intn(3) == 0})
		distinct := 0
		var prev *image.NRGBA
		for k := 0; k < nf; k++ {
			im := noiseNRGBA(rng, w, h, rng.Intn(3))
			if prev != nil && rng.Intn(4) == 0 {
				im = prev
			} else {
				distinct++
			}
			prev = im
			if err := e.AddFrame(im, time.Duration(10+rng.Intn(100))*time.Millisecond); err != nil {
				vx.Fatal2("anim AddFrame: %v", err)
			}
		}
		if err := e.Close(); err != nil {
			vx.Fatal2("anim Close: %v", err)
		}
		v, pan := queryAll(buf.Bytes())
		nm := fmt.Sprintf("AnimEncoder(%dx%d,frames=%d,loop=%d,lossless=%v)", w, h, nf, loop, lossless)
		if pan != nil {
			run.Violate("panic|anim-output", nm, nm)
			continue
		}
		run.Eval(fmt.Sprintf("anim|%v|nf%d|loop%d", lossless, nf, loop))
		expLoop := -1
		if distinct > 1 {
			expLoop = loop
		}
		still := v.dmxErr == nil && !v.dmxFeat.HasAnimation
		if key, msg := judgeHeaders(v, still, true, true, w, h, -1, expLoop, -1); key != "" {
			run.Violate(key+"|anim-output", nm+": "+msg, nm)
		}
	}
	// muxer outputs with canvases and offsets that use the top byte of their 24-bit fields
	mt := buildMuxTokens(run.Seed)
	for i, cv := range [][2]int{{12, 70000}, {66000, 258}, {197637, 515}, {0, 0}} {
		for nf := 1; nf <= 3; nf++ {
			m := mux.NewMuxer()
			if cv[0] > 0 {
				m.SetCanvasSize(cv[0], cv[1])
			}
			m.SetLoopCount(c16Loops[i])
			for k := 0; k < nf; k++ {
				o := &mux.FrameOptions{Duration: 70001 + k}
				if cv[0] == 0 {
					o.OffsetX = 131588 * (k % 2)
					o.OffsetY = 2 * k
				}
				if err := m.AddFrame(mt.data[1+(k+i)%5], o); err != nil {
					vx.Fatal2("mux AddFrame: %v", err)
				}
			}
			var buf bytes.Buffer
			if err := m.Assemble(&buf); err != nil {
				vx.Fatal2("mux Assemble: %v", err)
			}
			v, pan := queryAll(buf.Bytes())
			nm := fmt.Sprintf("Muxer(canvas=%dx%d,frames=%d)", cv[0], cv[1], nf)
			if pan != nil {
				run.Violate("panic|mux-output", nm, nm)
				continue
			}
			run.Eval("mux|" + nm)
			ew, eh := cv[0], cv[1]
			if ew == 0 {
				ew, eh = -1, -1
			}
			if key, msg := judgeHeaders(v, false, true, true, ew, eh, nf, c16Loops[i], 1); key != "" {
				run.Violate(key+"|mux-output", nm+": "+msg, nm)
			}
		}
	}
	// long animations: more frames (and more top-level chunks) than any internal table or limit below the documented
	// 10 000-frame cap; every view must count the same frames
	for _, nf := range []int{260, 1023, 1200} {
		if !run.Thorough() && nf == 1023 {
			continue
		}
		m := mux.NewMuxer()
		m.SetLoopCount(3)
		for k := 0; k < nf; k++ {
			if err := m.AddFrame(mt.data[1+k%5], &mux.FrameOptions{Duration: 10 + k%7}); err != nil {
				vx.Fatal2("mux AddFrame: %v", err)
			}
		}
		var buf bytes.Buffer
		if err := m.Assemble(&buf); err != nil {
			vx.Fatal2("mux Assemble (%d frames): %v", nf, err)
		}
		nm := fmt.Sprintf("Muxer(frames=%d)", nf)
		v, pan := queryAll(buf.Bytes())
		if pan != nil {
			run.Violate("panic|mux-output", nm, nm)
			continue
		}
		run.Eval("mux|" + nm)
		if key, msg := judgeHeaders(v, false, true, true, -1, -1, nf, 3, 1); key != "" {
			run.Violate(key+"|long-animation", nm+": "+msg, nm)
		}
	}
	run.Cov["hand_assembled"] = n
	run.Cov["package_written"] = pw
	run.Finish()
}
