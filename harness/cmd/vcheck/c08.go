package main

import (
	"bytes"
	"encoding/json"
	"fmt"
	"image"
	"image/color"
	"math"
	"math/rand"
	"time"

	"github.com/deepteams/webp/animation"
	"github.com/deepteams/webp/internal/verifhook"
	"github.com/deepteams/webp/verifx/vx"
)

func init() {
	register("C08", func(a []string) { checkAnimEnc("C08", a) })
	register("C18", func(a []string) { checkAnimEnc("C18", a) })
}

// pixel tokens of spec/AnimEnc.tla
var animTokens = []color.NRGBA{{0, 0, 0, 0}, {200, 100, 50, 255}, {60, 60, 250, 255}, {200, 100, 50, 128}, {9, 8, 7, 0}, {1, 250, 1, 77}}

type animEncInput struct {
	CW, CH int
	Pics   []*image.NRGBA
	Durs   []int // milliseconds
	Opts   animation.EncodeOptions
	Origin string
	Choice string // "" | "prefer" | "avoid" | "random" | "alt-codec" | "keyframes": how the size-dependent dispose-candidate decision is overridden (hook)
}

// replayable form of an input history
type animEncReplay struct {
	CW, CH int
	Pics   []struct {
		W, H int
		Pix  [][4]int
	}
	Durs   []int
	Opts   animation.EncodeOptions
	Origin string
	Choice string
}

func (in animEncInput) replay() animEncReplay {
	r := animEncReplay{CW: in.CW, CH: in.CH, Durs: in.Durs, Opts: in.Opts, Origin: in.Origin, Choice: in.Choice}
	for _, p := range in.Pics {
		r.Pics = append(r.Pics, struct {
			W, H int
			Pix  [][4]int
		}{p.Bounds().Dx(), p.Bounds().Dy(), pixList(p)})
	}
	return r
}

func (r animEncReplay) input() animEncInput {
	in := animEncInput{CW: r.CW, CH: r.CH, Durs: r.Durs, Opts: r.Opts, Origin: r.Origin, Choice: r.Choice}
	for _, p := range r.Pics {
		im := image.NewNRGBA(image.Rect(0, 0, p.W, p.H))
		for k, v := range p.Pix {
			im.SetNRGBA(k%p.W, k/p.W, color.NRGBA{uint8(v[0]), uint8(v[1]), uint8(v[2]), uint8(v[3])})
		}
		in.Pics = append(in.Pics, im)
	}
	return in
}

func (in animEncInput) sig() string {
	s := fmt.Sprintf("%s%s|%dx%d|n%d|lossless=%v|mixed=%v|q%d|k%d,%d|loop%d", in.Origin, map[string]string{"": "", "prefer": "+dispose-bg-forced", "avoid": "+dispose-bg-avoided", "random": "+decisions-by-coin", "alt-codec": "+alt-codec-forced", "keyframes": "+keyframe-fallback-forced"}[in.Choice], in.CW, in.CH, len(in.Pics), in.Opts.Lossless, in.Opts.AllowMixed, in.Opts.Quality, in.Opts.Kmin, in.Opts.Kmax, in.Opts.LoopCount)
	for i, p := range in.Pics {
		s += fmt.Sprintf("|%x/%d", hashNRGBA(p)&0xffffff, in.Durs[i])
	}
	return s
}

type tvEncInput struct {
	Pix [][4]int `json:"pix"`
	Dur int      `json:"dur"`
}

type tvEncFrame struct {
	tvFrame
	Dur int `json:"dur"`
}

type tvEncLine struct {
	ID      string       `json:"id"`
	Mode    string       `json:"mode"`
	CW      int          `json:"cw"`
	CH      int          `json:"ch"`
	FCW     int          `json:"fcw"`
	FCH     int          `json:"fch"`
	LoopIn  int          `json:"loop_in"`
	LoopOut int          `json:"loop_out"`
	Inputs  []tvEncInput `json:"inputs"`
	Frames  []tvEncFrame `json:"frames"`
}

// padToCanvas is what "adding a picture" means for a frame smaller/larger than the canvas: placed at (0,0), clipped.
func padToCanvas(p *image.NRGBA, cw, ch int) *image.NRGBA {
	if p.Bounds().Dx() == cw && p.Bounds().Dy() == ch {
		return p
	}
	full := image.NewNRGBA(image.Rect(0, 0, cw, ch))
	for y := 0; y < ch && y < p.Bounds().Dy(); y++ {
		for x := 0; x < cw && x < p.Bounds().Dx(); x++ {
			full.SetNRGBA(x, y, p.NRGBAAt(p.Bounds().Min.X+x, p.Bounds().Min.Y+y))
		}
	}
	return full
}

func clampLoopDoc(v int) int {
	if v < 0 {
		return 0
	}
	if v > 65535 {
		return 65535
	}
	return v
}

// runAnimEncoder drives the real encoder and reader and returns the file plus the trace line for TVAnimEnc.
func runAnimEncoder(id, mode string, in animEncInput) (file []byte, line tvEncLine, err error) {
	defer func() {
		if r := recover(); r != nil {
			err = fmt.Errorf("panic: %v", r)
		}
	}()
	var buf bytes.Buffer
	o := in.Opts
	// both dispose candidates of a sub-frame are valid encodings; the encoder takes the smaller one. The hook lets the
	// check take the other branch too, whatever the sizes happen to be.
	switch in.Choice {
	case "prefer", "avoid":
		verifhook.SetChoice("anim.dispose-background", in.Choice)
	case "random": // every size-dependent decision by the toss of a seeded coin
		for _, n := range []string{"anim.dispose-background", "anim.mixed-alt-codec", "anim.keyframe-fallback"} {
			verifhook.SetChoice(n, "random")
		}
	case "alt-codec": // mixed mode: always the codec that was not configured
		verifhook.SetChoice("anim.mixed-alt-codec", "prefer")
	case "keyframes": // a key frame whenever the changed area is large enough for the fallback to be tried
		verifhook.SetChoice("anim.keyframe-fallback", "prefer")
	}
	verifhook.SeedChoices(int64(len(in.Pics))*7919 + int64(in.CW*131+in.CH))
	defer func() {
		for _, n := range []string{"anim.dispose-background", "anim.mixed-alt-codec", "anim.keyframe-fallback"} {
			verifhook.SetChoice(n, "")
		}
	}()
	if mode == "alpha" {
		// three histories out of four: the alpha encoder of the lossy frames tries a single prediction filter
		// (horizontal, vertical, gradient) instead of the ones its estimate picks, so every filter codes every plane
		if ff := (len(in.Pics) + in.CW + 3*in.CH) % 4; ff > 0 {
			verifhook.SetOverride("alpha.filter-map", 1<<uint(ff), true)
			defer verifhook.SetOverride("alpha.filter-map", 0, false)
		}
	}
	e := animation.NewEncoder(&buf, in.CW, in.CH, &o)
	if e == nil {
		return nil, line, fmt.Errorf("NewEncoder returned nil")
	}
	for i, p := range in.Pics {
		if err := e.AddFrame(p, time.Duration(in.Durs[i])*time.Millisecond); err != nil {
			return nil, line, fmt.Errorf("AddFrame %d: %w", i, err)
		}
	}
	if err := e.Close(); err != nil {
		return nil, line, fmt.Errorf("Close: %w", err)
	}
	file = buf.Bytes()
	a, err := animation.DecodeBytes(file)
	if err != nil {
		return file, line, fmt.Errorf("reading the written file: %w", err)
	}
	if err := a.DecodeFrames(); err != nil {
		return file, line, fmt.Errorf("decoding the frames of the written file: %w", err)
	}
	line = tvEncLine{ID: id, Mode: mode, CW: in.CW, CH: in.CH, FCW: a.CanvasWidth, FCH: a.CanvasHeight, LoopIn: clampLoopDoc(in.Opts.LoopCount), LoopOut: a.LoopCount}
	for i, p := range in.Pics {
		line.Inputs = append(line.Inputs, tvEncInput{pixList(padToCanvas(p, in.CW, in.CH)), in.Durs[i]})
	}
	dv, derr := demuxView(file)
	if derr != nil {
		return file, line, fmt.Errorf("demux of the written file: %w", derr)
	}
	still := dv.Anim == 0
	for i := range a.Frames {
		f := &a.Frames[i]
		im, ok := f.Image.(*image.NRGBA)
		if !ok {
			return file, line, fmt.Errorf("frame %d decoded to %T", i, f.Image)
		}
		tf := tvEncFrame{tvFrame: tvFrame{OX: f.OffsetX, OY: f.OffsetY, W: im.Bounds().Dx(), H: im.Bounds().Dy(),
			Blend: b2i(f.Blend == animation.BlendAlpha), Dispose: b2i(f.Dispose == animation.DisposeBackground), Pix: pixList(im)},
			Dur: int(f.Duration / time.Millisecond)}
		if still {
			tf.Dur, tf.Blend, tf.Dispose = -1, 0, 0
			line.LoopOut = line.LoopIn
		}
		line.Frames = append(line.Frames, tf)
	}
	// the package's own player must show the same pictures (the specification plays the frame list in TVAnimEnc; this
	// is the cross-check with animation.AnimDecoder): consecutive equal pictures collapsed on both sides
	if d, derr := animation.NewAnimDecoder(a); derr != nil {
		return file, line, fmt.Errorf("NewAnimDecoder on the written file: %w", derr)
	} else {
		var shown []*image.NRGBA
		for d.HasNext() {
			fr, _, err := d.NextFrame()
			if err != nil {
				return file, line, fmt.Errorf("playing the written file with AnimDecoder: %w", err)
			}
			if len(shown) == 0 || !samePicture(shown[len(shown)-1], fr, mode) {
				shown = append(shown, fr)
			}
		}
		var want []*image.NRGBA
		for _, p := range in.Pics {
			c := padToCanvas(p, in.CW, in.CH)
			if len(want) == 0 || !samePicture(want[len(want)-1], c, mode) {
				want = append(want, c)
			}
		}
		if len(shown) != len(want) {
			return file, line, fmt.Errorf("played with the package's AnimDecoder the file shows %d distinct pictures in a row, %d were added", len(shown), len(want))
		}
		for i := range want {
			if !samePicture(shown[i], want[i], mode) {
				return file, line, fmt.Errorf("played with the package's AnimDecoder, picture %d of the file is not the picture that was added", i+1)
			}
		}
	}
	return file, line, nil
}

// samePicture compares two canvases the way the property of the mode does: "exact" = all pixels, fully transparent
// ones equal whatever their colour; "alpha" = the alpha planes.
func samePicture(a, b *image.NRGBA, mode string) bool {
	if a.Bounds().Dx() != b.Bounds().Dx() || a.Bounds().Dy() != b.Bounds().Dy() {
		return false
	}
	w, h := a.Bounds().Dx(), a.Bounds().Dy()
	for y := 0; y < h; y++ {
		for x := 0; x < w; x++ {
			p, q := a.NRGBAAt(a.Bounds().Min.X+x, a.Bounds().Min.Y+y), b.NRGBAAt(b.Bounds().Min.X+x, b.Bounds().Min.Y+y)
			if p.A != q.A {
				return false
			}
			if mode == "exact" && p.A != 0 && p != q {
				return false
			}
		}
	}
	return true
}

func tokensToPic(cw, ch int, toks []int) *image.NRGBA {
	im := image.NewNRGBA(image.Rect(0, 0, cw, ch))
	for k, t := range toks {
		im.SetNRGBA(k%cw, k/cw, animTokens[t])
	}
	return im
}

var c08Durations = []int{0, 1, 100, 16777214, 16777215, 40, 7}
var c08Keyframes = [][2]int{{0, 0}, {1, 1}, {1, 2}, {2, 3}, {3, 5}, {0, 2}}
var c08Loops = []int{0, 1, 65535, 65536, -1, 258}

// editPicture derives the next picture from the previous one (the content classes of the C08 quantifier).
func editPicture(rng *rand.Rand, prev *image.NRGBA, alphaMode int) *image.NRGBA {
	w, h := prev.Bounds().Dx(), prev.Bounds().Dy()
	next := image.NewNRGBA(prev.Bounds())
	copy(next.Pix, prev.Pix)
	if alphaMode == 3 { // soft shapes: a disc with a feathered rim moves over a transparent background
		if rng.Intn(3) > 0 {
			return softDisc(rng, w, h)
		}
		alphaMode = 2
	}
	px := func() color.NRGBA {
		c := color.NRGBA{uint8(rng.Intn(256)), uint8(rng.Intn(256)), uint8(rng.Intn(256)), 255}
		switch alphaMode {
		case 1:
			if rng.Intn(2) == 0 {
				c.A = 0
			}
		case 2:
			c.A = []uint8{0, 77, 128, 200, 255}[rng.Intn(5)]
		}
		return c
	}
	switch rng.Intn(9) {
	case 7, 8: // a band as wide (or as high) as the canvas, anywhere, any thickness
		c := px()
		uniform := rng.Intn(2) == 0
		if rng.Intn(2) == 0 {
			y0 := rng.Intn(h)
			y1 := y0 + 1 + rng.Intn(h-y0)
			for y := y0; y < y1; y++ {
				for x := 0; x < w; x++ {
					if !uniform {
						c = px()
					}
					next.SetNRGBA(x, y, c)
				}
			}
		} else {
			x0 := rng.Intn(w)
			x1 := x0 + 1 + rng.Intn(w-x0)
			for y := 0; y < h; y++ {
				for x := x0; x < x1; x++ {
					if !uniform {
						c = px()
					}
					next.SetNRGBA(x, y, c)
				}
			}
		}
	case 0: // nothing
	case 1: // one pixel
		next.SetNRGBA(rng.Intn(w), rng.Intn(h), px())
	case 2, 3: // a sub-rectangle at even or odd offsets
		x0, y0 := rng.Intn(w), rng.Intn(h)
		x1, y1 := x0+1+rng.Intn(w-x0), y0+1+rng.Intn(h-y0)
		c := px()
		uniform := rng.Intn(2) == 0
		for y := y0; y < y1; y++ {
			for x := x0; x < x1; x++ {
				if !uniform {
					c = px()
				}
				next.SetNRGBA(x, y, c)
			}
		}
	case 4: // a diagonal stroke (staircase edge)
		c := px()
		for i := 0; i < w && i < h; i++ {
			next.SetNRGBA(i, i, c)
		}
	case 5: // make a region transparent
		x0, y0 := rng.Intn(w), rng.Intn(h)
		for y := y0; y < h && y < y0+3; y++ {
			for x := x0; x < w && x < x0+3; x++ {
				next.SetNRGBA(x, y, color.NRGBA{})
			}
		}
	default: // everything
		for y := 0; y < h; y++ {
			for x := 0; x < w; x++ {
				next.SetNRGBA(x, y, px())
			}
		}
	}
	return next
}

// softDisc draws a textured disc whose alpha falls off over a rim of a few pixels (many alpha levels, two-dimensional
// gradients, saturation at 0 and 255) on a fully transparent background.
func softDisc(rng *rand.Rand, w, h int) *image.NRGBA {
	p := image.NewNRGBA(image.Rect(0, 0, w, h))
	cx, cy := rng.Intn(w), rng.Intn(h)
	r := 3 + rng.Intn(1+(w+h)/4)
	rim := 2 + rng.Intn(10)
	for y := 0; y < h; y++ {
		for x := 0; x < w; x++ {
			d2 := (x-cx)*(x-cx) + (y-cy)*(y-cy)
			a := 255
			if d2 > r*r {
				// distance beyond the radius, approximated without sqrt: linear fall-off in d2
				a = 255 - (d2-r*r)*255/(rim*(2*r+rim))
			}
			if a <= 0 {
				continue
			}
			p.SetNRGBA(x, y, color.NRGBA{uint8(40 + x*5), uint8(200 - y*4), uint8(rng.Intn(256)), uint8(a)})
		}
	}
	return p
}

func cloneNRGBAImage(p *image.NRGBA) *image.NRGBA {
	c := image.NewNRGBA(p.Bounds())
	copy(c.Pix, p.Pix)
	return c
}

func randomAnimInput(rng *rand.Rand, prop string, big bool) animEncInput {
	cw, ch := 1+rng.Intn(6), 1+rng.Intn(5)
	if big {
		cw, ch = 24+rng.Intn(20), 18+rng.Intn(14)
	}
	if rng.Intn(3) == 0 {
		ch = cw // square canvases
	}
	alphaMode := rng.Intn(3)
	if prop == "C18" {
		alphaMode = 1 + rng.Intn(2)
		if big && rng.Intn(3) == 0 {
			alphaMode = 3
		}
	}
	n := 1 + rng.Intn(6)
	in := animEncInput{CW: cw, CH: ch, Origin: "random"}
	cur := image.NewNRGBA(image.Rect(0, 0, cw, ch))
	if rng.Intn(3) > 0 {
		cur = editPicture(rng, cur, alphaMode)
		cur = editPicture(rng, cur, alphaMode)
	}
	drift := prop == "C18" && rng.Intn(5) == 0 // a history of small colour drifts under unchanged graded alpha
	if drift {
		for tries := 0; tries < 4; tries++ { // make sure there are translucent pixels to drift
			cur = editPicture(rng, cur, 2)
		}
	}
	undersized := rng.Intn(8) == 0 // a history in which most frames are smaller than the canvas, each with its own extent
	var before *image.NRGBA        // the picture before the last edit: "something appears, then disappears again"
	for i := 0; i < n; i++ {
		if i > 0 {
			if before != nil && rng.Intn(4) == 0 {
				cur, before = before, cur
				if rng.Intn(2) == 0 { // ... while something small changes elsewhere
					cur = cloneNRGBAImage(cur)
					cur.SetNRGBA(rng.Intn(cw), rng.Intn(ch), color.NRGBA{uint8(rng.Intn(256)), uint8(rng.Intn(256)), 7, 255})
				}
			} else if drift {
				// the colour under every translucent pixel moves by a few units, its alpha stays; one pixel changes for
				// good (so that there is a changed rectangle around them)
				before = cur
				cur = cloneNRGBAImage(cur)
				for k := 0; k+3 < len(cur.Pix); k += 4 {
					if a := cur.Pix[k+3]; a > 0 && a < 255 && rng.Intn(2) == 0 {
						c := k + rng.Intn(3)
						d := 1 + rng.Intn(4)
						if cur.Pix[c] > 128 {
							cur.Pix[c] -= uint8(d)
						} else {
							cur.Pix[c] += uint8(d)
						}
					}
				}
				cur.SetNRGBA(rng.Intn(cw), rng.Intn(ch), color.NRGBA{uint8(rng.Intn(256)), uint8(rng.Intn(256)), 9, 255})
				if cw > 2 {
					cur.SetNRGBA(cw-1-rng.Intn(2), ch-1, color.NRGBA{uint8(rng.Intn(256)), 7, uint8(rng.Intn(256)), 255})
				}
			} else {
				before = cur
				cur = editPicture(rng, cur, alphaMode)
			}
		}
		p := cur
		if (rng.Intn(12) == 0 || (undersized && rng.Intn(3) > 0)) && cw > 1 && ch > 1 { // a frame smaller than the canvas
			p = cur.SubImage(image.Rect(0, 0, 1+rng.Intn(cw), 1+rng.Intn(ch))).(*image.NRGBA)
			cur = padToCanvas(p, cw, ch)
		}
		in.Pics = append(in.Pics, p)
		in.Durs = append(in.Durs, c08Durations[rng.Intn(len(c08Durations))])
	}
	k := c08Keyframes[rng.Intn(len(c08Keyframes))]
	in.Opts = animation.EncodeOptions{Lossless: true, Quality: 75, Kmin: k[0], Kmax: k[1], LoopCount: c08Loops[rng.Intn(len(c08Loops))]}
	if prop == "C18" {
		in.Opts.Lossless = rng.Intn(4) == 0
		in.Opts.AllowMixed = rng.Intn(2) == 0
		in.Opts.Quality = []int{0, 50, 75, 100}[rng.Intn(4)]
	}
	return in
}

func checkAnimEnc(prop string, args []string) {
	run := vx.NewRun(prop, "model_checking", args)
	activeRun = run
	mode := "exact"
	if prop == "C18" {
		mode = "alpha"
	}
	run.Rule = "(1) TLC model-checks the code-shaped encoder model (spec/AnimEnc.tla) against 'playback shows the picture that was added' for every picture sequence of the bounded domain and every outcome of the size-dependent choices; (2) TLC-generated edit histories and (3) seeded random edit histories (durations, key-frame settings, loop counts from the boundary lists) are run through the real AnimEncoder; the written file is read back and the SPEC plays its frame list (container semantics) and compares Canon(playback) with Canon(inputs) (spec/TVAnimEnc.tla); the file is also read by the strict container reader. distinct = distinct input histories with >= 2 distinct pictures"
	run.Assumptions = []string{"frame pixels and container fields of the written file are obtained with the package's own demuxer and frame decoder (the strict TLA+ reader validates the container separately)", "fully transparent pixels compare equal whatever their colour", "durations are whole milliseconds"}

	cfg := "MC_AnimEnc_quick.cfg"
	if run.Thorough() {
		cfg = "MC_AnimEnc.cfg"
	}
	var mc *vx.TLCResult
	if run.Replay != "" {
		mc = &vx.TLCResult{}
	} else {
		mc = vx.MustTLC(vx.TLCOpts{Module: "AnimEnc", Cfg: cfg, Workers: 12, Timeout: 60 * time.Minute, Heap: "16g"})
		run.AddTLC(mc)
	}
	if mc.InvViolated != "" {
		run.Note("model counterexample: invariant %s is violated in the code-shaped encoder model (information only; the verdict comes from the real encoder)", mc.InvViolated)
	}
	var inputs []animEncInput
	rng := rand.New(rand.NewSource(run.Seed))
	if run.Replay != "" {
		b, err := readFile(run.Replay)
		if err != nil {
			vx.Fatal2("replay: %v", err)
		}
		var v struct{ Replay animEncReplay }
		if err := json.Unmarshal(b, &v); err != nil {
			vx.Fatal2("replay: %v", err)
		}
		in := v.Replay.input()
		_, line, err := runAnimEncoder("replay", mode, in)
		fmt.Printf("input: %s\nerr: %v\n", in.sig(), err)
		for i, f := range line.Frames {
			fmt.Printf("frame %d: at (%d,%d) %dx%d dur %d blend %d dispose %d pix %v\n", i, f.OX, f.OY, f.W, f.H, f.Dur, f.Blend, f.Dispose, f.Pix)
		}
		for i, p := range line.Inputs {
			fmt.Printf("input %d: dur %d pix %v\n", i, p.Dur, p.Pix)
		}
		inputs = []animEncInput{in}
	}
	gen := &vx.TLCResult{}
	if run.Replay == "" {
		gen = vx.MustTLC(vx.TLCOpts{Module: "AnimEnc", Cfg: "GEN_AnimEnc.cfg", Workers: 1, Simulate: fmt.Sprintf("num=%d", run.Pick(25, 400)), Depth: 7, Seed: run.Seed, Timeout: 60 * time.Minute})
	}
	seenGen := map[string]bool{}
	genCases := gen.Tagged("CASE")
	rng.Shuffle(len(genCases), func(i, j int) { genCases[i], genCases[j] = genCases[j], genCases[i] })
	if max := run.Pick(150, 3000); len(genCases) > max {
		genCases = genCases[:max]
	}
	// coverage-directed histories: the model marks the situations in which the two dispose candidates of a sub-frame
	// differ in blend mode (with a proper sub-rectangle); only histories that pass through one are kept
	if run.Replay == "" {
		dir := vx.MustTLC(vx.TLCOpts{Module: "AnimEnc", Cfg: "GEN_AnimEncDirected.cfg", Workers: 1, Simulate: fmt.Sprintf("num=%d", run.Pick(30, 300)), Depth: 7, Seed: run.Seed + 11, Timeout: 60 * time.Minute})
		run.AddTLC(dir)
		dc := dir.Tagged("CASE")
		// the same on a square 4x4 canvas (full-width bands are then as wide as the canvas is high)
		dirSq := vx.MustTLC(vx.TLCOpts{Module: "AnimEnc", Cfg: "GEN_AnimEncDirectedSquare.cfg", Workers: 1, Simulate: fmt.Sprintf("num=%d", run.Pick(8, 120)), Depth: 7, Seed: run.Seed + 13, Timeout: 60 * time.Minute})
		run.AddTLC(dirSq)
		dsq := dirSq.Tagged("CASE")
		rng.Shuffle(len(dsq), func(i, j int) { dsq[i], dsq[j] = dsq[j], dsq[i] })
		if max := run.Pick(60, 1200); len(dsq) > max {
			dsq = dsq[:max]
		}
		dc = append(dc, dsq...)
		rng.Shuffle(len(dc), func(i, j int) { dc[i], dc[j] = dc[j], dc[i] })
		if max := run.Pick(120, 2500); len(dc) > max {
			dc = dc[:max]
		}
		run.Cov["coverage_directed_histories"] = len(dc)
		genCases = append(genCases, dc...)
	}
	for _, raw := range genCases {
		if run.Replay != "" {
			break
		}
		if seenGen[string(raw)] {
			continue
		}
		seenGen[string(raw)] = true
		var c struct {
			CW   int     `json:"cw"`
			CH   int     `json:"ch"`
			Pics [][]int `json:"pics"`
		}
		if err := json.Unmarshal(raw, &c); err != nil {
			vx.Fatal2("CASE: %v", err)
		}
		for _, k := range c08Keyframes[:4] {
			in := animEncInput{CW: c.CW, CH: c.CH, Origin: "tlc"}
			for _, t := range c.Pics {
				in.Pics = append(in.Pics, tokensToPic(c.CW, c.CH, t))
				in.Durs = append(in.Durs, c08Durations[rng.Intn(len(c08Durations))])
			}
			in.Opts = animation.EncodeOptions{Lossless: prop == "C08", Quality: 75, Kmin: k[0], Kmax: k[1], LoopCount: 3, AllowMixed: prop == "C18" && k[1] == 2}
			inputs = append(inputs, in)
		}
	}
	nGen := len(inputs)
	nRandom, nBig := run.Pick(250, 4000), run.Pick(6, 80)
	if run.Replay != "" {
		nRandom, nBig = 0, 0
	}
	for i := 0; i < nRandom; i++ {
		inputs = append(inputs, randomAnimInput(rng, prop, false))
	}
	for i := 0; i < nBig; i++ {
		inputs = append(inputs, randomAnimInput(rng, prop, true))
	}
	// a soft disc (opaque core, feathered rim of many alpha levels, transparent background) moving over the canvas:
	// two-dimensional alpha gradients that saturate at both ends, in lossy, mixed and all-key-frame modes
	if prop == "C18" && run.Replay == "" {
		for i := 0; i < run.Pick(3, 12); i++ {
			cw, ch := 56+8*(i%3), 56+8*((i/3)%3)
			in := animEncInput{CW: cw, CH: ch, Origin: "soft-disc"}
			rad, rim := 14.0+float64(2*(i%4)), 6.0+float64(3*(i%3))
			for k := 0; k < 3; k++ {
				p := image.NewNRGBA(image.Rect(0, 0, cw, ch))
				cx, cy := float64(cw)/2-6+float64(6*k), float64(ch)/2-4+float64(4*k)
				for y := 0; y < ch; y++ {
					for x := 0; x < cw; x++ {
						d := math.Hypot(float64(x)-cx, float64(y)-cy)
						a := (rad - d) / rim * 255
						if a <= 0 {
							continue
						}
						if a > 255 {
							a = 255
						}
						p.SetNRGBA(x, y, color.NRGBA{220, 60, 40, uint8(a)})
					}
				}
				in.Pics = append(in.Pics, p)
				in.Durs = append(in.Durs, 100)
			}
			in.Opts = []animation.EncodeOptions{{Quality: 75}, {Quality: 75, AllowMixed: true}, {Quality: 40, Kmax: 1}}[i%3]
			inputs = append(inputs, in)
		}
	}
	// "a band appears and disappears": on square and oblong canvases a band as wide (or as high) as the canvas, at the
	// near edge, in the middle or at the far edge, shows for one picture over static content and is gone in the next
	// one, with or without a small change elsewhere (the cheapest encoding disposes the band to background)
	if run.Replay == "" {
		for _, cv := range [][2]int{{6, 6}, {8, 8}, {8, 6}, {6, 10}} {
			for _, horizontal := range []bool{true, false} {
				for pos := 0; pos < 3; pos++ {
					for _, extra := range []bool{false, true} {
						cw, ch := cv[0], cv[1]
						n := cw
						if !horizontal {
							n = ch
						}
						lo := []int{0, 2, 0}[pos]
						hi := lo + 2
						if pos == 2 {
							if horizontal {
								lo, hi = ch-2, ch
							} else {
								lo, hi = cw-2, cw
							}
						}
						// static content everywhere OUTSIDE the band's place (where the band shows, the canvas is transparent
						// before and after): half of the pixels, noisy and opaque (C18: some of them translucent)
						base := image.NewNRGBA(image.Rect(0, 0, cw, ch))
						for k := 0; k < cw*ch; k++ {
							x, y := k%cw, k/cw
							inBand := (horizontal && y >= lo && y < hi) || (!horizontal && x >= lo && x < hi)
							if !inBand && (x+y)%2 == 0 {
								c := color.NRGBA{uint8(rng.Intn(256)), uint8(rng.Intn(256)), uint8(rng.Intn(256)), 255}
								if prop == "C18" && rng.Intn(3) == 0 {
									c.A = uint8(40 + rng.Intn(200))
								}
								base.SetNRGBA(x, y, c)
							}
						}
						band := cloneNRGBAImage(base)
						for i := 0; i < n; i++ {
							for j := lo; j < hi; j++ {
								if horizontal {
									band.SetNRGBA(i, j, color.NRGBA{250, uint8(10 * i), 20, 255})
								} else {
									band.SetNRGBA(j, i, color.NRGBA{250, uint8(10 * i), 20, 255})
								}
							}
						}
						last := cloneNRGBAImage(base)
						if extra {
							last.SetNRGBA(cw/2, ch/2, color.NRGBA{1, 2, 3, 255})
						}
						in := animEncInput{CW: cw, CH: ch, Origin: "band-appears-and-disappears", Pics: []*image.NRGBA{base, band, last}, Durs: []int{30, 40, 50},
							Opts: animation.EncodeOptions{Lossless: prop == "C08", Quality: 75, LoopCount: 1}}
						inputs = append(inputs, in)
					}
				}
			}
		}
	}
	// duration sums crossing 2^24 through merged identical pictures
	for _, durs := range [][]int{{16777000, 300, 5}, {16777215, 1, 1}, {8388608, 8388608, 8388608, 2}} {
		if run.Replay != "" {
			break
		}
		in := animEncInput{CW: 4, CH: 2, Origin: "duration-overflow", Opts: animation.EncodeOptions{Lossless: prop == "C08", Quality: 75, LoopCount: 2}}
		a := tokensToPic(4, 2, []int{1, 1, 2, 2, 0, 3, 3, 1})
		b := tokensToPic(4, 2, []int{1, 1, 2, 2, 0, 3, 3, 2})
		for i, d := range durs {
			p := a
			if i == len(durs)-1 {
				p = b
			}
			in.Pics = append(in.Pics, p)
			in.Durs = append(in.Durs, d)
		}
		inputs = append(inputs, in)
	}

	// every history also runs with the dispose-candidate decision forced (alternately towards DISPOSE_BACKGROUND
	// whenever that candidate exists, and away from it)
	if run.Replay == "" {
		n0 := len(inputs)
		for i := 0; i < n0; i++ {
			if len(inputs[i].Pics) < 2 {
				continue
			}
			c := inputs[i]
			c.Choice = []string{"random", "avoid", "random", "prefer", "keyframes"}[i%5]
			if prop == "C18" && c.Opts.AllowMixed && i%2 == 0 {
				c.Choice = "alt-codec"
			}
			inputs = append(inputs, c)
		}
	}
	var lines []tvEncLine
	var files []vx.FileCase
	byID := map[string]animEncInput{}
	for i, in := range inputs {
		id := fmt.Sprintf("e%d", i)
		byID[id] = in
		file, line, err := runAnimEncoder(id, mode, in)
		if err != nil {
			run.Violate("encoder-or-reader-error|"+in.Origin, in.sig()+": "+err.Error(), in.replay())
			continue
		}
		distinct := 0
		for k := range in.Pics {
			if k == 0 || hashNRGBA(padToCanvas(in.Pics[k], in.CW, in.CH)) != hashNRGBA(padToCanvas(in.Pics[k-1], in.CW, in.CH)) {
				distinct++
			}
		}
		sig := ""
		if distinct >= 2 {
			sig = in.sig()
		}
		run.Eval(sig)
		lines = append(lines, line)
		e := vx.NewExpect("input")
		e.W, e.H = in.CW, in.CH
		files = append(files, vx.FileCase{ID: id, Must: "accept", Bytes: vx.Ints(file), X: []vx.Expect{e}})
		if i%97 == 0 {
			run.Sample(map[string]any{"input": in.sig(), "file_bytes": len(file), "frames_in_file": len(line.Frames)})
		}
	}
	// the SPEC plays the frame lists and compares with the inputs
	bad := map[string]string{}
	const batch = 800
	for lo := 0; lo < len(lines); lo += batch {
		hi := lo + batch
		if hi > len(lines) {
			hi = len(lines)
		}
		res := vx.MustTLC(vx.TLCOpts{Module: "TVAnimEnc", Cfg: "TVAnimEnc.cfg", Workers: 1, Timeout: 60 * time.Minute, Heap: "8g",
			Files: map[string][]byte{"trace.ndjson": vx.NDJSON(lines[lo:hi])}})
		run.AddTLC(res)
		for _, b := range vx.Verdict(res, hi-lo, "TVAnimEnc") {
			bad[b.ID] = b.Why
		}
	}
	run.AddTraces(len(lines))
	for id, why := range bad {
		in := byID[id]
		run.Violate(fmt.Sprintf("playback|%s|lossless=%v|mixed=%v", why, in.Opts.Lossless, in.Opts.AllowMixed), in.sig()+": "+why, in.replay())
	}
	for id, why := range vx.ValidateFiles(run, files) {
		in := byID[id]
		run.Violate("container|"+why, in.sig()+": "+why, in.replay())
	}
	run.Cov["tlc_generated_histories"] = nGen
	run.Cov["random_histories"] = len(inputs) - nGen
	run.Finish()
}
