package main

import (
	"bytes"
	"encoding/json"
	"fmt"
	"image"
	"image/color"
	"math"
	"math/rand"
	"sort"
	"strings"
	"time"

	"github.com/deepteams/webp"
	"github.com/deepteams/webp/verifx/vx"
)

func init() { register("C20", checkC20) }

type optCase struct {
	Opt      map[string]int `json:"opt"`
	Valid    bool           `json:"valid"`
	Resolved map[string]int `json:"resolved"`
}

func floatTok(v int) float32 {
	switch v {
	case 1000001:
		return float32(math.NaN())
	case 1000002:
		return float32(math.Inf(1))
	case 1000003:
		return float32(math.Inf(-1))
	case 1000004:
		return 100.0001
	case 1000005:
		return 1e30
	case 1000006:
		return float32(math.Copysign(0, -1))
	case 1000007:
		return 0.5
	case 1000008:
		return 99.99
	}
	return float32(v)
}

func intTok(v int) int {
	switch v {
	case 2000000000:
		return math.MaxInt
	case -2000000000:
		return math.MinInt
	}
	return v
}

func optsFromTokens(m map[string]int) *webp.EncoderOptions {
	return &webp.EncoderOptions{
		Lossless: m["Lossless"] == 1, Quality: floatTok(m["Quality"]), Method: intTok(m["Method"]), Preset: webp.Preset(intTok(m["Preset"])),
		UseSharpYUV: m["UseSharpYUV"] == 1, Exact: m["Exact"] == 1, TargetSize: intTok(m["TargetSize"]), TargetPSNR: floatTok(m["TargetPSNR"]),
		Preprocessing: intTok(m["Preprocessing"]), SNSStrength: intTok(m["SNSStrength"]), FilterStrength: intTok(m["FilterStrength"]),
		FilterSharpness: intTok(m["FilterSharpness"]), FilterType: intTok(m["FilterType"]), Partitions: intTok(m["Partitions"]),
		Segments: intTok(m["Segments"]), Pass: intTok(m["Pass"]), EmulateJpegSize: m["EmulateJpegSize"] == 1, QMin: intTok(m["QMin"]),
		QMax: intTok(m["QMax"]), AlphaCompression: intTok(m["AlphaCompression"]), AlphaFiltering: intTok(m["AlphaFiltering"]), AlphaQuality: intTok(m["AlphaQuality"]),
	}
}

func optKey(m map[string]int) string {
	var ks []string
	for k, v := range m {
		def := 0
		switch k {
		case "Quality":
			def = 75
		case "Method":
			def = 4
		case "SNSStrength", "FilterStrength", "FilterType", "Segments", "Pass", "QMax", "AlphaCompression", "AlphaFiltering", "AlphaQuality":
			def = -1
		}
		if v != def {
			ks = append(ks, fmt.Sprintf("%s=%d", k, v))
		}
	}
	sort.Strings(ks)
	return fmt.Sprint(ks)
}

// changedFields names the fields of a case that are not at their default (for finding signatures).
func changedFields(m map[string]int) string {
	var ks []string
	for k, v := range m {
		def := 0
		switch k {
		case "Quality":
			def = 75
		case "Method":
			def = 4
		case "SNSStrength", "FilterStrength", "FilterType", "Segments", "Pass", "QMax", "AlphaCompression", "AlphaFiltering", "AlphaQuality":
			def = -1
		}
		if v != def {
			ks = append(ks, k)
		}
	}
	sort.Strings(ks)
	return fmt.Sprint(ks)
}

func sizeClass(sz [2]int) string {
	switch {
	case sz[0] == 1 || sz[1] == 1:
		return "one pixel wide or high"
	case sz[0] < 16 || sz[1] < 16:
		return "below one macroblock"
	}
	return "macroblock boundary"
}

func safeEncode(img image.Image, o *webp.EncoderOptions) (out []byte, err error, pan any) {
	defer func() {
		if r := recover(); r != nil {
			pan = r
		}
	}()
	var buf bytes.Buffer
	err = webp.Encode(&buf, img, o)
	return buf.Bytes(), err, nil
}

func checkC20(args []string) {
	run := vx.NewRun("C20", "model_checking", args)
	activeRun = run
	run.Rule = "TLC enumerates every pair of EncoderOptions fields over their boundary lists (all other fields at DefaultOptions()) from spec/Options.tla, with the documented verdict (must fail / must succeed) and the sentinel-resolved option set; each is run through webp.Encode under recover: invalid => error, valid => file accepted by Decode and by the strict TLA+ container reader, Encode(o) = Encode(Resolve(o)) byte for byte, lossy-only and no-effect fields do not change lossless output; plus nil arguments, boundary image sizes, oversized metadata. distinct = distinct option sets evaluated"
	run.Assumptions = []string{"validity and sentinel meaning are those of the EncoderOptions doc comments", "one 17x13 picture with graded alpha (so that the alpha options matter); boundary image dimensions are tested with default options"}
	res := vx.MustTLC(vx.TLCOpts{Module: "Options", Cfg: "GEN_Options.cfg", Workers: 1, Timeout: 30 * time.Minute, Heap: "8g"})
	if res.InvViolated != "" {
		vx.Fatal2("Options model: invariant %s violated (spec bug)", res.InvViolated)
	}
	run.AddTLC(res)
	rng := rand.New(rand.NewSource(run.Seed))
	img := noiseNRGBA(rng, 17, 13, 2)
	seen := map[string]bool{}
	var files []vx.FileCase
	fileCase := map[string]optCase{}
	n := 0
	baseLossless, _, _ := safeEncode(img, &webp.EncoderOptions{Lossless: true, Quality: 75, Method: 4})
	for _, raw := range res.Tagged("CASE") {
		var c optCase
		if err := json.Unmarshal(raw, &c); err != nil {
			vx.Fatal2("CASE: %v", err)
		}
		k := optKey(c.Opt)
		if seen[k] {
			continue
		}
		seen[k] = true
		run.Eval(k)
		o := optsFromTokens(c.Opt)
		out, err, pan := safeEncode(img, o)
		sig := changedFields(c.Opt)
		if pan != nil {
			run.Violate("panic|"+sig, fmt.Sprintf("Encode panicked with %s: %v", k, pan), c)
			continue
		}
		if !c.Valid {
			if err == nil {
				run.Violate("invalid-accepted|"+sig, fmt.Sprintf("Encode accepted the out-of-range option set %s", k), c)
			}
			continue
		}
		if err != nil {
			run.Violate("valid-rejected|"+sig, fmt.Sprintf("Encode rejected the documented-valid option set %s: %v", k, err), c)
			continue
		}
		if _, derr := webp.Decode(bytes.NewReader(out)); derr != nil {
			run.Violate("undecodable|"+sig, fmt.Sprintf("option set %s: Encode succeeded but Decode fails: %v", k, derr), c)
			continue
		}
		// sentinel resolution: byte-identical to the explicit documented defaults
		ro, rerr, rpan := safeEncode(img, optsFromTokens(c.Resolved))
		if rpan != nil || rerr != nil || !bytes.Equal(ro, out) {
			run.Violate("sentinel-differs|"+sig, fmt.Sprintf("option set %s: output differs from the explicit documented defaults %s (err=%v panic=%v, %d vs %d bytes)", k, optKey(c.Resolved), rerr, rpan, len(out), len(ro)), c)
		}
		if c.Opt["Lossless"] == 1 {
			// lossy-only / no-effect fields must not change lossless output
			onlyLossyOnly := true
			for f, v := range c.Opt {
				switch f {
				case "Lossless", "Preprocessing", "AlphaCompression", "AlphaFiltering", "AlphaQuality", "EmulateJpegSize":
				default:
					def := 0
					switch f {
					case "Quality":
						def = 75
					case "Method":
						def = 4
					case "SNSStrength", "FilterStrength", "FilterType", "Segments", "Pass", "QMax":
						def = -1
					}
					if v != def {
						onlyLossyOnly = false
					}
				}
			}
			if onlyLossyOnly && !bytes.Equal(out, baseLossless) {
				run.Violate("lossy-only-changes-lossless|"+sig, fmt.Sprintf("option set %s changes the lossless output", k), c)
			}
		}
		if n%5 == 0 || run.Thorough() { // the strict reader sees a fifth of the valid outputs in the quick tier
			id := fmt.Sprintf("o%d", n)
			e := vx.NewExpect("input")
			e.W, e.H, e.Alpha = 17, 13, 1
			files = append(files, vx.FileCase{ID: id, Must: "accept", Bytes: vx.Ints(out), X: []vx.Expect{e}})
			fileCase[id] = c
		}
		if n%1500 == 0 {
			run.Sample(map[string]any{"options": k, "valid": c.Valid, "bytes": len(out)})
		}
		n++
	}
	for id, why := range vx.ValidateFiles(run, files) {
		c := fileCase[id]
		run.Violate("nonconformant|"+changedFields(c.Opt)+"|"+why, optKey(c.Opt)+": "+why, c)
	}
	// every valid single-field option set (one field away from DefaultOptions(), each of its boundary values) on
	// every boundary picture size: Encode must succeed and the file must decode to a picture of that size
	{
		sizes := [][2]int{{1, 1}, {1, 2}, {2, 1}, {1, 16}, {16, 1}, {1, 37}, {37, 1}, {2, 2}, {3, 5}, {15, 17}, {16, 16}, {17, 33}}
		pics := map[[2]int]image.Image{}
		for _, sz := range sizes {
			pics[sz] = noiseNRGBA(rng, sz[0], sz[1], 2)
		}
		nGrid := 0
		for _, raw := range res.Tagged("CASE") {
			var c optCase
			if json.Unmarshal(raw, &c) != nil || !c.Valid {
				continue
			}
			sig := changedFields(c.Opt)
			if strings.Count(sig, " ") > 0 || sig == "[]" { // more than one field changed, or none
				if sig != "[]" {
					continue
				}
			}
			k := optKey(c.Opt)
			if seen["grid|"+k] {
				continue
			}
			seen["grid|"+k] = true
			for _, sz := range sizes {
				name := fmt.Sprintf("%dx%d picture with %s", sz[0], sz[1], k)
				out, err, pan := safeEncode(pics[sz], optsFromTokens(c.Opt))
				nGrid++
				run.Eval("size-grid|" + sig + fmt.Sprint(sz))
				if pan != nil {
					run.Violate(fmt.Sprintf("panic|%s|size-class %s", sig, sizeClass(sz)), fmt.Sprintf("Encode panicked on a %s: %v", name, pan), map[string]any{"size": sz, "case": c})
					continue
				}
				if err != nil {
					run.Violate(fmt.Sprintf("valid-rejected|%s|size-class %s", sig, sizeClass(sz)), fmt.Sprintf("Encode rejected a %s: %v", name, err), map[string]any{"size": sz, "case": c})
					continue
				}
				im, derr := guardedDecode(out)
				if derr != nil || im.Bounds().Dx() != sz[0] || im.Bounds().Dy() != sz[1] {
					run.Violate(fmt.Sprintf("undecodable|%s|size-class %s", sig, sizeClass(sz)), fmt.Sprintf("%s: the file does not decode to a picture of that size (%v)", name, derr), map[string]any{"size": sz, "case": c})
				}
			}
		}
		run.Cov["single_field_option_sets_x_boundary_sizes"] = nGrid
	}
	// the same single-field option sets on a LARGE busy picture (tens of thousands of coefficient tokens, several
	// hundred macroblocks): Encode must succeed, the file must decode to that size, and the options that only
	// distribute or organise the same data (Partitions) must not change a decoded pixel
	{
		bigPic := noiseNRGBA(rng, 160, 160, 0)
		var ref image.Image
		if out, err, pan := safeEncode(bigPic, optsFromTokens(map[string]int{"Quality": 90, "Method": 4, "SNSStrength": -1, "FilterStrength": -1, "FilterType": -1, "Segments": -1, "Pass": -1, "QMax": -1, "AlphaCompression": -1, "AlphaFiltering": -1, "AlphaQuality": -1})); err == nil && pan == nil {
			ref, _ = guardedDecode(out)
		}
		nBig := 0
		for _, raw := range res.Tagged("CASE") {
			var c optCase
			if json.Unmarshal(raw, &c) != nil || !c.Valid {
				continue
			}
			sig := changedFields(c.Opt)
			if strings.Count(sig, " ") > 0 || sig == "[]" || c.Opt["TargetSize"] > 0 && c.Opt["TargetSize"] < 600 {
				continue
			}
			k := optKey(c.Opt)
			if seen["big|"+k] {
				continue
			}
			seen["big|"+k] = true
			o := optsFromTokens(c.Opt)
			if sig != "[Quality]" {
				o.Quality = 90
			}
			name := fmt.Sprintf("160x160 noise picture with %s (Quality 90)", k)
			out, err, pan := safeEncode(bigPic, o)
			nBig++
			run.Eval("large-picture|" + k)
			if pan != nil {
				run.Violate("panic|"+sig+"|large picture", fmt.Sprintf("Encode panicked on a %s: %v", name, pan), c)
				continue
			}
			if err != nil {
				run.Violate("valid-rejected|"+sig+"|large picture", fmt.Sprintf("Encode rejected a %s: %v", name, err), c)
				continue
			}
			im, derr := guardedDecode(out)
			if derr != nil || im.Bounds().Dx() != 160 || im.Bounds().Dy() != 160 {
				run.Violate("undecodable|"+sig+"|large picture", fmt.Sprintf("%s: the file does not decode to a 160x160 picture (%v)", name, derr), c)
				continue
			}
			if sig == "[Partitions]" && ref != nil && !sameImage(im, ref) {
				run.Violate("partitions-change-pixels|large picture", name+": decodes to other pixels than the same encode with Partitions 0", c)
			}
		}
		run.Cov["single_field_option_sets_on_a_large_picture"] = nBig
	}
	// images of boundary width with content: 16383 x 67 grey noise whose rows 64..66 repeat rows 0..2 (the only matches a
	// lossless coder finds lie exactly 64 rows = 16383 << 6 pixels back, the window of the middle quality class at
	// this width). In-range options: Encode returns nil, so the file must decode to the picture.
	{
		const bw, bh = 16383, 67
		wide := image.NewNRGBA(image.Rect(0, 0, bw, bh))
		for i := 0; i < bw*bh; i++ {
			v := uint8(rng.Intn(256))
			wide.Pix[4*i], wide.Pix[4*i+1], wide.Pix[4*i+2], wide.Pix[4*i+3] = v, uint8(rng.Intn(256)), v, 255
		}
		copy(wide.Pix[64*wide.Stride:], wide.Pix[:3*wide.Stride])
		quals := []float32{40, 75}
		if run.Thorough() {
			quals = []float32{40, 75, 26, 50, 51, 20, 100}
		}
		for _, q := range quals {
			name := fmt.Sprintf("16383x67 noise with rows repeated 64 rows below, lossless Quality %v Method 3", q)
			out, err, pan := safeEncode(wide, &webp.EncoderOptions{Lossless: true, Quality: q, Method: 3})
			run.Eval("boundary-width|" + name)
			if pan != nil {
				run.Violate("panic|boundary width with content", fmt.Sprintf("Encode panicked on %s: %v", name, pan), name)
				continue
			}
			if err != nil {
				run.Violate("valid-rejected|boundary width with content", fmt.Sprintf("Encode rejected %s: %v", name, err), name)
				continue
			}
			im, derr := guardedDecode(out)
			if derr != nil {
				run.Violate("undecodable|boundary width with content", fmt.Sprintf("%s: Encode returned nil but the file does not decode: %v", name, derr), name)
				continue
			}
			if got, ok := im.(*image.NRGBA); !ok || got.Bounds() != wide.Bounds() || !bytes.Equal(got.Pix, wide.Pix) {
				run.Violate("invalid-file|boundary width with content", name+": the file decodes to another picture", name)
			}
		}
	}
	// EmulateJpegSize, nil options, nil arguments, boundary images, oversized metadata
	d1, _, _ := safeEncode(img, webp.DefaultOptions())
	// nil options = DefaultOptions(), on pictures on which every default matters: graded and soft-edged alpha (the alpha
	// filter and alpha quality defaults), smooth and textured colour (SNS, filter, segments), palette-like content
	nilPics := map[string]image.Image{"noise+alpha 17x13": img, "graded alpha 40x30": gradientAlpha(rng, 40, 30), "photo 64x48": lossyPicture(rng, 64, 48, "smooth"),
		"graded texture 48x48": lossyPicture(rng, 48, 48, "graded"), "palette 24x24": palettedNRGBA(rng, 24, 24, 9), "gray 31x9": image.NewGray(image.Rect(0, 0, 31, 9))}
	{
		cone := image.NewNRGBA(image.Rect(0, 0, 48, 40))
		for y := 0; y < 40; y++ {
			for x := 0; x < 48; x++ {
				dx, dy := 2*x-48, 2*y-40
				a := 255 - (dx*dx+dy*dy)*300/1601
				if a < 0 {
					a = 0
				}
				cone.SetNRGBA(x, y, color.NRGBA{uint8(x * 5), uint8(y * 6), uint8(rng.Intn(256)), uint8(a)})
			}
		}
		nilPics["soft round alpha 48x40"] = cone
	}
	for name, p := range nilPics {
		dd, _, _ := safeEncode(p, webp.DefaultOptions())
		d2, err2, pan2 := safeEncode(p, nil)
		run.Eval("nil-options|" + name)
		if pan2 != nil || err2 != nil || !bytes.Equal(dd, d2) {
			run.Violate("nil-options", fmt.Sprintf("Encode(nil options) differs from Encode(DefaultOptions()) on the picture %q: err=%v panic=%v, %d vs %d bytes", name, err2, pan2, len(d2), len(dd)), "nil options: "+name)
		}
	}
	ej := webp.DefaultOptions()
	ej.EmulateJpegSize = true
	d3, _, _ := safeEncode(img, ej)
	if !bytes.Equal(d1, d3) {
		run.Violate("emulate-jpeg-size", "EmulateJpegSize changes the output", "EmulateJpegSize")
	}
	type argCase struct {
		name    string
		f       func() (error, any)
		wantErr bool
	}
	big := func(w, h int) image.Image { return image.NewGray(image.Rect(0, 0, w, h)) }
	argCases := []argCase{
		{"nil writer", func() (err error, p any) {
			defer func() { p = recover() }()
			return webp.Encode(nil, img, nil), nil
		}, true},
		{"nil image", func() (err error, p any) {
			defer func() { p = recover() }()
			return webp.Encode(&bytes.Buffer{}, nil, nil), nil
		}, true},
		{"empty image", func() (error, any) { _, e, p := safeEncode(image.NewNRGBA(image.Rect(0, 0, 0, 0)), nil); return e, p }, true},
		{"zero-width image", func() (error, any) { _, e, p := safeEncode(image.NewNRGBA(image.Rect(0, 0, 0, 5)), nil); return e, p }, true},
		{"16384x1 image", func() (error, any) { _, e, p := safeEncode(big(16384, 1), nil); return e, p }, true},
		{"1x16384 image lossless", func() (error, any) {
			_, e, p := safeEncode(big(1, 16384), &webp.EncoderOptions{Lossless: true, Quality: 20})
			return e, p
		}, true},
		{"16383x1 image", func() (error, any) { _, e, p := safeEncode(big(16383, 1), nil); return e, p }, false},
		{"1x16383 image lossless", func() (error, any) {
			_, e, p := safeEncode(big(1, 16383), &webp.EncoderOptions{Lossless: true, Quality: 20})
			return e, p
		}, false},
		{"1x1 image", func() (error, any) { _, e, p := safeEncode(big(1, 1), nil); return e, p }, false},
		{"ICC of 100 MB + 1", func() (error, any) {
			o := webp.DefaultOptions()
			o.ICC = make([]byte, 100*1024*1024+1)
			_, e, p := safeEncode(img, o)
			return e, p
		}, true},
	}
	for _, a := range argCases {
		err, pan := a.f()
		run.Eval("arg:" + a.name)
		if pan != nil {
			run.Violate("panic|"+a.name, fmt.Sprintf("%s: Encode panicked: %v", a.name, pan), a.name)
		} else if a.wantErr && err == nil {
			run.Violate("invalid-accepted|"+a.name, a.name+": Encode returned nil", a.name)
		} else if !a.wantErr && err != nil {
			run.Violate("valid-rejected|"+a.name, fmt.Sprintf("%s: Encode failed: %v", a.name, err), a.name)
		}
	}
	run.Cov["option_sets"] = len(seen)
	run.Finish()
}
