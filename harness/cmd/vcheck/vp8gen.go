package main

import (
	"fmt"
	"math/rand"
	"os"
	"regexp"
	"strconv"
	"strings"

	"github.com/deepteams/webp/verifx/vx"
)

// A generator of VALID VP8 key frames with features the package's encoder never emits (loop-filter deltas, simple
// filter with deltas, per-segment absolute/delta quantisers and filter strengths, quantiser deltas and indices up to
// 127, arbitrary intra modes, arbitrary coefficient patterns incl. all DCT_CAT categories, coded macroblocks whose
// residuals are all zero, streams without the skip flag, probability updates, 1..8 partitions). What a stream decodes
// to is decided by the TLA+ reader (spec/Vp8.tla). The constant tables come from the frozen spec/Vp8Tables.tla, and
// the boolean encoder below is the generator's own, so nothing here shares code with the decoder under test.

type vp8Tables struct {
	bands, zigzag []int
	dcq, acq      []int
	ymodes        []int       // KYModesIntra4 tree
	bmodes        [][][]int   // [top][left][9]
	proba0, upd   [][][][]int // [type][band][ctx][11]
}

var reTuple = regexp.MustCompile(`-?\d+`)

func parseNested(s string) any {
	// recursive descent over << ... >>
	pos := 0
	var parse func() any
	parse = func() any {
		// assumes s[pos:] starts with "<<"
		pos += 2
		var items []any
		for {
			for pos < len(s) && (s[pos] == ' ' || s[pos] == ',' || s[pos] == '\n' || s[pos] == '\t') {
				pos++
			}
			if strings.HasPrefix(s[pos:], ">>") {
				pos += 2
				return items
			}
			if strings.HasPrefix(s[pos:], "<<") {
				items = append(items, parse())
				continue
			}
			m := reTuple.FindString(s[pos:])
			v, _ := strconv.Atoi(m)
			items = append(items, v)
			pos += len(m)
		}
	}
	return parse()
}

func toInts(a any) []int {
	var out []int
	for _, v := range a.([]any) {
		out = append(out, v.(int))
	}
	return out
}

var cachedTables *vp8Tables

func loadVP8Tables() *vp8Tables {
	if cachedTables != nil {
		return cachedTables
	}
	b, err := os.ReadFile(vx.SpecDir + "/Vp8Tables.tla")
	if err != nil {
		vx.Fatal2("Vp8Tables.tla: %v", err)
	}
	txt := string(b)
	get := func(name string) any {
		i := strings.Index(txt, "\n"+name+" == ")
		if i < 0 {
			vx.Fatal2("table %s not found", name)
		}
		rest := txt[i+len(name)+5:]
		j := strings.Index(rest, "<<")
		// find the end: next "\n" followed by an identifier and " ==" or "===="
		end := len(rest)
		if m := regexp.MustCompile(`\n[A-Za-z0-9_]+ == |\n====`).FindStringIndex(rest); m != nil {
			end = m[0]
		}
		return parseNested(rest[j:end])
	}
	t := &vp8Tables{bands: toInts(get("KBands")), zigzag: toInts(get("KZigzag")), ymodes: toInts(get("KYModesIntra4")),
		dcq: toInts(get("KDcTable")), acq: toInts(get("KAcTable"))}
	for _, a := range get("KBModesProba").([]any) {
		var row [][]int
		for _, c := range a.([]any) {
			row = append(row, toInts(c))
		}
		t.bmodes = append(t.bmodes, row)
	}
	conv4 := func(a any) [][][][]int {
		var out [][][][]int
		for _, ty := range a.([]any) {
			var bs [][][]int
			for _, bd := range ty.([]any) {
				var cs [][]int
				for _, c := range bd.([]any) {
					cs = append(cs, toInts(c))
				}
				bs = append(bs, cs)
			}
			out = append(out, bs)
		}
		return out
	}
	t.proba0, t.upd = conv4(get("CoeffsProba0")), conv4(get("CoeffsUpdateProba"))
	if len(t.bands) != 17 || len(t.proba0) != 4 || len(t.bmodes) != 10 {
		vx.Fatal2("Vp8Tables.tla: unexpected table shapes")
	}
	cachedTables = t
	return t
}

// boolEnc is a boolean entropy encoder (RFC 6386 section 7.3 reference algorithm).
type boolEnc struct {
	out      []byte
	rng      uint32
	bottom   uint32
	bitCount int
}

func newBoolEnc() *boolEnc { return &boolEnc{rng: 255, bitCount: 24} }

func (e *boolEnc) addOne() {
	for i := len(e.out) - 1; i >= 0; i-- {
		if e.out[i] == 255 {
			e.out[i] = 0
		} else {
			e.out[i]++
			return
		}
	}
}

func (e *boolEnc) put(bit int, prob int) {
	split := 1 + (((e.rng - 1) * uint32(prob)) >> 8)
	if bit != 0 {
		e.bottom += split
		e.rng -= split
	} else {
		e.rng = split
	}
	for e.rng < 128 {
		e.rng <<= 1
		if e.bottom&(1<<31) != 0 {
			e.addOne()
		}
		e.bottom <<= 1
		e.bitCount--
		if e.bitCount == 0 {
			e.out = append(e.out, byte(e.bottom>>24))
			e.bottom &= (1 << 24) - 1
			e.bitCount = 8
		}
	}
}

func (e *boolEnc) lit(v, n int) {
	for i := n - 1; i >= 0; i-- {
		e.put(v>>uint(i)&1, 128)
	}
}

func (e *boolEnc) slit(v, n int) { // magnitude then sign
	a := v
	if a < 0 {
		a = -a
	}
	e.lit(a, n)
	e.put(b2i(v < 0), 128)
}

func (e *boolEnc) optSlit(v, n int, present bool) {
	if !present {
		e.put(0, 128)
		return
	}
	e.put(1, 128)
	e.slit(v, n)
}

func (e *boolEnc) finish() []byte {
	c := e.bitCount
	v := e.bottom
	if v&(1<<uint(32-c)) != 0 {
		e.addOne()
	}
	v <<= uint(c & 7)
	c >>= 3
	for c--; c >= 0; c-- {
		v <<= 8
	}
	c = 4
	for c--; c >= 0; c-- {
		e.out = append(e.out, byte(v>>24))
		v <<= 8
	}
	return e.out
}

type genVP8 struct {
	Bytes []byte
	W, H  int
	Desc  string
}

// putTree writes `value` with a token tree in the layout of KYModesIntra4: entry tree[2*node+bit] is the next node
// number when positive and minus the leaf value otherwise; probs[node] is the probability used at that node.
func putTree(e *boolEnc, tree []int, probs []int, value int) {
	var path func(node int, acc [][2]int) [][2]int
	path = func(node int, acc [][2]int) [][2]int {
		for bit := 0; bit < 2; bit++ {
			nx := tree[2*node+bit]
			step := append(append([][2]int(nil), acc...), [2]int{bit, probs[node]})
			if nx <= 0 {
				if -nx == value {
					return step
				}
			} else if r := path(nx, step); r != nil {
				return r
			}
		}
		return nil
	}
	p := path(0, nil)
	if p == nil {
		panic("value not in tree")
	}
	for _, s := range p {
		e.put(s[0], s[1])
	}
}

var catTabs = [][]int{{173, 148, 140}, {176, 155, 140, 135}, {180, 157, 141, 134, 130}, {254, 254, 243, 230, 196, 177, 153, 140, 133, 130, 129}}

// putCoeffs writes one block (levels in zigzag order, starting at `first`) exactly as RFC 6386 section 13 prescribes;
// returns whether the block has a non-zero coefficient at or after `first`.
func putCoeffs(e *boolEnc, t *vp8Tables, proba [][][][]int, typ, ctx, first int, lv []int) bool {
	last := -1
	for i := first; i < 16; i++ {
		if lv[i] != 0 {
			last = i
		}
	}
	n := first
	p := proba[typ][t.bands[n]][ctx]
	if last < 0 {
		e.put(0, p[0])
		return false
	}
	e.put(1, p[0])
	for n < 16 {
		c := lv[n]
		n++
		sign := b2i(c < 0)
		v := c
		if v < 0 {
			v = -v
		}
		if v == 0 {
			e.put(0, p[1])
			p = proba[typ][t.bands[n]][0]
			continue
		}
		e.put(1, p[1])
		if v == 1 {
			e.put(0, p[2])
			p = proba[typ][t.bands[n]][1]
		} else {
			e.put(1, p[2])
			if v <= 4 {
				e.put(0, p[3])
				if v == 2 {
					e.put(0, p[4])
				} else {
					e.put(1, p[4])
					e.put(b2i(v == 4), p[5])
				}
			} else if v <= 10 {
				e.put(1, p[3])
				e.put(0, p[6])
				if v <= 6 {
					e.put(0, p[7])
					e.put(b2i(v == 6), 159)
				} else {
					e.put(1, p[7])
					e.put(b2i(v >= 9), 165)
					e.put(b2i(v&1 == 0), 145)
				}
			} else {
				e.put(1, p[3])
				e.put(1, p[6])
				var cat, base int
				switch {
				case v < 3+(8<<1):
					cat, base = 0, 3+(8<<0)
					e.put(0, p[8])
					e.put(0, p[9])
				case v < 3+(8<<2):
					cat, base = 1, 3+(8<<1)
					e.put(0, p[8])
					e.put(1, p[9])
				case v < 3+(8<<3):
					cat, base = 2, 3+(8<<2)
					e.put(1, p[8])
					e.put(0, p[10])
				default:
					cat, base = 3, 3+(8<<3)
					e.put(1, p[8])
					e.put(1, p[10])
				}
				x := v - base
				tab := catTabs[cat]
				for k := 0; k < len(tab); k++ {
					e.put(x>>uint(len(tab)-1-k)&1, tab[k])
				}
			}
			p = proba[typ][t.bands[n]][2]
		}
		e.put(sign, 128)
		if n == 16 {
			return true
		}
		if n > last {
			e.put(0, p[0])
			return true
		}
		e.put(1, p[0])
	}
	return true
}

// genLevelsBudget draws a coefficient block whose magnitudes add up to at most budget (in level units).
// Why: the format's inverse transforms are specified on mathematical integers, real decoders (this one's assembly
// kernels included) compute them in 16 bits. The two agree as long as no intermediate sum leaves the 16-bit range,
// which holds when the dequantised coefficients of a block add up to less than about 19 000 (each 1-D pass gains at
// most 1.3066). Frames beyond that are the subject of the known finding of C13, not of C04; the generator stays
// inside: with amp x largest dequantiser <= 9 000 the budgets below keep every block under 15 000 (24 000 for the
// 16 inputs of the WHT, whose outputs - at most an eighth of that sum - are part of the luma blocks' budget).
func genLevelsBudget(rng *rand.Rand, first int, density, amp, budget int) []int {
	lv := genLevels(rng, first, density, amp)
	for {
		sum, big := 0, 0
		for i, v := range lv {
			if v < 0 {
				v = -v
			}
			sum += v
			if a := lv[big]; v > a && v > -a {
				big = i
			}
		}
		if sum <= budget {
			return lv
		}
		lv[big] /= 2
	}
}

// genLevels draws a coefficient block. amp bounds the magnitudes (the TLA+ reader works in 32-bit integers).
func genLevels(rng *rand.Rand, first int, density, amp int) []int {
	lv := make([]int, 16)
	if rng.Intn(100) >= density {
		return lv
	}
	if first == 0 && rng.Intn(12) == 0 {
		// a block whose only coefficient is a DC of the largest magnitude the frame allows (the decoder's DC-only
		// shortcut then adds a large constant to the prediction and has to saturate)
		lv[0] = amp
		if rng.Intn(2) == 0 {
			lv[0] = -amp
		}
		return lv
	}
	k := 1 + rng.Intn(16-first)
	if rng.Intn(3) == 0 {
		k = 16 - first
	}
	for j := 0; j < k; j++ {
		i := first + rng.Intn(16-first)
		if rng.Intn(3) == 0 {
			i = first + j%(16-first)
		}
		m := 1
		switch rng.Intn(10) {
		case 0, 1:
			m = 2 + rng.Intn(3)
		case 2:
			m = 5 + rng.Intn(6)
		case 3:
			m = 11 + rng.Intn(amp)
		case 4:
			if amp > 70 {
				m = 67 + rng.Intn(amp-66) // DCT_CAT6
			}
		}
		if m > amp {
			m = amp
		}
		if rng.Intn(2) == 0 {
			m = -m
		}
		lv[i] = m
	}
	return lv
}

// genVP8Frame builds one key frame.
func genVP8Frame(rng *rand.Rand, maxMBW, maxMBH int, force string) genVP8 {
	t := loadVP8Tables()
	mbw, mbh := 1+rng.Intn(maxMBW), 1+rng.Intn(maxMBH)
	w := 16*(mbw-1) + 1 + rng.Intn(16)
	h := 16*(mbh-1) + 1 + rng.Intn(16)
	hd := newBoolEnc()
	hd.put(0, 128) // colour space
	hd.put(rng.Intn(2), 128)
	// segmentation
	useSeg := rng.Intn(2) == 0
	updMap, updData, segAbs := false, false, false
	segQ, segF := [4]int{}, [4]int{}
	segQp, segFp := [4]bool{}, [4]bool{}
	segProbs := [3]int{255, 255, 255}
	hd.put(b2i(useSeg), 128)
	baseQ := rng.Intn(128)
	if force == "high-q" || force == "hostile-coeffs" {
		baseQ = 110 + rng.Intn(18)
	}
	level := rng.Intn(64)
	if rng.Intn(4) == 0 {
		level = 0
	}
	if force == "lfdelta-all" || force == "lfdelta-keep" {
		level = 8 + rng.Intn(20)
	}
	if useSeg {
		updMap, updData = rng.Intn(4) != 0, rng.Intn(4) != 0
		hd.put(b2i(updMap), 128)
		hd.put(b2i(updData), 128)
		if updData {
			segAbs = rng.Intn(2) == 0
			hd.put(b2i(segAbs), 128)
			for i := 0; i < 4; i++ {
				segQp[i] = rng.Intn(4) != 0
				if segAbs {
					segQ[i] = rng.Intn(128)
				} else {
					segQ[i] = rng.Intn(41) - 20
				}
				hd.optSlit(segQ[i], 7, segQp[i])
			}
			for i := 0; i < 4; i++ {
				segFp[i] = rng.Intn(4) != 0
				if segAbs {
					segF[i] = rng.Intn(64)
				} else {
					segF[i] = rng.Intn(31) - 15
				}
				hd.optSlit(segF[i], 6, segFp[i])
			}
		}
		if updMap {
			for i := 0; i < 3; i++ {
				if rng.Intn(3) != 0 {
					segProbs[i] = 1 + rng.Intn(255)
					hd.put(1, 128)
					hd.lit(segProbs[i], 8)
				} else {
					hd.put(0, 128)
				}
			}
		}
	}
	// loop filter
	simple := rng.Intn(2) == 0
	sharp := rng.Intn(8)
	if force == "ilimit-edges" {
		// the interior limit is level >> (sharpness > 4 ? 2 : 1), capped at 9 - sharpness, at least 1: levels and
		// sharpness values on both sides of each of these decisions
		sharp = []int{4, 4, 5, 3, 1, 7}[rng.Intn(6)]
		level = 2 + rng.Intn(22)
	}
	hd.put(b2i(simple), 128)
	hd.lit(level, 6)
	hd.lit(sharp, 3)
	useDelta := rng.Intn(2) == 0 || force == "lfdelta-all" || force == "lfdelta-keep"
	hd.put(b2i(useDelta), 128)
	deltaDesc := ""
	if useDelta {
		upd := (rng.Intn(3) != 0 || force == "lfdelta-all") && force != "lfdelta-keep"
		hd.put(b2i(upd), 128)
		if upd {
			for i := 0; i < 8; i++ {
				pr := rng.Intn(3) != 0 || force == "lfdelta-all"
				v := rng.Intn(64) - 20
				if force == "lfdelta-all" {
					v = 12 + rng.Intn(30) // every delta present and clearly non-zero
				}
				hd.optSlit(v, 6, pr)
			}
			deltaDesc = " lfdelta-upd"
		} else {
			deltaDesc = " lfdelta-noupd"
		}
	}
	nPartLog := rng.Intn(4)
	hd.lit(nPartLog, 2)
	nParts := 1 << uint(nPartLog)
	hd.lit(baseQ, 7)
	for i := 0; i < 5; i++ {
		pr := rng.Intn(3) == 0 || (force == "high-q" && i == 3)
		v := rng.Intn(31) - 15
		if force == "high-q" && i == 3 {
			v = 1 + rng.Intn(15)
		}
		hd.optSlit(v, 4, pr)
	}
	hd.put(rng.Intn(2), 128) // refresh_entropy_probs (irrelevant for a single key frame)
	// coefficient probabilities
	proba := make([][][][]int, 4)
	nUpd := 0
	for ty := 0; ty < 4; ty++ {
		proba[ty] = make([][][]int, 8)
		for bd := 0; bd < 8; bd++ {
			proba[ty][bd] = make([][]int, 3)
			for c := 0; c < 3; c++ {
				proba[ty][bd][c] = make([]int, 11)
				for k := 0; k < 11; k++ {
					v := t.proba0[ty][bd][c][k]
					if rng.Intn(40) == 0 {
						v = 1 + rng.Intn(255)
						hd.put(1, t.upd[ty][bd][c][k])
						hd.lit(v, 8)
						nUpd++
					} else {
						hd.put(0, t.upd[ty][bd][c][k])
					}
					proba[ty][bd][c][k] = v
				}
			}
		}
	}
	useSkip := rng.Intn(3) != 0
	skipP := 1 + rng.Intn(255)
	hd.put(b2i(useSkip), 128)
	if useSkip {
		hd.lit(skipP, 8)
	}
	// macroblocks
	parts := make([]*boolEnc, nParts)
	for i := range parts {
		parts[i] = newBoolEnc()
	}
	// bound the levels so that every dequantised coefficient stays well inside 16 bits (the range in which RFC 6386's
	// arithmetic and the decoders' int16 storage agree) and the reference reader's 32-bit arithmetic is exact
	qmax := baseQ
	if useSeg && updData {
		for i := 0; i < 4; i++ {
			q := segQ[i]
			if !segAbs {
				q += baseQ
			}
			if segQp[i] && q > qmax {
				qmax = q
			}
		}
	}
	if qmax > 112 {
		qmax = 112
	}
	amp := 9000 / (t.acq[qmax+15] * 155 / 100)
	if amp > 2000 {
		amp = 2000
	}
	if amp < 3 {
		amp = 3
	}
	if force == "hostile-coeffs" {
		amp = 2114 // the largest level the token syntax can express; level x quantiser no longer fits 16 bits
	}
	topModes := make([]int, 4*mbw) // intra 4x4 mode context (B_DC_PRED = 0)
	type nzc struct {
		y  [4]int
		u  [2]int
		v  [2]int
		dc int
	}
	topNz := make([]nzc, mbw)
	segTree := []int{2, 4, 0, -1, -2, -3} // values 0..3 : tree[0..1]= nodes 2,4 ; leaves as -value (0 => leaf 0 written as 0)
	_ = segTree
	allZeroCoded := 0
	for my := 0; my < mbh; my++ {
		leftModes := [4]int{}
		var leftNz nzc
		tok := parts[my%nParts]
		for mx := 0; mx < mbw; mx++ {
			if updMap {
				s := rng.Intn(4)
				// segment tree: bit with probs[0]; then probs[1] or probs[2]
				hd.put(s>>1, segProbs[0])
				hd.put(s&1, segProbs[1+(s>>1)])
			}
			density := []int{0, 30, 70, 100}[rng.Intn(4)]
			skip := false
			if useSkip {
				skip = rng.Intn(3) == 0
				hd.put(b2i(skip), skipP)
			}
			is4 := rng.Intn(2) == 0
			hd.put(b2i(!is4), 145)
			if !is4 {
				m := rng.Intn(4) // 0 DC, 1 TM, 2 VE, 3 HE
				// ymode tree: bit(156): 1 -> (bit(128): 1 TM, 0 HE), 0 -> (bit(163): 1 VE, 0 DC)
				switch m {
				case 0:
					hd.put(0, 156)
					hd.put(0, 163)
				case 2:
					hd.put(0, 156)
					hd.put(1, 163)
				case 3:
					hd.put(1, 156)
					hd.put(0, 128)
				case 1:
					hd.put(1, 156)
					hd.put(1, 128)
				}
				for k := 0; k < 4; k++ {
					topModes[4*mx+k], leftModes[k] = m, m
				}
			} else {
				for k := 0; k < 16; k++ {
					y, x := k/4, k%4
					m := rng.Intn(10)
					putTree(hd, t.ymodes, t.bmodes[topModes[4*mx+x]][leftModes[y]], m)
					topModes[4*mx+x], leftModes[y] = m, m
				}
			}
			// chroma mode: bit(142): 0 DC; else bit(114): 0 VE; else bit(183): 1 TM, 0 HE
			switch rng.Intn(4) {
			case 0:
				hd.put(0, 142)
			case 2:
				hd.put(1, 142)
				hd.put(0, 114)
			case 3:
				hd.put(1, 142)
				hd.put(1, 114)
				hd.put(0, 183)
			case 1:
				hd.put(1, 142)
				hd.put(1, 114)
				hd.put(1, 183)
			}
			tn := &topNz[mx]
			if skip {
				tn.y, tn.u, tn.v = [4]int{}, [2]int{}, [2]int{}
				leftNz.y, leftNz.u, leftNz.v = [4]int{}, [2]int{}, [2]int{}
				if !is4 {
					tn.dc, leftNz.dc = 0, 0
				}
				continue
			}
			any := false
			first, ytype := 0, 3
			if !is4 {
				lv := genLevelsBudget(rng, 0, density, amp, amp*24/9)
				nz := putCoeffs(tok, t, proba, 1, tn.dc+leftNz.dc, 0, lv)
				tn.dc, leftNz.dc = b2i(nz), b2i(nz)
				any = any || nz
				first, ytype = 1, 0
			}
			for k := 0; k < 16; k++ {
				y, x := k/4, k%4
				lb := amp * 15 / 9
				if first == 1 {
					lb = amp * 12 / 9 // the DC comes from the WHT: at most 3 000 after the budget above
				}
				lv := genLevelsBudget(rng, first, density, amp, lb)
				nz := putCoeffs(tok, t, proba, ytype, tn.y[x]+leftNz.y[y], first, lv)
				tn.y[x], leftNz.y[y] = b2i(nz), b2i(nz)
				any = any || nz
			}
			for k := 0; k < 4; k++ {
				y, x := k/2, k%2
				lv := genLevelsBudget(rng, 0, density, amp, amp*15/9)
				nz := putCoeffs(tok, t, proba, 2, tn.u[x]+leftNz.u[y], 0, lv)
				tn.u[x], leftNz.u[y] = b2i(nz), b2i(nz)
				any = any || nz
			}
			for k := 0; k < 4; k++ {
				y, x := k/2, k%2
				lv := genLevelsBudget(rng, 0, density, amp, amp*15/9)
				nz := putCoeffs(tok, t, proba, 2, tn.v[x]+leftNz.v[y], 0, lv)
				tn.v[x], leftNz.v[y] = b2i(nz), b2i(nz)
				any = any || nz
			}
			if !any {
				allZeroCoded++
			}
		}
	}
	p0 := hd.finish()
	var out []byte
	tag := uint32(len(p0))<<5 | 1<<4 | 0 // key frame, version 0, show_frame
	out = append(out, byte(tag), byte(tag>>8), byte(tag>>16), 0x9d, 0x01, 0x2a, byte(w), byte(w>>8), byte(h), byte(h>>8))
	out = append(out, p0...)
	var bodies [][]byte
	for _, p := range parts {
		bodies = append(bodies, p.finish())
	}
	for i := 0; i < nParts-1; i++ {
		n := len(bodies[i])
		out = append(out, byte(n), byte(n>>8), byte(n>>16))
	}
	for _, b := range bodies {
		out = append(out, b...)
	}
	filt := "normal"
	if simple {
		filt = "simple"
	}
	desc := fmt.Sprintf("%dx%d q%d %s-filter level%d sharp%d%s seg=%v(map=%v data=%v abs=%v) parts%d skipflag=%v probupd%d zero-coded-mbs%d", w, h, baseQ, filt, level, sharp, deltaDesc, useSeg, updMap, updData, segAbs, nParts, useSkip, nUpd, allZeroCoded)
	if force != "" {
		desc += " " + force
	}
	return genVP8{Bytes: out, W: w, H: h, Desc: desc}
}
