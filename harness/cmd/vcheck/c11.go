package main

import (
	"bytes"
	"encoding/json"
	"fmt"
	"image"
	"math/rand"
	"os"
	"os/exec"
	"runtime"
	"runtime/debug"
	"strconv"
	"strings"
	"time"

	"github.com/deepteams/webp"
	"github.com/deepteams/webp/animation"
	"github.com/deepteams/webp/internal/dsp"
	"github.com/deepteams/webp/internal/verifhook"
	"github.com/deepteams/webp/mux"
	"github.com/deepteams/webp/verifx/vx"
)

func init() {
	register("C11", checkC11)
	register("C11-child", c11Child)
}

// histCall is one call of the C11 alphabet (ids are those of spec/Pool.tla).
type histCall struct {
	name string
	pool string // hook counter that must move when the model predicts reuse
	run  func() (digest string, keep any)
}

// corruptPayload keeps the container valid and damages the bitstream in the middle.
func corruptPayload(file []byte, tag string) []byte {
	out := append([]byte(nil), file...)
	p := findChunk(out, tag)
	if p == nil {
		vx.Fatal2("corruptPayload: no %s chunk", tag)
	}
	for i := len(p) / 2; i < len(p); i++ {
		p[i] = byte(i * 37)
	}
	return out
}

// buildHistCalls builds the call alphabet. The encoder-output files that the Decode calls need are produced once by
// the parent (filesDir empty -> encode and remember) and loaded from filesDir by children, so that a child process
// really is fresh: it has made no library call before the history it is asked to run.
func buildHistCalls(filesDir string) ([]histCall, [][]byte) {
	rng := rand.New(rand.NewSource(20260923)) // fixed: parent and children must build identical inputs
	img := map[string]*image.NRGBA{
		"33x17": noiseNRGBA(rng, 33, 17, 0), "48x32": noiseNRGBA(rng, 48, 32, 0), "40x24a": noiseNRGBA(rng, 40, 24, 2),
		"96x128": noiseNRGBA(rng, 96, 128, 0), "80x64": noiseNRGBA(rng, 80, 64, 0), "80x64b": gradientAlpha(rng, 80, 64),
		"pal": palettedNRGBA(rng, 20, 20, 7), "64x64": noiseNRGBA(rng, 64, 64, 0), "64x80a": gradientAlpha(rng, 64, 80),
	}
	// lossless pictures whose coding depends on the colour cache and on backward references: a few hundred colours in
	// runs, photo-like texture, and a second picture of the same size with other content
	few := image.NewNRGBA(image.Rect(0, 0, 128, 96))
	other := image.NewNRGBA(image.Rect(0, 0, 128, 96))
	photoLike := image.NewNRGBA(image.Rect(0, 0, 96, 96))
	var cols [300][3]uint8
	for i := range cols {
		cols[i] = [3]uint8{uint8(rng.Intn(256)), uint8(rng.Intn(256)), uint8(rng.Intn(256))}
	}
	for y := 0; y < 96; y++ {
		for x := 0; x < 128; x++ {
			c := cols[(x/3*7+y/2*13+rng.Intn(2))%len(cols)]
			i := few.PixOffset(x, y)
			few.Pix[i], few.Pix[i+1], few.Pix[i+2], few.Pix[i+3] = c[0], c[1], c[2], 255
			c = cols[(x/2*5+y*3+rng.Intn(3))%97]
			other.Pix[i], other.Pix[i+1], other.Pix[i+2], other.Pix[i+3] = c[2], c[0], c[1], 255
			if x < 96 {
				j := photoLike.PixOffset(x, y)
				photoLike.Pix[j], photoLike.Pix[j+1], photoLike.Pix[j+2], photoLike.Pix[j+3] = uint8(x*2+rng.Intn(6)), uint8(y*2+rng.Intn(6)), uint8((x+y)+rng.Intn(9)), 255
			}
		}
	}
	img["128x96few"], img["128x96other"], img["96x96photo"] = few, other, photoLike
	img["17x17"], img["32x32"] = lossyPicture(rng, 17, 17, "graded"), noiseNRGBA(rng, 32, 32, 0)
	tz := noiseNRGBA(rng, 48, 32, 0)
	for y := 0; y < 32; y++ {
		for x := 0; x < 48; x++ {
			if (x/5+y/3)%3 == 0 {
				tz.Pix[tz.PixOffset(x, y)+3] = 0 // transparent, colour stays
			}
		}
	}
	img["tzero48x32"] = tz
	img["64x64noise"] = noiseNRGBA(rng, 64, 64, 0) // every pixel another colour: the colour-cache estimate has no true hits
	// smooth content so that lossless analysis has real choices
	for y := 0; y < 64; y++ {
		for x := 0; x < 64; x++ {
			i := img["64x64"].PixOffset(x, y)
			img["64x64"].Pix[i], img["64x64"].Pix[i+1], img["64x64"].Pix[i+2] = uint8(x*4+rng.Intn(3)), uint8(y*4), uint8((x+y)*2+rng.Intn(5))
		}
	}
	type encSpec struct {
		im string
		o  webp.EncoderOptions
	}
	encs := []encSpec{
		0:  {"33x17", webp.EncoderOptions{Quality: 60, Method: 4}},
		1:  {"48x32", webp.EncoderOptions{Quality: 40, Method: 4, Segments: 2, FilterStrength: 20}},
		2:  {"48x32", webp.EncoderOptions{Quality: 80, Method: 6, Partitions: 2}},
		3:  {"40x24a", webp.EncoderOptions{Quality: 60, Method: 3}},
		4:  {"96x128", webp.EncoderOptions{Quality: 70, Method: 4}},
		5:  {"96x128", webp.EncoderOptions{Quality: 50, Method: 3, SNSStrength: 80}},
		6:  {"80x64", webp.EncoderOptions{Quality: 55, Method: 0}},
		7:  {"80x64b", webp.EncoderOptions{Quality: 65, Method: 4, Preprocessing: 2, Segments: 3}},
		8:  {"33x17", webp.EncoderOptions{Lossless: true, Quality: 75, Method: 4}},
		9:  {"pal", webp.EncoderOptions{Lossless: true, Quality: 90, Method: 6}},
		10: {"64x64", webp.EncoderOptions{Lossless: true, Quality: 80, Method: 4}},
		11: {"64x80a", webp.EncoderOptions{Lossless: true, Quality: 50, Method: 3, Exact: true}},
		12: {"128x96few", webp.EncoderOptions{Lossless: true, Quality: 90, Method: 4}},
		13: {"96x96photo", webp.EncoderOptions{Lossless: true, Quality: 100, Method: 6}},
		14: {"128x96other", webp.EncoderOptions{Lossless: true, Quality: 95, Method: 3}},
		15: {"64x64noise", webp.EncoderOptions{Lossless: true, Quality: 90, Method: 4, Exact: true}},
		// 16: transparent pixels that carry colour, kept by Exact (file #16 is what call 42 decodes and re-encodes);
		// 17, 18: the sharp-YUV plane import on a picture that does not fill its 2x2 macroblock grid, and another
		// picture on the same grid
		16: {"tzero48x32", webp.EncoderOptions{Lossless: true, Quality: 60, Method: 3, Exact: true}},
		17: {"17x17", webp.EncoderOptions{Quality: 60, Method: 4, UseSharpYUV: true}},
		18: {"32x32", webp.EncoderOptions{Quality: 70, Method: 4}},
	}
	callOf := func(i int) int { // position of encode spec i in the call alphabet (ids 12..24 and 28, 29 were taken first)
		if i >= 16 {
			return i + 23
		}
		if i >= 15 {
			return i + 15
		}
		if i >= 12 {
			return i + 13
		}
		return i
	}
	for i := range encs {
		if i != 1 && i != 6 { // 1 and 6 stay zero-valued literals (SNS/filter off)
			encs[i].o = withDefaults(encs[i].o)
		}
	}
	files := make([][]byte, len(encs)+10)
	calls := make([]histCall, 43)
	for i, e := range encs {
		i, e := i, e
		if filesDir == "" {
			oo := e.o
			files[i] = mustEncode(img[e.im], &oo)
		} else {
			b, err := os.ReadFile(fmt.Sprintf("%s/file%d.webp", filesDir, i))
			if err != nil {
				vx.Fatal2("child: %v", err)
			}
			files[i] = b
		}
		pool := "lossy.VP8Encoder"
		if e.o.Lossless {
			pool = ""
		}
		calls[callOf(i)] = histCall{fmt.Sprintf("Encode#%d(%s,%s)", callOf(i), e.im, optName(e.o)), pool, func() (string, any) {
			o2 := e.o
			var buf bytes.Buffer
			if err := webp.Encode(&buf, img[e.im], &o2); err != nil {
				return "error: " + err.Error(), nil
			}
			return fmt.Sprintf("%d bytes %x", buf.Len(), hashBytes(buf.Bytes())), buf.Bytes()
		}}
	}
	dec := func(id int, name string, data []byte, pool string) {
		calls[id] = histCall{name, pool, func() (string, any) {
			im, err := webp.Decode(bytes.NewReader(data))
			if err != nil {
				return "error: " + err.Error(), nil
			}
			return digestImage(im), im
		}}
	}
	dec(12, "Decode(file#0)", files[0], "lossy.Decoder")
	dec(13, "Decode(file#3 lossy+alpha)", files[3], "lossy.Decoder")
	dec(14, "Decode(file#4)", files[4], "lossy.Decoder")
	dec(15, "Decode(file#6)", files[6], "lossy.Decoder")
	dec(16, "Decode(file#8 lossless)", files[8], "lossless.Decoder")
	dec(17, "Decode(file#9 palette)", files[9], "lossless.Decoder")
	dec(18, "Decode(file#11 lossless alpha)", files[11], "lossless.Decoder")
	// an image handed out by Decode is given to a lossy Encode (Exact off: the encoder smooths the colour under
	// transparent pixels - in a copy): the image must be what it was
	calls[42] = histCall{"Decode(file#16 lossless, coloured transparent pixels) then lossy Encode of the returned image", "", func() (string, any) {
		im, err := webp.Decode(bytes.NewReader(files[16]))
		if err != nil {
			return "error: " + err.Error(), nil
		}
		before := digestImage(im)
		var buf bytes.Buffer
		if err := webp.Encode(&buf, im, &webp.EncoderOptions{Quality: 60, Method: 3}); err != nil {
			return "error: " + err.Error(), nil
		}
		s := fmt.Sprintf("%s -> %d bytes %x", before, buf.Len(), hashBytes(buf.Bytes()))
		if digestImage(im) != before {
			s += " IMAGE-MODIFIED-BY-ENCODE"
		}
		return s, im
	}}
	// call 19 (a lossy decode that really fails inside the bitstream) is registered below, once its input file is known

	dec(20, "Decode(corrupted file#10: fails mid-stream)", corruptPayload(files[10], "VP8L"), "lossless.Decoder")
	animIn := []*image.NRGBA{noiseNRGBA(rng, 24, 20, 1), noiseNRGBA(rng, 24, 20, 2)}
	calls[21] = histCall{"AnimEncode+playback", "", func() (string, any) {
		var buf bytes.Buffer
		e := animation.NewEncoder(&buf, 24, 20, &animation.EncodeOptions{Quality: 70, AllowMixed: true})
		for i, p := range animIn {
			if err := e.AddFrame(p, time.Duration(10*(i+1))*time.Millisecond); err != nil {
				return "error: " + err.Error(), nil
			}
		}
		if err := e.Close(); err != nil {
			return "error: " + err.Error(), nil
		}
		a, err := animation.DecodeBytes(buf.Bytes())
		if err != nil {
			return "error: " + err.Error(), nil
		}
		if err := a.DecodeFrames(); err != nil {
			return "error: " + err.Error(), nil
		}
		d, _ := animation.NewAnimDecoder(a)
		s := fmt.Sprintf("%x", hashBytes(buf.Bytes()))
		for d.HasNext() {
			fr, _, err := d.NextFrame()
			if err != nil {
				return "error: " + err.Error(), nil
			}
			s += fmt.Sprintf(":%x", hashNRGBA(fr))
		}
		return s, buf.Bytes()
	}}
	vp8 := findChunk(files[0], "VP8 ")
	calls[22] = histCall{"Mux+Demux", "", func() (string, any) {
		m := mux.NewMuxer()
		m.AddFrame(vp8, &mux.FrameOptions{Duration: 5})
		m.AddFrame(vp8, &mux.FrameOptions{Duration: 6, OffsetX: 2})
		m.SetCanvasSize(40, 20)
		var buf bytes.Buffer
		if err := m.Assemble(&buf); err != nil {
			return "error: " + err.Error(), nil
		}
		d, err := mux.NewDemuxer(buf.Bytes())
		if err != nil {
			return "error: " + err.Error(), nil
		}
		return fmt.Sprintf("%x/%d", hashBytes(buf.Bytes()), d.NumFrames()), buf.Bytes()
	}}
	// serial RGB->YUV import path (generic image type / dithering) on the same grid as calls 6, 7
	gen := genericImage{img["80x64"]}
	calls[23] = histCall{"Encode#23(80x64 opaque via generic image.Image, lossy m2)", "lossy.VP8Encoder", func() (string, any) {
		var buf bytes.Buffer
		if err := webp.Encode(&buf, gen, &webp.EncoderOptions{Quality: 60, Method: 2}); err != nil {
			return "error: " + err.Error(), nil
		}
		return fmt.Sprintf("%d bytes %x", buf.Len(), hashBytes(buf.Bytes())), buf.Bytes()
	}}
	calls[24] = histCall{"Encode#24(80x64 opaque, lossy m3 dithered)", "lossy.VP8Encoder", func() (string, any) {
		var buf bytes.Buffer
		if err := webp.Encode(&buf, img["80x64"], &webp.EncoderOptions{Quality: 45, Method: 3, Preprocessing: 2}); err != nil {
			return "error: " + err.Error(), nil
		}
		return fmt.Sprintf("%d bytes %x", buf.Len(), hashBytes(buf.Bytes())), buf.Bytes()
	}}
	// hand-assembled files whose ALPH chunk is stored raw (no compression) with a prediction filter: the inverse filter
	// runs over the chunk bytes. Still: webp.Decode; animation: DecodeBytes + DecodeFrames, whose frames alias the input.
	nEnc := len(encs)
	if filesDir == "" {
		vp8b := findChunk(files[3], "VP8 ")
		mk := func(filter int) []byte {
			p := make([]byte, 1+40*24)
			p[0] = byte(filter << 2)
			for i := 1; i < len(p); i++ {
				p[i] = byte(rng.Intn(7))
			}
			return p
		}
		files[nEnc] = wrapVP8X(40, 24, mk(1), vp8b)
		m := mux.NewMuxer()
		m.AddFrame(alphPrefixed(mk(3), vp8b), &mux.FrameOptions{Duration: 10})
		m.AddFrame(alphPrefixed(mk(2), vp8b), &mux.FrameOptions{Duration: 20})
		var ab bytes.Buffer
		if err := m.Assemble(&ab); err != nil {
			vx.Fatal2("C11: assembling the raw-ALPH animation: %v", err)
		}
		files[nEnc+1] = ab.Bytes()
		var lb bytes.Buffer
		le := animation.NewEncoder(&lb, 24, 20, &animation.EncodeOptions{Lossless: true, Quality: 60, Kmax: 4})
		fr0 := noiseNRGBA(rng, 24, 20, 2)
		for k := 0; k < 3; k++ {
			le.AddFrame(fr0, 20*time.Millisecond)
			fr0 = editPicture(rng, fr0, 2)
		}
		if err := le.Close(); err != nil {
			vx.Fatal2("C11: building the lossless animation: %v", err)
		}
		files[nEnc+2] = lb.Bytes()
		// a lossy file whose decode fails inside the bitstream: garbage in the payload usually still "decodes", so the
		// payload is cut (the frame header then announces more partition data than the chunk holds); the container
		// stays consistent. Chosen here, in the parent only: children must not make library calls before their history.
		bad := corruptPayload(files[4], "VP8 ")
		if _, err := webp.Decode(bytes.NewReader(bad)); err == nil {
			pl := findChunk(files[4], "VP8 ")
			for _, keep := range []int{len(pl) / 4, len(pl) / 2, 30, 12} {
				cand := wrapVP8(pl[:keep])
				if _, err := webp.Decode(bytes.NewReader(cand)); err != nil {
					bad = cand
					break
				}
			}
		}
		files[nEnc+3] = bad
		// four more lossy files cut at other places of their token data (where in a macroblock row the decoder gives up
		// decides what it leaves behind)
		pl4 := findChunk(files[4], "VP8 ")
		for k, num := range []int{1, 3, 5, 7} {
			files[nEnc+4+k] = wrapVP8(pl4[:len(pl4)*num/8])
		}
		// two foreign lossy key frames (48x32, the macroblock grid of calls 1, 2): one that updates the loop-filter
		// deltas, one that uses them without updating (the format then means "all zero"), both with a non-zero level
		grng := rand.New(rand.NewSource(777))
		fUpd := wrapVP8(genVP8Frame(grng, 3, 2, "lfdelta-all").Bytes)
		fNoUpd := wrapVP8(genVP8Frame(grng, 3, 2, "lfdelta-keep").Bytes)
		files[nEnc+8], files[nEnc+9] = fUpd, fNoUpd
	} else {
		for k := 0; k < 10; k++ {
			b, err := os.ReadFile(fmt.Sprintf("%s/file%d.webp", filesDir, nEnc+k))
			if err != nil {
				vx.Fatal2("child: %v", err)
			}
			files[nEnc+k] = b
		}
	}
	dec(19, "Decode(lossy file cut inside its token data: fails mid-picture)", files[nEnc+3], "lossy.Decoder")
	for k, num := range []int{1, 3, 5, 7} {
		dec(33+k, fmt.Sprintf("Decode(lossy file#4 cut to %d/8 of its payload)", num), files[nEnc+4+k], "lossy.Decoder")
	}
	dec(37, "Decode(foreign VP8 frame that updates the loop-filter deltas)", files[nEnc+8], "lossy.Decoder")
	dec(38, "Decode(foreign VP8 frame that uses loop-filter deltas without updating them)", files[nEnc+9], "lossy.Decoder")
	dec(29, "Decode(still with raw filtered ALPH)", files[nEnc], "lossy.Decoder")
	// a valid foreign lossless stream whose palette (17..255 colours) is smaller than the largest index used: the
	// format defines those pixels as transparent black, whatever an earlier decode left in the pooled buffers
	{
		grng := rand.New(rand.NewSource(424242))
		var chosen []byte
		desc := ""
		for try := 0; try < 4000 && chosen == nil; try++ {
			g := genVP8LWH(grng, 40, 30)
			if strings.Contains(g.Desc, " pal") && g.W*g.H >= 600 {
				var nc int
				for _, f := range strings.Fields(g.Desc) {
					if strings.HasPrefix(f, "pal") {
						fmt.Sscanf(f, "pal%d", &nc)
					}
				}
				fl := strings.Fields(g.Desc)
				onlyPalette := len(fl) > 2 && strings.HasPrefix(fl[1], "pal") && strings.HasPrefix(fl[2], "cache") // no other transform: the palette writes into the pooled buffer
				if nc >= 17 && nc <= 200 && onlyPalette {
					// index values are random bytes, so with 17 or 40 colours nearly every pixel lies beyond the palette
					chosen, desc = wrapVP8L(g.Bytes), g.Desc
				}
			}
		}
		if chosen == nil {
			vx.Fatal2("C11: no generated stream with a 17..200-colour palette")
		}
		dec(31, "Decode(generated VP8L "+desc+")", chosen, "lossless.Decoder")
	}
	// an AnimDecoder played to the end, Reset and replayed: the images handed out before the Reset must stay intact
	calls[32] = histCall{"AnimDecoder: play, Reset, replay (lossless 3-frame animation)", "", func() (string, any) {
		a, err := animation.DecodeBytes(files[nEnc+2])
		if err != nil {
			return "error: " + err.Error(), nil
		}
		if err := a.DecodeFrames(); err != nil {
			return "error: " + err.Error(), nil
		}
		d, err := animation.NewAnimDecoder(a)
		if err != nil {
			return "error: " + err.Error(), nil
		}
		var kept []*image.NRGBA
		var hashes []uint64
		s := ""
		for pass := 0; pass < 2; pass++ {
			for d.HasNext() {
				fr, _, err := d.NextFrame()
				if err != nil {
					return "error: " + err.Error(), nil
				}
				kept = append(kept, fr)
				hashes = append(hashes, hashNRGBA(fr))
				s += fmt.Sprintf("%x:", hashNRGBA(fr))
			}
			d.Reset()
		}
		for i, k := range kept {
			if hashNRGBA(k) != hashes[i] {
				s += fmt.Sprintf("IMAGE-%d-MODIFIED-AFTER-IT-WAS-RETURNED:", i)
			}
		}
		return s, nil
	}}
	animBytes := files[nEnc+1]
	animOrig := hashBytes(animBytes)
	calls[28] = histCall{"animation.DecodeBytes+DecodeFrames(raw filtered ALPH frames)", "", func() (string, any) {
		a, err := animation.DecodeBytes(animBytes)
		if err != nil {
			return "error: " + err.Error(), nil
		}
		if err := a.DecodeFrames(); err != nil {
			return "error: " + err.Error(), nil
		}
		s := ""
		for _, f := range a.Frames {
			if nr, ok := f.Image.(*image.NRGBA); ok {
				s += fmt.Sprintf("%x:", hashNRGBA(nr))
			} else {
				s += fmt.Sprintf("%T:", f.Image)
			}
		}
		if hashBytes(animBytes) != animOrig {
			s += "INPUT-BYTES-MODIFIED"
		}
		return s, nil
	}}
	return calls, files
}

func optName(o webp.EncoderOptions) string {
	if o.Lossless {
		return fmt.Sprintf("lossless q%v m%d exact=%v", o.Quality, o.Method, o.Exact)
	}
	return fmt.Sprintf("lossy q%v m%d seg%d part%d sns%d pre%d", o.Quality, o.Method, o.Segments, o.Partitions, o.SNSStrength, o.Preprocessing)
}

func keepHash(k any) uint64 {
	switch v := k.(type) {
	case []byte:
		return hashBytes(v)
	case *image.NRGBA:
		return hashNRGBA(v)
	case *image.YCbCr:
		return hashBytes(v.Y, v.Cb, v.Cr)
	}
	return 0
}

// c11Child runs a comma-separated history in this (fresh) process and prints one digest per call.
func c11Child(args []string) {
	if n, err := strconv.Atoi(os.Getenv("VERIF_PROCS")); err == nil {
		runtime.GOMAXPROCS(n)
	} else {
		runtime.GOMAXPROCS(8)
	}
	if os.Getenv("VERIF_GC") == "" {
		debug.SetGCPercent(-1)
	}
	if os.Getenv("VERIF_PORTABLE") != "" {
		dsp.Init() // pure-Go kernels
	}
	calls, _ := buildHistCalls(os.Getenv("VERIF_C11_FILES"))
	for _, s := range strings.Split(args[0], ",") {
		i, _ := strconv.Atoi(s)
		d, keep := calls[i].run()
		fmt.Printf("DIGEST %d %s\n", i, d)
		if dir := os.Getenv("VERIF_DUMP"); dir != "" {
			if b, ok := keep.([]byte); ok {
				os.WriteFile(fmt.Sprintf("%s/call%d_%x.bin", dir, i, hashBytes(b)), b, 0o644)
			}
		}
	}
}

var c11FilesDir string

func runChild(hist []int) []string {
	var ss []string
	for _, h := range hist {
		ss = append(ss, strconv.Itoa(h))
	}
	cmd := exec.Command(os.Args[0], "C11-child", strings.Join(ss, ","))
	cmd.Env = append(os.Environ(), "VERIF_C11_FILES="+c11FilesDir)
	out, err := cmd.CombinedOutput()
	if err != nil {
		vx.Fatal2("C11 child failed: %v\n%s", err, tailStr(string(out), 800))
	}
	var ds []string
	for _, ln := range strings.Split(string(out), "\n") {
		if strings.HasPrefix(ln, "DIGEST ") {
			ds = append(ds, strings.SplitN(ln, " ", 3)[2])
		}
	}
	if len(ds) != len(hist) {
		vx.Fatal2("C11 child returned %d digests for %d calls", len(ds), len(hist))
	}
	return ds
}

func checkC11(args []string) {
	run := vx.NewRun("C11", "model_checking", args)
	activeRun = run
	run.Rule = "TLC enumerates all call histories up to MAXLEN over the 43-call alphabet of spec/Pool.tla (lossy/lossless encodes and decodes with equal and different macroblock grids, parallel and serial paths, partitions/segments/SNS/dither/alpha options, decodes that fail mid-picture, animation, mux) together with the predicted pool reuse; every history is executed in one process with empty pools at its start and GC off; each result is compared with the same call made FIRST in a fresh process; all previously returned images/byte slices are re-hashed after every later call. distinct = distinct histories in which the model predicts (and the hook counters confirm) at least one reuse"
	run.Assumptions = []string{"a fresh child process executing the call first defines Fresh(args)", "sync.Pool may drop objects: a predicted reuse that did not happen is reported as not covered, never as a violation", "GOMAXPROCS fixed to 8"}
	runtime.GOMAXPROCS(8)
	calls, files := buildHistCalls("")
	dir, err := os.MkdirTemp("", "vx-c11-")
	if err != nil {
		vx.Fatal2("%v", err)
	}
	defer os.RemoveAll(dir)
	for i, f := range files {
		os.WriteFile(fmt.Sprintf("%s/file%d.webp", dir, i), f, 0o644)
	}
	c11FilesDir = dir
	ids := make([]string, len(calls))
	for i := range calls {
		ids[i] = strconv.Itoa(i)
	}
	maxlen := run.Pick(2, 3)
	gen := vx.MustTLC(vx.TLCOpts{Module: "Pool", Cfg: fmt.Sprintf("SPECIFICATION Spec\nCONSTANTS MAXLEN = %d\nCALLS = {%s}\nINVARIANT Emit\nCHECK_DEADLOCK FALSE\n", maxlen, strings.Join(ids, ", ")), Workers: 1, Timeout: 30 * time.Minute})
	run.AddTLC(gen)
	type hcase struct {
		Hist  []int  `json:"hist"`
		Reuse []bool `json:"reuse"`
	}
	var cases []hcase
	for _, raw := range gen.Tagged("CASE") {
		var c hcase
		if err := json.Unmarshal(raw, &c); err != nil {
			vx.Fatal2("CASE: %v", err)
		}
		if len(c.Hist) == maxlen || len(c.Hist) == 1 {
			cases = append(cases, c)
		}
	}
	if run.Replay != "" {
		b, _ := readFile(run.Replay)
		var v struct{ Replay []int }
		json.Unmarshal(b, &v)
		cases = []hcase{{Hist: v.Replay, Reuse: make([]bool, len(v.Replay))}}
	}
	// Fresh(args): every call made first in its own process
	fresh := make([]string, len(calls))
	for i := range calls {
		fresh[i] = runChild([]int{i})[0]
	}
	debug.SetGCPercent(-1)
	confirmed, missed := 0, 0
	for ci, c := range cases {
		runtime.GC() // empties the pools: the history starts as the model's Init
		runtime.GC()
		var kept []any
		var keptHash []uint64
		var keptBy []int
		reused := false
		for k, id := range c.Hist {
			before := verifhook.PoolHits()[calls[id].pool]
			d, keep := calls[id].run()
			after := verifhook.PoolHits()[calls[id].pool]
			if c.Reuse[k] && calls[id].pool != "" {
				if after > before {
					confirmed++
					reused = true
				} else {
					missed++
				}
			}
			if strings.Contains(d, "MODIFIED") {
				run.Violate(fmt.Sprintf("returned-value-modified|%s", calls[id].name), fmt.Sprintf("history %v: %s reports %q", c.Hist[:k+1], calls[id].name, d), c.Hist[:k+1])
			}
			if d != fresh[id] {
				// confirm from a fresh process running exactly this history
				iso := runChild(c.Hist[:k+1])
				how := "reproduced by a fresh process running exactly this history"
				if iso[k] == fresh[id] {
					how = "seen in the long-lived checking process only (not reproduced by the history alone)"
				}
				prev := "first call"
				if k > 0 {
					prev = calls[c.Hist[k-1]].name
				}
				run.Violate(fmt.Sprintf("result-depends-on-history|%s", calls[id].name),
					fmt.Sprintf("history %v: %s after %s returned %q, a fresh process returns %q (%s)", c.Hist[:k+1], calls[id].name, prev, d, fresh[id], how), c.Hist[:k+1])
			}
			for j, kp := range kept {
				if keepHash(kp) != keptHash[j] {
					run.Violate(fmt.Sprintf("returned-value-modified|%s|by %s", calls[keptBy[j]].name, calls[id].name),
						fmt.Sprintf("history %v: the value returned by %s was modified by the later call %s", c.Hist[:k+1], calls[keptBy[j]].name, calls[id].name), c.Hist[:k+1])
				}
			}
			if keep != nil {
				kept = append(kept, keep)
				keptHash = append(keptHash, keepHash(keep))
				keptBy = append(keptBy, id)
			}
		}
		sig := ""
		if reused {
			sig = fmt.Sprint(c.Hist)
		}
		run.Eval(sig)
		run.AddTraces(1)
		if ci%211 == 0 {
			names := []string{}
			for _, id := range c.Hist {
				names = append(names, calls[id].name)
			}
			run.Sample(map[string]any{"history": names, "predicted_reuse": c.Reuse})
		}
	}
	run.Cov["predicted_reuse_confirmed_by_hook"] = confirmed
	run.Cov["predicted_reuse_not_observed"] = missed
	run.Cov["pool_hits"] = verifhook.PoolHits()
	os.RemoveAll(dir)
	run.Finish()
}
