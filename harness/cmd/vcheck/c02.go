package main

import (
	"fmt"
	"image"
	"math/rand"
	"strings"
	"time"

	"github.com/deepteams/webp"
	"github.com/deepteams/webp/verifx/vx"
)

func init() { register("C02", checkC02) }

func checkC02(args []string) {
	run := vx.NewRun("C02", "translation_validation", args)
	activeRun = run
	run.Rule = "the lossy option product of C06 and the lossless product of C01, crossed with alpha classes, picture placements (origin, sub-image with non-zero origin), source types and every subset of ICC/EXIF/XMP with odd/even/chunk-like blobs; for every Encode that returns nil the written bytes are the trace: (a) the strict TLA+ container reader (spec/Riff.tla via TVFiles) must accept them as exactly one RIFF/WebP file whose sizes, padding, chunk order, VP8X flags, canvas and bitstream-header dimensions match the source picture, with alpha announced when the source has a non-opaque pixel and no ALPH for an opaque lossy source; (b) webp.Decode must accept them; (c) for small pictures the image chunk is decoded by the independent TLA+ readers (Vp8.tla planes = decoder planes, partitions not over-read; Vp8l.tla pixels = source pixels; Alph.tla plane = decoder alpha). distinct = distinct (codec, option class, alpha class, placement, metadata subset) cases"
	run.Assumptions = []string{"independent decoding is limited to small pictures; larger ones are validated at container level and by the real decoder", "the partition-0 overflow case (>= 75 megapixels of noise) runs in the thorough tier only"}
	rng := rand.New(rand.NewSource(run.Seed))
	var files []vx.FileCase
	var l8 []vp8Line
	var ll []vp8lLine
	var la []alphLine
	info := map[string]string{}
	n := run.Pick(700, 9000)
	nV8, nVL := 0, 0
	for i := 0; i < n; i++ {
		lossless := rng.Intn(3) == 0
		w, h := 1+rng.Intn(40), 1+rng.Intn(40)
		if rng.Intn(4) == 0 {
			w, h = 40+rng.Intn(170), 40+rng.Intn(120)
		}
		alphaMode := []int{0, 0, 1, 2, 3}[rng.Intn(5)]
		var o webp.EncoderOptions
		if lossless {
			o = webp.EncoderOptions{Lossless: true, Quality: float32(c01Qualities[rng.Intn(len(c01Qualities))]), Method: rng.Intn(7), Exact: rng.Intn(2) == 0}
		} else {
			o = randomLossyOptions(rng)
			o.Exact = rng.Intn(2) == 0
			o.AlphaCompression = []int{0, 1, -1}[rng.Intn(3)]
			o.AlphaFiltering = []int{0, 1, 2, -1}[rng.Intn(4)]
			o.AlphaQuality = []int{0, 50, 100, -1, -1}[rng.Intn(5)]
		}
		meta := rng.Intn(8)
		if rng.Intn(2) == 0 {
			meta = 0
		}
		blob := func(k int) []byte {
			return [][]byte{{7}, {1, 2}, []byte("VP8 \x03\x00\x00\x00abc"), []byte("RIFF\x04\x00\x00\x00WEBP"), make([]byte, 301)}[rng.Intn(5)]
		}
		if meta&1 != 0 {
			o.ICC = blob(0)
		}
		if meta&2 != 0 {
			o.EXIF = blob(1)
		}
		if meta&4 != 0 {
			o.XMP = blob(2)
		}
		// placement: plain, or a sub-image view with a non-zero origin inside a larger parent
		// content classes: noise (every macroblock coded), graded texture, smooth photo-like and flat pictures
		// (many skipped macroblocks), each optionally with the alpha class painted on
		base := noiseNRGBA(rng, w+7, h+5, alphaMode)
		if k := rng.Intn(4); k > 0 {
			base = lossyPicture(rng, w+7, h+5, []string{"", "graded", "smooth", "flat"}[k])
			if alphaMode != 0 {
				am := noiseNRGBA(rng, w+7, h+5, alphaMode)
				for q := 3; q < len(base.Pix); q += 4 {
					base.Pix[q] = am.Pix[q]
				}
			}
		}
		var img image.Image
		placement := "origin"
		ox, oy := 0, 0
		if rng.Intn(3) == 0 {
			ox, oy = 1+rng.Intn(6), 1+rng.Intn(4)
			placement = "subimage"
		}
		sub := base.SubImage(image.Rect(ox, oy, ox+w, oy+h)).(*image.NRGBA)
		img = sub
		typ := "NRGBA"
		if placement == "origin" && rng.Intn(4) == 0 {
			typ = "generic"
			img = genericImage{sub}
		}
		want := image.NewNRGBA(image.Rect(0, 0, w, h))
		hasAlpha := false
		for y := 0; y < h; y++ {
			for x := 0; x < w; x++ {
				c := sub.NRGBAAt(ox+x, oy+y)
				want.SetNRGBA(x, y, c)
				if c.A != 255 {
					hasAlpha = true
				}
			}
		}
		codec := "lossy " + lossyOptName(o)
		if lossless {
			codec = fmt.Sprintf("lossless q%v m%d", o.Quality, o.Method)
		}
		name := fmt.Sprintf("%dx%d alpha%d %s %s meta%d exact=%v %s", w, h, alphaMode, placement, typ, meta, o.Exact, codec)
		sig := fmt.Sprintf("lossless=%v|alpha=%v|%s|%s|meta%d|m%d|part%d", lossless, hasAlpha, placement, typ, meta, o.Method, o.Partitions)
		out, err, pan := safeEncode(img, &o)
		if pan != nil {
			run.Violate("panic|"+sig, name+": "+fmt.Sprint(pan), name)
			continue
		}
		if err != nil {
			continue // C02 is about successful Encodes (C20 covers option validity)
		}
		run.Eval(sig + fmt.Sprintf("|%dx%d", (w+15)/16, (h+15)/16))
		id := fmt.Sprintf("f%d", i)
		info[id] = name + "||" + sig
		e := vx.NewExpect("input")
		e.W, e.H = w, h
		if hasAlpha {
			e.Alpha = 1
		} else if !lossless {
			e.Alpha = 0
		}
		e.ICC, e.EXIF, e.XMP = vx.MetaInts(o.ICC, len(o.ICC) > 0), vx.MetaInts(o.EXIF, len(o.EXIF) > 0), vx.MetaInts(o.XMP, len(o.XMP) > 0)
		e.NFrames = 1
		fe := vx.NewFrameExp()
		fe.W, fe.H = w, h
		e.Frames = []vx.FrameExp{fe}
		files = append(files, vx.FileCase{ID: id, Must: "accept", Bytes: vx.Ints(out), X: []vx.Expect{e}})
		dec, derr := guardedDecode(out)
		if derr != nil {
			run.Violate("undecodable|"+sig, name+": Encode returned nil but Decode fails: "+derr.Error(), name)
			continue
		}
		if dec.Bounds().Dx() != w || dec.Bounds().Dy() != h {
			run.Violate("decoded-size|"+sig, fmt.Sprintf("%s: decoded %v", name, dec.Bounds()), name)
			continue
		}
		small := w <= 48 && h <= 48
		if lossless && w*h <= 1100 && nVL < run.Pick(150, 2500) {
			nVL++
			if p := findChunk(out, "VP8L"); p != nil {
				ll = append(ll, vp8lLine{ID: id, Bytes: vx.Ints(p), W: w, H: h, Pix: argbList(want), TZero: b2i(!o.Exact)})
			}
		}
		if !lossless && small && nV8 < run.Pick(130, 2200) {
			nV8++
			if p := findChunk(out, "VP8 "); p != nil {
				ln := vp8Line{ID: id, Bytes: vx.Ints(p), W: w, H: h, RY: []int{}, RU: []int{}, RV: []int{}}
				if y, u, v, ok := ycbcrPlanes(dec); ok {
					ln.Y, ln.U, ln.V = y, u, v
				} else {
					ln.Y, ln.U, ln.V = []int{}, []int{}, []int{} // NRGBA result (alpha): planes validated by header/partition checks only
				}
				l8 = append(l8, ln)
			}
			if a := findChunk(out, "ALPH"); a != nil {
				q := o.AlphaQuality
				if q < 0 {
					q = 100
				}
				src := make([]int, 0, w*h)
				for k := 3; k < len(want.Pix); k += 4 {
					src = append(src, int(want.Pix[k]))
				}
				la = append(la, alphLine{ID: id, Bytes: vx.Ints(a), W: w, H: h, Q: q, Src: src, Real: alphaOf(dec)})
			}
		}
		if i%300 == 0 {
			run.Sample(map[string]any{"case": name, "bytes": len(out)})
		}
	}
	// large size fields: token partitions above 64 KiB (24-bit entries of the partition table), an ALPH chunk and a
	// VP8L chunk of several hundred kilobytes. Pictures are noise, so every byte count is large. The written files go
	// through the strict reader like all others; they must decode, and the partitioned encodes must decode to the
	// pixels of the unpartitioned one (partitioning only distributes the same tokens).
	{
		noise := noiseNRGBA(rng, 512, 512, 0)
		var ref image.Image
		for _, parts := range []int{0, 1, 3} {
			o := *webp.DefaultOptions()
			o.Quality, o.Method, o.Partitions = 95, 2, parts
			name := fmt.Sprintf("512x512 noise lossy q95 m2 partitions=%d (token partitions above 64 KiB)", parts)
			out, err, pan := safeEncode(noise, &o)
			run.Eval(name)
			if pan != nil || err != nil {
				run.Violate("encode-fails|large-partitions", fmt.Sprintf("%s: %v %v", name, err, pan), name)
				continue
			}
			id := fmt.Sprintf("big-p%d", parts)
			e := vx.NewExpect("source")
			e.W, e.H, e.Anim, e.Alpha, e.NFrames = 512, 512, 0, 0, 1
			files = append(files, vx.FileCase{ID: id, Must: "accept", Bytes: vx.Ints(out), X: []vx.Expect{e}})
			info[id] = name + "||large-partitions"
			im, derr := guardedDecode(out)
			if derr != nil {
				run.Violate("undecodable|large-partitions", name+": Encode returned nil but Decode fails: "+derr.Error(), name)
				continue
			}
			if ref == nil {
				ref = im
			} else if !sameImage(im, ref) {
				run.Violate("pixels|large-partitions", name+": decodes to other pixels than the unpartitioned encode", name)
			}
		}
		// busy pictures in which only a handful of macroblocks have all-zero coefficients (one small flat patch): the
		// share of skipped macroblocks lies near 1 %, where encoders decide whether signalling skips pays off
		for pi, patch := range [][4]int{{96, 64, 32, 32}, {0, 0, 16, 16}, {208, 224, 48, 32}} {
			busy := noiseNRGBA(rng, 256, 256, 0)
			for y := patch[1]; y < patch[1]+patch[3]; y++ {
				for x := patch[0]; x < patch[0]+patch[2]; x++ {
					i := busy.PixOffset(x, y)
					busy.Pix[i], busy.Pix[i+1], busy.Pix[i+2] = 90, 140, 60
				}
			}
			var ref image.Image
			for _, parts := range []int{0, 1, 2} {
				o := *webp.DefaultOptions()
				o.Quality, o.Method, o.Partitions = float32(60+10*pi), 2+pi, parts
				name := fmt.Sprintf("256x256 noise with a flat %dx%d patch at (%d,%d) lossy q%v m%d partitions=%d", patch[2], patch[3], patch[0], patch[1], o.Quality, o.Method, parts)
				out, err, pan := safeEncode(busy, &o)
				run.Eval(name)
				if pan != nil || err != nil {
					run.Violate("encode-fails|few-skipped-macroblocks", fmt.Sprintf("%s: %v %v", name, err, pan), name)
					continue
				}
				id := fmt.Sprintf("skip-%d-p%d", pi, parts)
				e := vx.NewExpect("source")
				e.W, e.H, e.Anim, e.Alpha, e.NFrames = 256, 256, 0, 0, 1
				files = append(files, vx.FileCase{ID: id, Must: "accept", Bytes: vx.Ints(out), X: []vx.Expect{e}})
				info[id] = name + "||few-skipped-macroblocks"
				im, derr := guardedDecode(out)
				if derr != nil {
					run.Violate("undecodable|few-skipped-macroblocks", name+": Encode returned nil but Decode fails: "+derr.Error(), name)
					continue
				}
				if ref == nil {
					ref = im
					// the flat patch must come back flat (its macroblocks carry no coefficients): a decoder that lost
					// synchronisation paints noise there
					if yc, ok := im.(*image.YCbCr); ok {
						cx, cy := patch[0]+patch[2]/2, patch[1]+patch[3]/2
						if d := int(yc.Y[yc.YOffset(cx, cy)]) - int(yc.Y[yc.YOffset(cx+1, cy+1)]); d > 24 || d < -24 {
							run.Violate("pixels|few-skipped-macroblocks", fmt.Sprintf("%s: the flat patch decodes with a luma step of %d between neighbours", name, d), name)
						}
					}
				} else if !sameImage(im, ref) {
					run.Violate("pixels|few-skipped-macroblocks", name+": decodes to other pixels than the unpartitioned encode", name)
				}
			}
		}
		an := noiseNRGBA(rng, 600, 400, 2)
		for _, c := range []struct {
			name string
			o    webp.EncoderOptions
		}{{"600x400 noise alpha, raw ALPH (240 000 bytes)", func() webp.EncoderOptions {
			o := *webp.DefaultOptions()
			o.AlphaCompression, o.Method = 0, 1
			return o
		}()}, {"400x300 noise lossless (VP8L chunk of several hundred KiB)", webp.EncoderOptions{Lossless: true, Quality: 20, Method: 0, Exact: true}}} {
			var src *image.NRGBA = an
			if c.o.Lossless {
				src = an.SubImage(image.Rect(0, 0, 400, 300)).(*image.NRGBA)
			}
			oo := c.o
			out, err, pan := safeEncode(src, &oo)
			run.Eval(c.name)
			if pan != nil || err != nil {
				run.Violate("encode-fails|large-chunks", fmt.Sprintf("%s: %v %v", c.name, err, pan), c.name)
				continue
			}
			id := fmt.Sprintf("big-%d", len(files))
			e := vx.NewExpect("source")
			e.W, e.H, e.Anim, e.Alpha, e.NFrames = src.Bounds().Dx(), src.Bounds().Dy(), 0, 1, 1
			files = append(files, vx.FileCase{ID: id, Must: "accept", Bytes: vx.Ints(out), X: []vx.Expect{e}})
			info[id] = c.name + "||large-chunks"
			im, derr := guardedDecode(out)
			if derr != nil {
				run.Violate("undecodable|large-chunks", c.name+": Encode returned nil but Decode fails: "+derr.Error(), c.name)
				continue
			}
			// alpha is exact in both (AlphaQuality 100 / lossless); lossless also keeps the colours
			b := src.Bounds()
			for y := 0; y < b.Dy(); y++ {
				for x := 0; x < b.Dx(); x++ {
					g, w := colorToNRGBA8(im, x, y), src.NRGBAAt(b.Min.X+x, b.Min.Y+y)
					if g[3] != int(w.A) || (c.o.Lossless && (g[0] != int(w.R) || g[1] != int(w.G) || g[2] != int(w.B))) {
						run.Violate("pixels|large-chunks", fmt.Sprintf("%s: pixel (%d,%d) decodes to %v, source %v", c.name, x, y, g, w), c.name)
						y = b.Dy()
						break
					}
				}
			}
		}
	}
	// pictures larger than the backward-reference window with repeats at its limits: a lossless file, and a lossy file
	// whose ALPH plane (Method 6: full window) is such a picture. Encode returned nil, so the file must decode, to the
	// source (lossless) / to the source alpha (ALPH)
	{
		far := farMatchPicture(rng)
		withAlpha := image.NewNRGBA(far.Rect)
		for i := 0; i < len(far.Pix); i += 4 {
			withAlpha.Pix[i], withAlpha.Pix[i+1], withAlpha.Pix[i+2], withAlpha.Pix[i+3] = 90, 120, 60, far.Pix[i]
		}
		type fc struct {
			name string
			src  *image.NRGBA
			o    webp.EncoderOptions
		}
		lossyA := *webp.DefaultOptions()
		lossyA.Method, lossyA.Quality = 6, 30
		fcs := []fc{{"1024x1040 grey noise with repeats at the window limits, lossless q80 m4", far, webp.EncoderOptions{Lossless: true, Quality: 80, Method: 4}}}
		{
			fcs = append(fcs, fc{"1024x1040 flat colour under a noise alpha plane with repeats at the window limits, lossy m6", withAlpha, lossyA})
		}
		for _, c := range fcs {
			oo := c.o
			out, err, pan := safeEncode(c.src, &oo)
			run.Eval(c.name)
			if pan != nil || err != nil {
				run.Violate("encode-fails|far-matches", fmt.Sprintf("%s: %v %v", c.name, err, pan), c.name)
				continue
			}
			im, derr := guardedDecode(out)
			if derr != nil {
				run.Violate("undecodable|far-matches", c.name+": Encode returned nil but Decode fails: "+derr.Error(), c.name)
				continue
			}
			got, ok := im.(*image.NRGBA)
			if !ok || got.Bounds().Dx() != 1024 || got.Bounds().Dy() != 1040 {
				run.Violate("pixels|far-matches", fmt.Sprintf("%s: decodes to %T %v", c.name, im, im.Bounds()), c.name)
				continue
			}
			for i := 0; i < len(got.Pix); i += 4 {
				if got.Pix[i+3] != c.src.Pix[i+3] || (c.o.Lossless && (got.Pix[i] != c.src.Pix[i] || got.Pix[i+1] != c.src.Pix[i+1] || got.Pix[i+2] != c.src.Pix[i+2])) {
					run.Violate("pixels|far-matches", fmt.Sprintf("%s: pixel %d decodes to %v, source %v", c.name, i/4, got.Pix[i:i+4], c.src.Pix[i:i+4]), c.name)
					break
				}
			}
		}
	}
	report := func(kind string, bad map[string]string) {
		for id, why := range bad {
			parts := strings.SplitN(info[id], "||", 2)
			run.Violate(kind+"|"+parts[1]+"|"+whyShort(why), parts[0]+": "+why, parts[0])
		}
	}
	report("container", vx.ValidateFiles(run, files))
	report("vp8-stream", validateVP8(run, l8))
	report("vp8l-stream", validateVP8L(run, ll))
	if len(la) > 0 {
		res := vx.MustTLC(vx.TLCOpts{Module: "TVAlph", Cfg: "TVAlph.cfg", Workers: 1, Timeout: 30 * time.Minute, Files: map[string][]byte{"trace.ndjson": vx.NDJSON(la)}})
		run.AddTLC(res)
		bad := map[string]string{}
		for _, b := range vx.Verdict(res, len(la), "TVAlph") {
			bad[b.ID] = b.Why
		}
		run.AddTraces(len(la))
		report("alph-chunk", bad)
	}
	run.Cov["files"] = len(files)
	run.Cov["vp8_streams_decoded_by_tla"] = len(l8)
	run.Cov["vp8l_streams_decoded_by_tla"] = len(ll)
	run.Cov["alph_chunks_decoded_by_tla"] = len(la)
	if run.Thorough() {
		// partition 0 longer than its 19-bit length field: Encode must not report success for an undecodable stream
		big := image.NewNRGBA(image.Rect(0, 0, 16000, 5200))
		rng.Read(big.Pix)
		for k := 3; k < len(big.Pix); k += 4 {
			big.Pix[k] = 255
		}
		out, err, pan := safeEncode(big, &webp.EncoderOptions{Quality: 100, Method: 3, Segments: 1})
		run.Eval("partition0-overflow")
		if pan != nil {
			run.Violate("panic|partition0-overflow", fmt.Sprint(pan), "16000x5200 noise q100 m3 segments1")
		} else if err == nil {
			if _, derr := guardedDecode(out); derr != nil {
				run.Violate("undecodable|partition0-overflow", "16000x5200 noise, Quality 100, Method 3, Segments 1: Encode returned nil but Decode fails: "+derr.Error(), "16000x5200 noise q100 m3 segments1")
			}
		}
	}
	run.Finish()
}

func whyShort(why string) string {
	if i := strings.Index(why, " ("); i > 0 {
		why = why[:i]
	}
	if len(why) > 70 {
		why = why[:70]
	}
	return why
}
