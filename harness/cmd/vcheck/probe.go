package main

import (
	"fmt"
	"path/filepath"
)

func init() {
	register("probe-fixtures", func(args []string) {
		for _, f := range lossyFixtures() {
			dy, dc, first, err := compareLossyFixture(f)
			fmt.Println(filepath.Base(f), "diffY", dy, "diffC", dc, first, err)
		}
	})
}
