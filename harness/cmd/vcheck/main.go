// vcheck: one binary, one sub-command per property (see /verif/DESIGN.md).
package main

import (
	"fmt"
	"os"
	"sort"
)

type checkFn func(args []string)

var checks = map[string]checkFn{}

func register(id string, f checkFn) { checks[id] = f }

func main() {
	if len(os.Args) < 2 {
		var ids []string
		for k := range checks {
			ids = append(ids, k)
		}
		sort.Strings(ids)
		fmt.Fprintf(os.Stderr, "usage: vcheck <id> [quick|thorough] [--replay path]\nchecks: %v\n", ids)
		os.Exit(2)
	}
	f, ok := checks[os.Args[1]]
	if !ok {
		fmt.Fprintf(os.Stderr, "unknown check %q\n", os.Args[1])
		os.Exit(2)
	}
	f(os.Args[2:])
}
