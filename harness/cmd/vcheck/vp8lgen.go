package main

import (
	"fmt"
	"math/rand"
	"sort"
)

// A generator of VALID VP8L streams that the package's encoder does not produce: arbitrary transform lists and
// orders, tile sizes, cache sizes, meta prefix images, prefix-code shapes (simple, single-symbol, deep codes up to
// 15 bits, code-length code with repeat codes and max_symbol) and backward references with every kind of distance
// code. It only has to be valid: WHAT each stream decodes to is decided by the TLA+ reader (spec/Vp8l.tla), which
// also rejects anything the generator got wrong (counted and skipped, never a verdict).

type bitW struct {
	b []byte
	n uint // bits written
}

func (w *bitW) bits(v uint32, n int) {
	for i := 0; i < n; i++ {
		if w.n%8 == 0 {
			w.b = append(w.b, 0)
		}
		if v>>uint(i)&1 == 1 {
			w.b[w.n/8] |= 1 << (w.n % 8)
		}
		w.n++
	}
}

// code writes a canonical prefix code word: the bits of the code, most significant first.
func (w *bitW) code(c uint32, n int) {
	for i := n - 1; i >= 0; i-- {
		w.bits(c>>uint(i)&1, 1)
	}
}

type prefixCode struct {
	lens  []int
	codes []uint32
	nused int
	only  int // the single symbol when nused == 1
}

func canonical(lens []int) *prefixCode {
	pc := &prefixCode{lens: lens, codes: make([]uint32, len(lens)), only: -1}
	var blCount [17]int
	for s, l := range lens {
		if l > 0 {
			blCount[l]++
			pc.nused++
			pc.only = s
		}
	}
	if pc.nused != 1 {
		pc.only = -1
	}
	var next [17]uint32
	code := uint32(0)
	for l := 1; l <= 15; l++ {
		code = (code + uint32(blCount[l-1])) << 1
		next[l] = code
	}
	for s, l := range lens {
		if l > 0 {
			pc.codes[s] = next[l]
			next[l]++
		}
	}
	return pc
}

func (pc *prefixCode) put(w *bitW, sym int) {
	if pc.nused <= 1 {
		return // a single-symbol code costs no bits
	}
	if pc.lens[sym] == 0 {
		panic(fmt.Sprintf("symbol %d not in code", sym))
	}
	w.code(pc.codes[sym], pc.lens[sym])
}

// makeLens builds a complete code (Kraft sum exactly 1) over an alphabet in which at least the `used` symbols have
// a code; unused symbols may receive codes as padding. shape selects the structure.
func makeLens(rng *rand.Rand, alphabet int, used []int, shape string) []int {
	lens := make([]int, alphabet)
	if len(used) == 0 {
		used = []int{rng.Intn(alphabet)}
	}
	if len(used) == 1 {
		lens[used[0]] = 1 // single symbol: any non-zero length, zero bits per symbol
		if shape == "deep" {
			lens[used[0]] = 1 + rng.Intn(15)
		}
		return lens
	}
	inUse := map[int]bool{}
	for _, s := range used {
		inUse[s] = true
	}
	var spare []int // unused symbols available as padding
	for s := 0; s < alphabet; s++ {
		if !inUse[s] {
			spare = append(spare, s)
		}
	}
	rng.Shuffle(len(spare), func(i, j int) { spare[i], spare[j] = spare[j], spare[i] })
	chain := 0 // dummy symbols of length 1,2,..,chain push the real symbols down
	if shape == "deep" {
		chain = 15
	} else if shape == "mid" {
		chain = 2 + rng.Intn(6)
	}
	// flat part: L bits for the used symbols under the chain
	L := 0
	for 1<<uint(L) < len(used) {
		L++
	}
	if L == 0 {
		L = 1
	}
	if chain+L > 15 {
		chain = 15 - L
	}
	if chain > len(spare) {
		chain = len(spare)
	}
	if shape == "skew" && len(used) <= 15 {
		// lengths 1,2,..,n-1,n-1 over the used symbols themselves
		u := append([]int(nil), used...)
		rng.Shuffle(len(u), func(i, j int) { u[i], u[j] = u[j], u[i] })
		for i, s := range u {
			l := i + 1
			if i == len(u)-1 {
				l = len(u) - 1
			}
			lens[s] = l
		}
		return lens
	}
	for i := 0; i < chain; i++ {
		lens[spare[i]] = i + 1
	}
	spare = spare[chain:]
	// 2^L code words of length chain+L are left (one more than used if chain == 0: all 2^L)
	slots := 1 << uint(L)
	for _, s := range used {
		lens[s] = chain + L
	}
	pad := slots - len(used)
	if pad > len(spare) {
		// not enough padding symbols: give some used symbols shorter codes instead (merge pairs)
		// by promoting: a symbol of length l-1 takes two slots
		need := pad - len(spare)
		for _, s := range used {
			if need == 0 {
				break
			}
			if chain+L-1 >= 1 {
				// can only promote if an even structure remains; simple approach: fall back to a flat code
			}
			_ = s
		}
		if need > 0 {
			// fall back: flat code over the whole alphabet rounded up is impossible; use unused slots by promotion
			promote := need
			for _, s := range used {
				if promote == 0 {
					break
				}
				lens[s]--
				promote--
			}
			pad = len(spare)
		}
	}
	for i := 0; i < pad; i++ {
		lens[spare[i]] = chain + L
	}
	return lens
}

func kraftOK(lens []int) bool {
	sum, n := 0, 0
	for _, l := range lens {
		if l > 0 {
			sum += 1 << uint(15-l)
			n++
		}
	}
	return n == 1 || sum == 1<<15
}

// writeCodeDesc writes the description of a prefix code (simple or normal form).
func writeCodeDesc(w *bitW, rng *rand.Rand, lens []int, allowSimple bool) {
	var used []int
	for s, l := range lens {
		if l > 0 {
			used = append(used, s)
		}
	}
	simpleOK := len(used) <= 2 && used[len(used)-1] < 256 && (len(used) == 1 || (lens[used[0]] == 1 && lens[used[1]] == 1))
	if allowSimple && simpleOK && rng.Intn(4) != 0 {
		w.bits(1, 1)
		w.bits(uint32(len(used)-1), 1)
		if len(used) == 2 && rng.Intn(2) == 0 {
			// the two symbols of a simple code may be listed in either order: the canonical code still gives the
			// shorter/first code word to the numerically smaller symbol
			used = []int{used[1], used[0]}
		}
		if used[0] < 2 && rng.Intn(2) == 0 {
			w.bits(0, 1)
			w.bits(uint32(used[0]), 1)
		} else {
			w.bits(1, 1)
			w.bits(uint32(used[0]), 8)
		}
		if len(used) == 2 {
			w.bits(uint32(used[1]), 8)
		}
		return
	}
	// normal form: run-length encode the lengths with the code-length alphabet
	type cl struct{ sym, extra, ebits int }
	var seq []cl
	maxSym := len(lens)
	useMax := rng.Intn(3) == 0
	last := len(lens)
	for last > 0 && lens[last-1] == 0 {
		last--
	}
	repeats := rng.Intn(3) != 0
	prev := 8
	emitN := len(lens)
	if useMax {
		emitN = last // trailing zeros are implied
	}
	for i := 0; i < emitN; {
		l := lens[i]
		run := 1
		for i+run < emitN && lens[i+run] == l {
			run++
		}
		switch {
		case repeats && l == 0 && run >= 11:
			r := run
			if r > 138 {
				r = 138
			}
			seq = append(seq, cl{18, r - 11, 7})
			i += r
		case repeats && l == 0 && run >= 3:
			r := run
			if r > 10 {
				r = 10
			}
			seq = append(seq, cl{17, r - 3, 3})
			i += r
		case repeats && l != 0 && l == prev && run >= 3:
			r := run
			if r > 6 {
				r = 6
			}
			seq = append(seq, cl{16, r - 3, 2})
			i += r
		default:
			seq = append(seq, cl{l, 0, 0})
			if l != 0 {
				prev = l
			}
			i++
		}
	}
	if useMax {
		maxSym = len(seq)
		if maxSym < 2 {
			useMax = false
			// re-emit the full alphabet below
			seq = seq[:0]
			prev = 8
			for i := 0; i < len(lens); i++ {
				seq = append(seq, cl{lens[i], 0, 0})
			}
			maxSym = len(lens)
		}
	}
	// code-length code over the symbols that occur in seq
	occurs := map[int]bool{}
	for _, c := range seq {
		occurs[c.sym] = true
	}
	var clUsed []int
	for s := range occurs {
		clUsed = append(clUsed, s)
	}
	sort.Ints(clUsed)
	clShape := []string{"flat", "skew", "flat"}[rng.Intn(3)]
	if len(clUsed) > 7 {
		clShape = "flat"
	}
	clLens := makeLens(rng, 19, clUsed, clShape)
	for _, l := range clLens {
		if l > 7 {
			clLens = makeLens(rng, 19, clUsed, "flat")
			break
		}
	}
	clc := canonical(clLens)
	order := []int{17, 18, 0, 1, 2, 3, 4, 5, 16, 6, 7, 8, 9, 10, 11, 12, 13, 14, 15}
	num := 19
	for num > 4 && clLens[order[num-1]] == 0 {
		num--
	}
	if rng.Intn(3) == 0 { // do not always trim trailing zero entries
		num += rng.Intn(19 - num + 1)
	}
	w.bits(0, 1)
	w.bits(uint32(num-4), 4)
	for i := 0; i < num; i++ {
		w.bits(uint32(clLens[order[i]]), 3)
	}
	if useMax {
		w.bits(1, 1)
		// max_symbol = 2 + ReadBits(length_nbits), length_nbits = 2 + 2*ReadBits(3)
		v := maxSym - 2
		nb := 2
		for nb < 16 && v >= 1<<uint(nb) {
			nb += 2
		}
		w.bits(uint32((nb-2)/2), 3)
		w.bits(uint32(v), nb)
	} else {
		w.bits(0, 1)
	}
	for _, c := range seq {
		clc.put(w, c.sym)
		if c.ebits > 0 {
			w.bits(uint32(c.extra), c.ebits)
		}
	}
}

// ---- pixels, tokens ----

type argb [4]uint8 // a, r, g, b

type token struct {
	kind  int // 0 literal, 1 copy, 2 cache
	px    argb
	len   int
	dcode int // plane code (1..120) or 120+distance
	key   int
	pos   int // pixel position where the token starts
}

var distMap = [120][2]int{{0, 1}, {1, 0}, {1, 1}, {-1, 1}, {0, 2}, {2, 0}, {1, 2}, {-1, 2}, {2, 1}, {-2, 1}, {2, 2}, {-2, 2}, {0, 3}, {3, 0}, {1, 3}, {-1, 3}, {3, 1}, {-3, 1}, {2, 3}, {-2, 3}, {3, 2}, {-3, 2}, {0, 4}, {4, 0}, {1, 4}, {-1, 4}, {4, 1}, {-4, 1}, {3, 3}, {-3, 3}, {2, 4}, {-2, 4}, {4, 2}, {-4, 2}, {0, 5}, {3, 4}, {-3, 4}, {4, 3}, {-4, 3}, {5, 0}, {1, 5}, {-1, 5}, {5, 1}, {-5, 1}, {2, 5}, {-2, 5}, {5, 2}, {-5, 2}, {4, 4}, {-4, 4}, {3, 5}, {-3, 5}, {5, 3}, {-5, 3}, {0, 6}, {6, 0}, {1, 6}, {-1, 6}, {6, 1}, {-6, 1}, {2, 6}, {-2, 6}, {6, 2}, {-6, 2}, {4, 5}, {-4, 5}, {5, 4}, {-5, 4}, {3, 6}, {-3, 6}, {6, 3}, {-6, 3}, {0, 7}, {7, 0}, {1, 7}, {-1, 7}, {5, 5}, {-5, 5}, {7, 1}, {-7, 1}, {4, 6}, {-4, 6}, {6, 4}, {-6, 4}, {2, 7}, {-2, 7}, {7, 2}, {-7, 2}, {3, 7}, {-3, 7}, {7, 3}, {-7, 3}, {5, 6}, {-5, 6}, {6, 5}, {-6, 5}, {8, 0}, {4, 7}, {-4, 7}, {7, 4}, {-7, 4}, {8, 1}, {8, 2}, {6, 6}, {-6, 6}, {8, 3}, {5, 7}, {-5, 7}, {7, 5}, {-7, 5}, {8, 4}, {6, 7}, {-6, 7}, {7, 6}, {-7, 6}, {8, 5}, {7, 7}, {-7, 7}, {8, 6}, {8, 7}}

func planeDist(xs, code int) int {
	if code > 120 {
		return code - 120
	}
	d := distMap[code-1][0] + distMap[code-1][1]*xs
	if d < 1 {
		d = 1
	}
	return d
}

func cacheKey(p argb, bits int) int {
	v := uint32(p[0])<<24 | uint32(p[1])<<16 | uint32(p[2])<<8 | uint32(p[3])
	return int((v * 0x1e35a7bd) >> uint(32-bits))
}

// prefixEncode splits a length/distance value (>= 1) into prefix symbol and extra bits.
func prefixEncode(v int) (sym, ebits, extra int) {
	v--
	if v < 4 {
		return v, 0, 0
	}
	hb := 0
	for x := v; x > 1; x >>= 1 {
		hb++
	}
	second := (v >> uint(hb-1)) & 1
	ebits = hb - 1
	return 2*hb + second, ebits, v & (1<<uint(ebits) - 1)
}

// genTokens produces a token sequence (and the pixels it defines) for an xs*ys image.
func genTokens(rng *rand.Rand, xs, ys, cbits int, palette []argb, style string) ([]token, []argb) {
	n := xs * ys
	var pix []argb
	var toks []token
	cache := make([]argb, 1<<uint(cbits))
	cacheSet := make([]bool, 1<<uint(cbits))
	ins := func(p argb) {
		if cbits > 0 {
			k := cacheKey(p, cbits)
			cache[k], cacheSet[k] = p, true
		}
	}
	for len(pix) < n {
		pos := len(pix)
		r := rng.Intn(100)
		if style == "literal" {
			r = 99
		}
		switch {
		case r < 35 && pos > 0: // backward reference
			var cands []int
			for c := 1; c <= 120; c++ {
				if planeDist(xs, c) <= pos {
					cands = append(cands, c)
				}
			}
			var dcode int
			if len(cands) > 0 && rng.Intn(4) != 0 {
				dcode = cands[rng.Intn(len(cands))]
			} else {
				dcode = 120 + 1 + rng.Intn(pos)
			}
			dist := planeDist(xs, dcode)
			maxLen := n - pos
			l := 1 + rng.Intn(8)
			if rng.Intn(5) == 0 {
				l = 1 + rng.Intn(maxLen)
			}
			if l > maxLen {
				l = maxLen
			}
			if l > 4096 {
				l = 4096
			}
			toks = append(toks, token{kind: 1, len: l, dcode: dcode, pos: pos})
			for i := 0; i < l; i++ {
				p := pix[len(pix)-dist] // overlapping copies repeat the pattern
				pix = append(pix, p)
				ins(p)
			}
		case r < 55 && cbits > 0: // colour-cache reference, when something usable is cached
			var keys []int
			for k, ok := range cacheSet {
				if ok {
					keys = append(keys, k)
				}
			}
			if len(keys) == 0 {
				p := palette[rng.Intn(len(palette))]
				toks = append(toks, token{kind: 0, px: p, pos: pos})
				pix = append(pix, p)
				ins(p)
				break
			}
			k := keys[rng.Intn(len(keys))]
			toks = append(toks, token{kind: 2, key: k, pos: pos})
			pix = append(pix, cache[k]) // a cache hit does not re-insert (the value is already there)
		default:
			p := palette[rng.Intn(len(palette))]
			toks = append(toks, token{kind: 0, px: p, pos: pos})
			pix = append(pix, p)
			ins(p)
		}
	}
	return toks, pix
}

// writeImage writes an entropy-coded image: [cache bits] [meta image (main only)] codes, tokens.
// groupOf gives the prefix-code group of a pixel position; ngroups >= 1.
func writeImage(w *bitW, rng *rand.Rand, xs, ys int, toks []token, cbits int, isMain bool, metaBits int, groupOf func(pos int) int, ngroups int, shapes []string) {
	if cbits > 0 {
		w.bits(1, 1)
		w.bits(uint32(cbits), 4)
	} else {
		w.bits(0, 1)
	}
	if isMain {
		if metaBits > 0 {
			w.bits(1, 1)
			w.bits(uint32(metaBits-2), 3)
			mw, mh := (xs+(1<<uint(metaBits))-1)>>uint(metaBits), (ys+(1<<uint(metaBits))-1)>>uint(metaBits)
			// the meta image: group index in red/green
			var mt []token
			for i := 0; i < mw*mh; i++ {
				g := groupOf((i/mw)<<uint(metaBits)*xs + (i%mw)<<uint(metaBits))
				mt = append(mt, token{kind: 0, px: argb{255, uint8(g >> 8), uint8(g), 0}, pos: i})
			}
			writeImage(w, rng, mw, mh, mt, 0, false, 0, func(int) int { return 0 }, 1, []string{"flat"})
		} else {
			w.bits(0, 1)
		}
	}
	// symbol usage per group
	alph := [5]int{256 + 24, 256, 256, 256, 40}
	if cbits > 0 {
		alph[0] += 1 << uint(cbits)
	}
	used := make([][5]map[int]bool, ngroups)
	for g := range used {
		for j := 0; j < 5; j++ {
			used[g][j] = map[int]bool{}
		}
	}
	for _, t := range toks {
		g := groupOf(t.pos)
		switch t.kind {
		case 0:
			used[g][0][int(t.px[2])] = true
			used[g][1][int(t.px[1])] = true
			used[g][2][int(t.px[3])] = true
			used[g][3][int(t.px[0])] = true
		case 1:
			ls, _, _ := prefixEncode(t.len)
			ds, _, _ := prefixEncode(t.dcode)
			used[g][0][256+ls] = true
			used[g][4][ds] = true
		case 2:
			used[g][0][280+t.key] = true
		}
	}
	if vp8lSparseGroups && isMain {
		// groups no tile refers to still carry five code descriptions each: give them codes of every shape
		for g := range used {
			if len(used[g][0]) == 0 {
				for j := 0; j < 5; j++ {
					for k := rng.Intn(7); k > 0; k-- {
						used[g][j][rng.Intn(alph[j])] = true
					}
				}
			}
		}
	}
	codes := make([][5]*prefixCode, ngroups)
	for g := 0; g < ngroups; g++ {
		for j := 0; j < 5; j++ {
			var u []int
			for s := range used[g][j] {
				u = append(u, s)
			}
			sort.Ints(u)
			shape := shapes[rng.Intn(len(shapes))]
			lens := makeLens(rng, alph[j], u, shape)
			if !kraftOK(lens) {
				lens = makeLens(rng, alph[j], u, "flat")
			}
			codes[g][j] = canonical(lens)
			writeCodeDesc(w, rng, lens, true)
		}
	}
	for _, t := range toks {
		c := codes[groupOf(t.pos)]
		switch t.kind {
		case 0:
			c[0].put(w, int(t.px[2]))
			c[1].put(w, int(t.px[1]))
			c[2].put(w, int(t.px[3]))
			c[3].put(w, int(t.px[0]))
		case 1:
			ls, le, lx := prefixEncode(t.len)
			c[0].put(w, 256+ls)
			w.bits(uint32(lx), le)
			ds, de, dx := prefixEncode(t.dcode)
			c[4].put(w, ds)
			w.bits(uint32(dx), de)
		case 2:
			c[0].put(w, 280+t.key)
		}
	}
}

type genStream struct {
	Bytes []byte
	W, H  int
	Desc  string
}

// genVP8L builds one stream. Features are drawn from rng; desc names them.
func genVP8L(rng *rand.Rand, maxW, maxH int) genStream {
	return genVP8LWH(rng, 1+rng.Intn(maxW), 1+rng.Intn(maxH))
}

// genVP8LWH builds one stream for a w x h picture.
// vp8lSparseGroups switches genVP8LWH to sparse prefix-code group numbering (see genVP8LSparse).
var vp8lSparseGroups bool

// genVP8LSparse generates a small picture whose meta prefix image numbers its groups sparsely: more groups are
// declared than the picture has pixels, most of them unused.
func genVP8LSparse(rng *rand.Rand) genStream {
	vp8lSparseGroups = true
	defer func() { vp8lSparseGroups = false }()
	g := genVP8LWH(rng, 5+rng.Intn(6), 1+rng.Intn(6))
	g.Desc += " sparse-groups"
	return g
}

func genVP8LWH(rng *rand.Rand, w, h int) genStream {
	bw := &bitW{}
	bw.bits(0x2f, 8)
	bw.bits(uint32(w-1), 14)
	bw.bits(uint32(h-1), 14)
	bw.bits(uint32(rng.Intn(2)), 1)
	bw.bits(0, 3)
	desc := fmt.Sprintf("%dx%d", w, h)
	shapesAll := []string{"flat", "flat", "mid", "deep", "skew"}
	randPal := func(n int) []argb {
		p := make([]argb, n)
		for i := range p {
			p[i] = argb{uint8(rng.Intn(256)), uint8(rng.Intn(256)), uint8(rng.Intn(256)), uint8(rng.Intn(256))}
		}
		return p
	}
	subImage := func(xs, ys int, pal []argb) {
		cb := 0
		if rng.Intn(4) == 0 {
			cb = 1 + rng.Intn(4)
		}
		style := "mixed"
		if rng.Intn(2) == 0 {
			style = "literal"
		}
		toks, _ := genTokens(rng, xs, ys, cb, pal, style)
		writeImage(bw, rng, xs, ys, toks, cb, false, 0, func(int) int { return 0 }, 1, []string{"flat", "mid", "skew"})
	}
	xs := w
	order := rng.Perm(4)
	nT := rng.Intn(5)
	for _, ty := range order[:nT] {
		bw.bits(1, 1)
		bw.bits(uint32(ty), 2)
		switch ty {
		case 0, 1:
			bits := 2 + rng.Intn(4)
			if rng.Intn(6) == 0 {
				bits = 2 + rng.Intn(8)
			}
			bw.bits(uint32(bits-2), 3)
			sw, sh := (xs+(1<<uint(bits))-1)>>uint(bits), (h+(1<<uint(bits))-1)>>uint(bits)
			var pal []argb
			if ty == 0 {
				for m := 0; m < 14; m++ {
					pal = append(pal, argb{255, uint8(rng.Intn(256)), uint8(m), uint8(rng.Intn(256))})
				}
				if rng.Intn(5) == 0 { // modes 14, 15 (treated as black by the format)
					pal = append(pal, argb{255, 0, 14, 0}, argb{255, 0, 15, 0})
				}
				desc += fmt.Sprintf(" pred%d", bits)
			} else {
				pal = randPal(6)
				desc += fmt.Sprintf(" xcol%d", bits)
			}
			subImage(sw, sh, pal)
		case 2:
			desc += " subg"
		case 3:
			nc := []int{1, 2, 3, 4, 5, 16, 17, 40, 256}[rng.Intn(9)]
			bw.bits(uint32(nc-1), 8)
			subImage(nc, 1, randPal(4))
			xb := 0
			switch {
			case nc <= 2:
				xb = 3
			case nc <= 4:
				xb = 2
			case nc <= 16:
				xb = 1
			}
			xs = (xs + (1 << uint(xb)) - 1) >> uint(xb)
			desc += fmt.Sprintf(" pal%d", nc)
		}
	}
	bw.bits(0, 1)
	// main image
	cb := 0
	if rng.Intn(2) == 0 {
		cb = 1 + rng.Intn(11)
	}
	metaBits, ngroups := 0, 1
	if rng.Intn(3) == 0 || vp8lSparseGroups {
		metaBits = 2 + rng.Intn(3)
		ngroups = 1 + rng.Intn(4)
		if vp8lSparseGroups {
			metaBits, ngroups = 2, 2+rng.Intn(2) // 4x4 tiles: several tiles even in a small picture
		}
	}
	mw := 1
	if metaBits > 0 {
		mw = (xs + (1 << uint(metaBits)) - 1) >> uint(metaBits)
	}
	mh := 1
	if metaBits > 0 {
		mh = (h + (1 << uint(metaBits)) - 1) >> uint(metaBits)
	}
	tileGroup := make([]int, mw*mh)
	for i := range tileGroup {
		tileGroup[i] = rng.Intn(ngroups)
	}
	if metaBits > 0 && ngroups > 1 && rng.Intn(2) == 0 {
		tileGroup[rng.Intn(len(tileGroup))] = ngroups - 1 // the highest group is used: the group count is max+1
	}
	maxG := 0
	for _, g := range tileGroup {
		if g > maxG {
			maxG = g
		}
	}
	if vp8lSparseGroups {
		// sparse group numbering: every group but 0 is moved beyond the number of pixels, so that more groups are
		// declared (and described in the stream) than the picture has pixels; the ones in between are never used
		shift := xs*h + rng.Intn(3)
		if rng.Intn(2) == 0 {
			// group indices that need the second byte of the 16-bit index field (red and green of the entropy image)
			shift = 256*(1+rng.Intn(3)) - 1 + rng.Intn(3)
			if shift < xs*h {
				shift += 256 * ((xs*h)/256 + 1)
			}
		}
		for i, g := range tileGroup {
			if g > 0 {
				tileGroup[i] = g + shift
			}
		}
		if maxG == 0 {
			tileGroup[len(tileGroup)-1] = 1 + shift
		}
		maxG = 0
		for _, g := range tileGroup {
			if g > maxG {
				maxG = g
			}
		}
	}
	ngroups = maxG + 1
	groupOf := func(pos int) int {
		if metaBits == 0 {
			return 0
		}
		return tileGroup[((pos/xs)>>uint(metaBits))*mw+((pos%xs)>>uint(metaBits))]
	}
	pal := randPal(2 + rng.Intn(6))
	if rng.Intn(3) == 0 { // near-constant colour, rich alpha (short colour codes, long alpha code)
		base := randPal(1)[0]
		pal = nil
		for i := 0; i < 40; i++ {
			pal = append(pal, argb{uint8(rng.Intn(256)), base[1], base[2], base[3]})
		}
	}
	toks, _ := genTokens(rng, xs, h, cb, pal, "mixed")
	writeImage(bw, rng, xs, h, toks, cb, true, metaBits, groupOf, ngroups, shapesAll)
	desc += fmt.Sprintf(" cache%d meta%d groups%d", cb, metaBits, ngroups)
	return genStream{Bytes: bw.b, W: w, H: h, Desc: desc}
}

// genVP8LLongCopies builds a larger picture coded with 15-bit-deep prefix codes and long backward references
// (lengths with 8..10 extra bits, distance codes with many extra bits): the symbol / extra-bits combinations that
// read the most bits between two refills of a decoder's bit window.
func genVP8LLongCopies(rng *rand.Rand) genStream {
	w, h := 40+rng.Intn(24), 24+rng.Intn(16)
	bw := &bitW{}
	bw.bits(0x2f, 8)
	bw.bits(uint32(w-1), 14)
	bw.bits(uint32(h-1), 14)
	bw.bits(1, 1)
	bw.bits(0, 3)
	bw.bits(0, 1) // no transform
	n := w * h
	var toks []token
	var pix []argb
	pal := make([]argb, 5)
	for i := range pal {
		pal[i] = argb{uint8(rng.Intn(256)), uint8(rng.Intn(256)), uint8(rng.Intn(256)), uint8(rng.Intn(256))}
	}
	// a random number of leading literals shifts the bit alignment of everything that follows
	lead := 3 + rng.Intn(40)
	for len(pix) < n {
		pos := len(pix)
		if pos < lead || rng.Intn(4) == 0 {
			p := pal[rng.Intn(len(pal))]
			toks = append(toks, token{kind: 0, px: p, pos: pos})
			pix = append(pix, p)
			continue
		}
		maxLen := n - pos
		l := 257 + rng.Intn(800)
		if rng.Intn(3) == 0 {
			l = 1 + rng.Intn(300)
		}
		if l > maxLen {
			l = maxLen
		}
		dcode := 120 + 1 + rng.Intn(pos)
		if rng.Intn(3) == 0 {
			for try := 0; try < 20; try++ {
				c := 1 + rng.Intn(120)
				if planeDist(w, c) <= pos {
					dcode = c
					break
				}
			}
		}
		dist := planeDist(w, dcode)
		toks = append(toks, token{kind: 1, len: l, dcode: dcode, pos: pos})
		for i := 0; i < l; i++ {
			pix = append(pix, pix[len(pix)-dist])
		}
	}
	writeImage(bw, rng, w, h, toks, 0, true, 0, func(int) int { return 0 }, 1, []string{"deep", "deep", "mid"})
	return genStream{Bytes: bw.b, W: w, H: h, Desc: fmt.Sprintf("%dx%d long-copies deep-codes lead%d cache0 meta0 groups1", w, h, lead)}
}

// genVP8LFixed is genVP8L for given dimensions (used for ALPH payloads).
func genVP8LFixed(rng *rand.Rand, w, h int) genStream { return genVP8LWH(rng, w, h) }
