package main

import "os"

func readFile(p string) ([]byte, error) { return os.ReadFile(p) }
