package main

import (
	"bytes"
	"encoding/binary"
	"encoding/json"
	"fmt"
	"math/rand"
	"os"
	"path/filepath"
	"strings"
	"time"

	"github.com/deepteams/webp"
	"github.com/deepteams/webp/internal/lossy"
	"github.com/deepteams/webp/verifx/vx"
)

func init() { register("C04", checkC04) }

func wrapVP8(payload []byte) []byte {
	var b bytes.Buffer
	b.WriteString("RIFF")
	binary.Write(&b, binary.LittleEndian, uint32(4+8+len(payload)+len(payload)%2))
	b.WriteString("WEBPVP8 ")
	binary.Write(&b, binary.LittleEndian, uint32(len(payload)))
	b.Write(payload)
	if len(payload)%2 == 1 {
		b.WriteByte(0)
	}
	return b.Bytes()
}

// vp8Sig reduces a generated-frame description to feature classes.
func vp8Sig(desc string) string {
	var out []string
	for _, f := range []string{"simple-filter", "normal-filter", "level0", "lfdelta-upd", "lfdelta-noupd", "seg=true", "abs=true", "skipflag=false", "high-q"} {
		if strings.Contains(desc, f+" ") || strings.HasSuffix(desc, f) || strings.Contains(desc, f+"(") {
			out = append(out, f)
		}
	}
	if !strings.Contains(desc, "zero-coded-mbs0") {
		out = append(out, "zero-coded-mbs")
	}
	return strings.Join(out, ",")
}

func checkC04(args []string) {
	run := vx.NewRun("C04", "model_checking", args)
	activeRun = run
	run.Rule = "(0) a TLA+ WRITER (spec/Vp8Gen.tla: boolean encoder, frame syntax, token writer) produces frames - incl. coded macroblocks with all-zero residuals under every filter setting - with the planes the reader spec defines, replayed on the real decoder; (1) valid VP8 key frames outside the package encoder's repertoire are produced by a seeded structure generator (segment maps with absolute/delta quantisers and filter strengths, quantiser index 0..127 with all five deltas, simple/normal filter, level 0..63, sharpness 0..7, loop-filter deltas with and without update, 1/2/4/8 partitions, with and without the skip flag, coded macroblocks whose residuals are all zero, every 16x16 / 4x4 / chroma mode, coefficient patterns over all token categories, probability updates); the TLA+ reader (spec/Vp8.tla) defines the planes and webp.Decode must return them bit-exactly; consecutive frames are decoded in one process so that pooled decoder state meets foreign headers; (2) libwebp-encoded files are decoded by the real decoder against libwebp's own reference planes (and by the TLA+ reader in the thorough tier); (3) ALPH chunks of the real encoder and raw/filtered ones are validated by C07's machinery. distinct = distinct generated frames accepted by the specification"
	run.Assumptions = []string{"coefficient magnitudes are bounded so that dequantised values stay inside 16 bits", "frames up to 3x2 macroblocks in the quick tier (TLC speed)"}
	rng := rand.New(rand.NewSource(run.Seed))
	n := run.Pick(150, 2500)
	var lines []vp8Line
	gens := map[string]genVP8{}
	realErr := map[string]string{}
	for i := 0; i < n; i++ {
		force := ""
		if i%9 == 0 {
			force = "high-q"
		}
		if i%9 == 4 {
			force = "ilimit-edges"
		}
		g := genVP8Frame(rng, run.Pick(3, 4), run.Pick(2, 3), force)
		id := fmt.Sprintf("v%d", i)
		gens[id] = g
		ln := vp8Line{ID: id, Bytes: vx.Ints(g.Bytes), W: g.W, H: g.H, RY: []int{}, RU: []int{}, RV: []int{}}
		im, err := guardedDecode(wrapVP8(g.Bytes))
		if err != nil {
			realErr[id] = err.Error()
			ln.Y, ln.U, ln.V = []int{}, []int{}, []int{}
		} else {
			y, u, v, ok := ycbcrPlanes(im)
			if !ok || im.Bounds().Dx() != g.W || im.Bounds().Dy() != g.H {
				run.Violate("size-or-type|"+vp8Sig(g.Desc), fmt.Sprintf("generated frame {%s}: decoded to %T %v", g.Desc, im, im.Bounds()), map[string]any{"desc": g.Desc, "bytes": g.Bytes})
				continue
			}
			ln.Y, ln.U, ln.V = y, u, v
		}
		lines = append(lines, ln)
	}
	bad := validateVP8(run, lines)
	skipped := 0
	for _, ln := range lines {
		g := gens[ln.ID]
		why, isBad := bad[ln.ID]
		if isBad && strings.HasPrefix(why, "independent reader rejects") {
			skipped++ // generator mistake: invalid stream
			continue
		}
		if isBad && strings.Contains(why, "read past its end") {
			skipped++
			continue
		}
		run.Eval(g.Desc)
		if e, failed := realErr[ln.ID]; failed {
			run.Violate("valid-frame-rejected|"+vp8Sig(g.Desc), fmt.Sprintf("generated frame {%s}: webp.Decode rejects a frame the specification accepts: %s", g.Desc, e), map[string]any{"desc": g.Desc, "bytes": g.Bytes})
			continue
		}
		if isBad {
			run.Violate("planes|"+vp8Sig(g.Desc), fmt.Sprintf("generated frame {%s}: %s", g.Desc, why), map[string]any{"desc": g.Desc, "bytes": g.Bytes})
		}
	}
	if skipped > len(lines)/5 {
		vx.Fatal2("the generator produced %d of %d frames the specification rejects: generator broken", skipped, len(lines))
	}
	for i := 0; i < len(lines) && i < 3; i++ {
		run.Sample(map[string]any{"frame": gens[lines[i].ID].Desc, "bytes": len(lines[i].Bytes)})
	}
	run.Cov["generated"] = len(lines)
	run.Cov["rejected_by_the_specification_and_skipped"] = skipped

	// spec -> code: the TLA+ WRITER (spec/Vp8Gen.tla: boolean encoder + frame syntax) produces frames together with the
	// planes the reader spec defines for them; the real decoder must return exactly those planes
	wr := vx.MustTLC(vx.TLCOpts{Module: "Vp8Gen", Cfg: fmt.Sprintf("SPECIFICATION Spec\nCONSTANT SEED = %d\nINVARIANTS ReaderAccepts Emit\nCHECK_DEADLOCK FALSE\n", 3+run.Seed%50),
		Workers: 1, Timeout: 30 * time.Minute, Heap: "4g"})
	if wr.InvViolated != "" {
		vx.Fatal2("Vp8Gen: the reader spec rejects what the writer spec wrote (%s): specification bug", wr.InvViolated)
	}
	run.AddTLC(wr)
	nWr := 0
	for _, raw := range wr.Tagged("CASE") {
		var c struct {
			Idx     int `json:"idx"`
			W, H    int
			Bytes   []int `json:"bytes"`
			Y, U, V []int
		}
		if err := json.Unmarshal(raw, &c); err != nil {
			vx.Fatal2("Vp8Gen CASE: %v", err)
		}
		b := make([]byte, len(c.Bytes))
		for i, v := range c.Bytes {
			b[i] = byte(v)
		}
		name := fmt.Sprintf("TLA+ writer frame %d (%dx%d, layout %d, filter setting %d)", c.Idx, c.W, c.H, (c.Idx-1)/4+1, (c.Idx-1)%4+1)
		nWr++
		run.Eval(fmt.Sprintf("writer:%d", c.Idx))
		run.AddTraces(1)
		im, err := guardedDecode(wrapVP8(b))
		if err != nil {
			run.Violate("valid-frame-rejected|tla-writer", name+": "+err.Error(), map[string]any{"desc": name, "bytes": b})
			continue
		}
		y, u, v, ok := ycbcrPlanes(im)
		if !ok || im.Bounds().Dx() != c.W || im.Bounds().Dy() != c.H || !equalInts(y, c.Y) || !equalInts(u, c.U) || !equalInts(v, c.V) {
			run.Violate(fmt.Sprintf("planes|tla-writer|filter-setting-%d", (c.Idx-1)%4+1), name+": decoded planes differ from the specification's", map[string]any{"desc": name, "bytes": b})
		}
	}
	if nWr == 0 {
		vx.Fatal2("Vp8Gen produced no frame")
	}
	run.Cov["frames_from_the_tla_writer"] = nWr
	// large frames (beyond what TLC decodes): token partitions of more than 64 KiB, whose sizes need all three bytes
	// of the partition table. Splitting the token data into 2, 4 or 8 partitions does not change a single coefficient,
	// so each file must decode to exactly the planes of the one-partition file of the same picture.
	{
		big := noiseNRGBA(rng, 384, 384, 0)
		var refY, refU, refV []int
		for _, parts := range []int{0, 1, 2, 3} {
			o := *webp.DefaultOptions()
			o.Quality, o.Method, o.Partitions = 100, 2, parts
			name := fmt.Sprintf("384x384 noise lossy q100 m2, %d token partitions", 1<<uint(parts))
			out, err, pan := safeEncode(big, &o)
			if err != nil || pan != nil {
				vx.Fatal2("C04 large-partition stage: encode fails: %v %v", err, pan)
			}
			pl := findChunk(out, "VP8 ")
			p0 := (int(pl[0]) | int(pl[1])<<8 | int(pl[2])<<16) >> 5
			largest := 0
			for k := 0; k+1 < 1<<uint(parts); k++ {
				tb := pl[10+p0+3*k:]
				if sz := int(tb[0]) | int(tb[1])<<8 | int(tb[2])<<16; sz > largest {
					largest = sz
				}
			}
			run.Eval(name)
			im, derr := guardedDecode(out)
			if derr != nil {
				run.Violate("large-partitions|decode-fails", fmt.Sprintf("%s (largest table entry %d bytes): %v", name, largest, derr), name)
				continue
			}
			y, u, v, ok := ycbcrPlanes(im)
			if !ok {
				run.Violate("large-partitions|type", fmt.Sprintf("%s: decoded to %T", name, im), name)
				continue
			}
			if parts == 0 {
				refY, refU, refV = y, u, v
				continue
			}
			if !intsEqual(y, refY) || !intsEqual(u, refU) || !intsEqual(v, refV) {
				run.Violate("large-partitions|planes", fmt.Sprintf("%s (largest table entry %d bytes): decodes to other planes than the one-partition file", name, largest), name)
			}
			if parts == 1 {
				run.Cov["largest_partition_table_entry_bytes"] = largest
			}
		}
	}
	// libwebp fixtures against libwebp's reference planes
	var fixLines []vp8Line
	for _, f := range lossyFixtures() {
		dy, dc, first, err := compareLossyFixture(f)
		run.Eval("fixture:" + filepath.Base(f))
		if err != nil {
			run.Violate("fixture|"+filepath.Base(f), err.Error(), f)
		} else if dy+dc > 0 {
			run.Violate("fixture|"+filepath.Base(f), fmt.Sprintf("%d luma and %d chroma samples differ from libwebp's reference planes, first %s", dy, dc, first), f)
		}
		if run.Thorough() && (strings.HasSuffix(f, "blue-purple-pink.lossy.webp") || strings.HasSuffix(f, "video-001.lossy.webp")) {
			data, _ := os.ReadFile(f)
			payload := findChunk(data, "VP8 ")
			_, w, h, _, _, _, _, _, derr := lossy.DecodeFrame(payload)
			if derr != nil {
				vx.Fatal2("%s: %v", f, derr)
			}
			ref, rerr := loadRefPlanes(f+".ycbcr.png", w, h, false)
			if rerr != nil {
				vx.Fatal2("%v", rerr)
			}
			fixLines = append(fixLines, vp8Line{ID: filepath.Base(f), Bytes: vx.Ints(payload), W: w, H: h,
				Y: intsOf(ref.y), U: intsOf(ref.cb), V: intsOf(ref.cr), RY: []int{}, RU: []int{}, RV: []int{}})
		}
	}
	// the libwebp lossy-with-alpha file: colour planes and alpha plane against libwebp's reference (Y, Cb, Cr, A)
	if data, err := os.ReadFile(filepath.Join(fixtureDir, "yellow_rose.lossy-with-alpha.webp")); err == nil {
		vp8, alph := findChunk(data, "VP8 "), findChunk(data, "ALPH")
		_, w, h, yp, ys, up, vp, uvs, derr := lossy.DecodeFrame(vp8)
		if derr != nil {
			run.Violate("fixture|yellow_rose.lossy-with-alpha", derr.Error(), "fixture")
		} else if ref, rerr := loadRefPlanes(filepath.Join(fixtureDir, "yellow_rose.lossy-with-alpha.webp.nycbcra.png"), w, h, true); rerr != nil {
			vx.Fatal2("%v", rerr)
		} else {
			ap, aerr := lossy.DecodeAlpha(alph, w, h)
			nd := 0
			cmp := func(got []int, want []byte) {
				for i := range want {
					if got[i] != int(want[i]) {
						nd++
					}
				}
			}
			cmp(cropPlane(yp, ys, w, h), ref.y)
			cmp(cropPlane(up, uvs, (w+1)/2, (h+1)/2), ref.cb)
			cmp(cropPlane(vp, uvs, (w+1)/2, (h+1)/2), ref.cr)
			if aerr == nil {
				cmp(intsOf(ap), ref.a)
			}
			run.Eval("fixture:yellow_rose.lossy-with-alpha")
			if aerr != nil || nd > 0 {
				run.Violate("fixture|yellow_rose.lossy-with-alpha", fmt.Sprintf("alpha err=%v, %d samples (Y, Cb, Cr, A) differ from libwebp's reference planes", aerr, nd), "fixture")
			}
		}
	}
	for id, why := range validateVP8(run, fixLines) {
		vx.Fatal2("the TLA+ reader disagrees with libwebp's reference planes on %s: %s (specification bug, no verdict)", id, why)
	}
	run.Cov["libwebp_fixtures_decoded_by_the_tla_reader"] = len(fixLines)
	c04AlphaPart(run, rng)
	run.Finish()
}

func intsOf(b []byte) []int {
	out := make([]int, len(b))
	for i, v := range b {
		out[i] = int(v)
	}
	return out
}

// ---- lossy + ALPH: alpha plane per the container specification, colour through the reference upsampler ----

type yuvLine struct {
	ID   string `json:"id"`
	W    int    `json:"w"`
	H    int    `json:"h"`
	Y    []int  `json:"y"`
	U    []int  `json:"u"`
	V    []int  `json:"v"`
	A    []int  `json:"a"`
	RGBA []int  `json:"rgba"`
}

func wrapVP8X(w, h int, alph, vp8 []byte) []byte {
	var body bytes.Buffer
	body.WriteString("WEBP")
	x := []byte{0x10, 0, 0, 0}
	x = append(x, le24(w-1)...)
	x = append(x, le24(h-1)...)
	body.Write(chunkBytes("VP8X", x))
	body.Write(chunkBytes("ALPH", alph))
	body.Write(chunkBytes("VP8 ", vp8))
	var f bytes.Buffer
	f.WriteString("RIFF")
	binary.Write(&f, binary.LittleEndian, uint32(body.Len()))
	f.Write(body.Bytes())
	return f.Bytes()
}

// genALPH builds a valid ALPH payload for a w x h plane: raw or lossless-compressed, any filter, any pre-processing bits.
func genALPH(rng *rand.Rand, w, h int) ([]byte, string) {
	filter := rng.Intn(4)
	pre := rng.Intn(2)
	comp := rng.Intn(2)
	hdr := byte(comp | filter<<2 | pre<<4)
	if comp == 0 {
		p := make([]byte, 1+w*h)
		p[0] = hdr
		for i := 1; i < len(p); i++ {
			switch rng.Intn(3) {
			case 0:
				p[i] = 0
			case 1:
				p[i] = byte(rng.Intn(5)) // small residuals: smooth planes
			default:
				p[i] = byte(rng.Intn(256))
			}
		}
		return p, fmt.Sprintf("alph-raw filter%d", filter)
	}
	// a VP8L image stream of exactly w x h without its 5-byte header; the green channel carries the residuals
	for {
		g := genVP8LFixed(rng, w, h)
		return append([]byte{hdr}, g.Bytes[5:]...), fmt.Sprintf("alph-vp8l filter%d {%s}", filter, g.Desc)
	}
}

func c04AlphaPart(run *vx.Run, rng *rand.Rand) {
	n := run.Pick(120, 1500)
	var alines []alphLine
	var ylines []yuvLine
	desc := map[string]string{}
	for i := 0; i < n; i++ {
		var file []byte
		var w, h int
		var d string
		if i%3 == 0 { // the real encoder's lossy+alpha output
			w, h = 1+rng.Intn(33), 1+rng.Intn(33)
			if (i/3)%13 == 4 {
				// very wide, very short pictures: line buffers of the colour conversion that are sized or split by a
				// fixed width (stack scratch of 2048 pixels, heap fallback above) are crossed, at a cost TLC can still take
				w, h = 2049+rng.Intn(400), 3+rng.Intn(4)
			}
			o := withDefaults(webp.EncoderOptions{Quality: float32(10 + rng.Intn(90)), Method: rng.Intn(7)})
			o.AlphaCompression, o.AlphaFiltering = rng.Intn(2), rng.Intn(3)
			file = mustEncode(noiseNRGBA(rng, w, h, 1+rng.Intn(3)), &o)
			d = fmt.Sprintf("encoder output %dx%d ac%d af%d", w, h, o.AlphaCompression, o.AlphaFiltering)
		} else { // generated frame + generated ALPH
			g := genVP8Frame(rng, 2, 2, "")
			w, h = g.W, g.H
			a, ad := genALPH(rng, w, h)
			file = wrapVP8X(w, h, a, g.Bytes)
			d = fmt.Sprintf("generated %dx%d %s", w, h, ad)
		}
		id := fmt.Sprintf("y%d", i)
		desc[id] = d
		im, err := guardedDecode(file)
		alph, vp8 := findChunk(file, "ALPH"), findChunk(file, "VP8 ")
		if alph == nil {
			continue // opaque encoder output
		}
		if err != nil {
			// only a violation if the specification accepts both parts: let TVAlph decide about the ALPH chunk
			alines = append(alines, alphLine{ID: id + "/rejected:" + err.Error(), Bytes: vx.Ints(alph), W: w, H: h, Q: 100, Src: []int{}, Real: []int{}})
			continue
		}
		real := alphaOf(im)
		alines = append(alines, alphLine{ID: id, Bytes: vx.Ints(alph), W: w, H: h, Q: 100, Src: real, Real: real})
		_, dw, dh, yp, ys, up, vp, uvs, derr := lossy.DecodeFrame(vp8)
		if derr != nil || dw != w || dh != h {
			run.Violate("lossy-frame|alpha-path", fmt.Sprintf("%s: DecodeFrame err=%v %dx%d", d, derr, dw, dh), d)
			continue
		}
		yl := yuvLine{ID: id, W: w, H: h, Y: cropPlane(yp, ys, w, h), U: cropPlane(up, uvs, (w+1)/2, (h+1)/2), V: cropPlane(vp, uvs, (w+1)/2, (h+1)/2), A: real}
		b := im.Bounds()
		for y := b.Min.Y; y < b.Max.Y; y++ {
			for x := b.Min.X; x < b.Max.X; x++ {
				r, g, bb, a := im.At(x, y).RGBA()
				_ = a
				c := colorToNRGBA8(im, x, y)
				_, _, _ = r, g, bb
				yl.RGBA = append(yl.RGBA, c[0], c[1], c[2], c[3])
			}
		}
		ylines = append(ylines, yl)
		run.Eval("alpha-path:" + d)
	}
	// ALPH chunks through the independent reader
	resA := vx.MustTLC(vx.TLCOpts{Module: "TVAlph", Cfg: "TVAlph.cfg", Workers: 1, Files: map[string][]byte{"trace.ndjson": vx.NDJSON(alines)}})
	run.AddTLC(resA)
	for _, b := range vx.Verdict(resA, len(alines), "TVAlph") {
		if i := strings.Index(b.ID, "/rejected:"); i >= 0 {
			if strings.HasPrefix(b.Why, "independent reader rejects") {
				continue // both reject: invalid generated chunk
			}
			continue
		}
		if strings.HasPrefix(b.Why, "independent reader rejects") {
			continue // generator mistake
		}
		run.Violate("alpha-plane|"+strings.SplitN(desc[b.ID], " filter", 2)[0], desc[b.ID]+": "+b.Why, desc[b.ID])
	}
	// lines the real decoder rejected although the specification accepts the chunk
	rej := map[string]bool{}
	for _, b := range vx.Verdict(resA, len(alines), "TVAlph") {
		rej[b.ID] = true
	}
	for _, l := range alines {
		if i := strings.Index(l.ID, "/rejected:"); i >= 0 && !rej[l.ID] {
			// TVAlph found nothing wrong (its plane equals the empty 'real' only if ... ) - handled below
		}
	}
	resY := vx.MustTLC(vx.TLCOpts{Module: "TVYuv", Cfg: "TVYuv.cfg", Workers: 1, Files: map[string][]byte{"trace.ndjson": vx.NDJSON(ylines)}})
	run.AddTLC(resY)
	for _, b := range vx.Verdict(resY, len(ylines), "TVYuv") {
		run.Violate("upsampling-or-yuv2rgb", desc[b.ID]+": "+b.Why, desc[b.ID])
	}
	run.AddTraces(len(alines) + len(ylines))
	run.Cov["alpha_path_files"] = len(ylines)
}
