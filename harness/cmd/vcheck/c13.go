package main

import (
	"bytes"
	"encoding/json"
	"fmt"
	"image"
	"math/rand"
	"os"
	"os/exec"
	"path/filepath"
	"strings"
	"sync"
	"time"

	"github.com/deepteams/webp"
	"github.com/deepteams/webp/animation"
	"github.com/deepteams/webp/internal/dsp"
	"github.com/deepteams/webp/internal/lossy"
	"github.com/deepteams/webp/verifx/vx"
)

func init() {
	register("C13", checkC13)
	register("C13-child", c13Child)
}

type c13Case struct {
	name string
	run  func() string
}

// kernel inputs: corner values (saturation, sign, rounding ties) and seeded random ones
// wide=false: values up to 2048 (inside the range in which 16-bit inverse transforms cannot overflow);
// wide=true: the two classes beyond it (see the known finding on overflowing coefficients).
func kernelCoeffSets(rng *rand.Rand, n int, wide bool) [][]int16 {
	var out [][]int16
	corner := []int16{0, 1, -1, 2, -2, 3, 4, -4, 7, 8, 127, 128, -128, 255, 256, -255, 1023, -1024, 2047, -2048}
	for i := 0; i < n; i++ {
		c := make([]int16, 32)
		cls := i % 4
		if wide {
			cls = 4 + i%2
		}
		switch cls {
		case 4: // several coefficients of a few thousand: intermediate sums leave the 16-bit range
			for k := range c {
				if rng.Intn(3) == 0 {
					c[k] = int16(rng.Intn(16384) - 8192)
				}
			}
		case 5: // the whole 16-bit range, as a hostile stream can produce it (level x quantiser, truncated to 16 bits)
			wv := []int16{32767, -32768, 16384, -16384, 8192, -8192, 4096, -4096, 12345, -23456, 30000, -30000}
			for k := range c {
				if rng.Intn(2) == 0 {
					c[k] = wv[rng.Intn(len(wv))]
				} else {
					c[k] = int16(rng.Intn(65536) - 32768)
				}
			}
		case 0:
			for k := range c {
				c[k] = corner[rng.Intn(len(corner))]
			}
		case 1:
			c[0] = corner[rng.Intn(len(corner))] // DC only
			c[16] = corner[rng.Intn(len(corner))]
		case 2:
			for k := range c {
				if rng.Intn(4) == 0 {
					c[k] = int16(rng.Intn(600) - 300)
				}
			}
			c[0], c[16] = 0, 0 // zero DC, non-zero AC
		default:
			for k := range c {
				c[k] = int16(rng.Intn(4096) - 2048)
			}
		}
		out = append(out, c)
	}
	return out
}

func c13Cases(seed int64, thorough bool) []c13Case {
	rng := rand.New(rand.NewSource(seed))
	var cs []c13Case
	// ---- kernel level: exported dispatch entries on fixed inputs ----
	coeffs := kernelCoeffSets(rng, 200, false)
	wideCoeffs := kernelCoeffSets(rng, 120, true)
	bg := make([]byte, 32*8)
	rng.Read(bg)
	cs = append(cs, c13Case{"kernel:Transform(two blocks)+TransformUV+TransformDC+AC3", func() string {
		h := uint64(0)
		for _, c := range coeffs {
			for _, two := range []bool{false, true} {
				dst := append([]byte(nil), bg...)
				cc := append([]int16(nil), c...)
				dsp.Transform(cc, dst, two)
				h = h*1099511628211 ^ hashBytes(dst)
			}
			dst := append([]byte(nil), bg...)
			c4 := make([]int16, 64)
			copy(c4, c)
			copy(c4[32:], c)
			dsp.TransformUV(c4, dst)
			h = h*1099511628211 ^ hashBytes(dst)
			dst = append([]byte(nil), bg...)
			dsp.TransformDC(append([]int16(nil), c...), dst)
			h = h*1099511628211 ^ hashBytes(dst)
			dst = append([]byte(nil), bg...)
			c3 := make([]int16, 16)
			c3[0], c3[1], c3[4] = c[0], c[1], c[4]
			dsp.TransformAC3(c3, dst)
			h = h*1099511628211 ^ hashBytes(dst)
			dst = append([]byte(nil), bg...)
			dsp.TransformDCUV(c4, dst)
			h = h*1099511628211 ^ hashBytes(dst)
		}
		return fmt.Sprintf("%x", h)
	}})
	// the decoder-side inverse transforms on coefficients beyond the overflow-free range (a hostile stream produces
	// them: level x quantiser truncated to 16 bits)
	cs = append(cs, c13Case{"kernel-wide:Transform+TransformUV+TransformDC+AC3+DCUV+TransformWHT (coefficients beyond 2048)", func() string {
		h := uint64(0)
		for _, c := range wideCoeffs {
			for _, two := range []bool{false, true} {
				dst := append([]byte(nil), bg...)
				dsp.Transform(append([]int16(nil), c...), dst, two)
				h = h*1099511628211 ^ hashBytes(dst)
			}
			c4 := make([]int16, 64)
			copy(c4, c)
			copy(c4[32:], c)
			dst := append([]byte(nil), bg...)
			dsp.TransformUV(c4, dst)
			h = h*1099511628211 ^ hashBytes(dst)
			dst = append([]byte(nil), bg...)
			dsp.TransformDC(append([]int16(nil), c...), dst)
			h = h*1099511628211 ^ hashBytes(dst)
			dst = append([]byte(nil), bg...)
			c3 := make([]int16, 16)
			c3[0], c3[1], c3[4] = c[0], c[1], c[4]
			dsp.TransformAC3(c3, dst)
			h = h*1099511628211 ^ hashBytes(dst)
			dst = append([]byte(nil), bg...)
			dsp.TransformDCUV(c4, dst)
			h = h*1099511628211 ^ hashBytes(dst)
			out := make([]int16, 256)
			dsp.TransformWHT(append([]int16(nil), c[:16]...), out)
			for _, v := range out {
				h = h*31 + uint64(uint16(v))
			}
		}
		return fmt.Sprintf("%x", h)
	}})
	cs = append(cs, c13Case{"kernel:TransformWHT+FTransformWHT+FTransform+ITransform", func() string {
		h := uint64(0)
		for _, c := range coeffs {
			out := make([]int16, 256)
			dsp.TransformWHT(append([]int16(nil), c[:16]...), out)
			for _, v := range out {
				h = h*31 + uint64(uint16(v))
			}
			in := make([]int16, 256)
			for k := 0; k < 16; k++ {
				in[k*16] = c[k]
			}
			o2 := make([]int16, 16)
			dsp.FTransformWHT(in, o2)
			for _, v := range o2 {
				h = h*31 + uint64(uint16(v))
			}
			src := append([]byte(nil), bg...)
			ref := make([]byte, len(bg))
			for k := range ref {
				ref[k] = bg[(k*7+3)%len(bg)]
			}
			o3 := make([]int16, 32)
			dsp.FTransform(src, ref, o3)
			for _, v := range o3[:16] {
				h = h*31 + uint64(uint16(v))
			}
			dsp.FTransform2(src, ref, o3)
			for _, v := range o3 {
				h = h*31 + uint64(uint16(v))
			}
			dst := append([]byte(nil), bg...)
			dsp.ITransform(ref, append([]int16(nil), c...), dst, true)
			h = h*1099511628211 ^ hashBytes(dst)
		}
		return fmt.Sprintf("%x", h)
	}})
	cs = append(cs, c13Case{"kernel:SSE+lossless green", func() string {
		h := uint64(0)
		a, b := make([]byte, 32*16), make([]byte, 32*16)
		for i := 0; i < 60; i++ {
			rng2 := rand.New(rand.NewSource(int64(i)))
			rng2.Read(a)
			rng2.Read(b)
			if i%5 == 0 {
				for k := range a {
					a[k], b[k] = 255, 0
				}
			}
			h = h*31 + uint64(dsp.SSE4x4(a, b)) + 7*uint64(dsp.SSE16x16(a, b))
			px := make([]uint32, 37+i)
			for k := range px {
				px[k] = rng2.Uint32()
			}
			dst := append([]uint32(nil), px...)
			dsp.AddGreenToBlueAndRedFunc(dst, len(dst))
			for _, v := range dst {
				h = h*31 + uint64(v)
			}
			dsp.SubtractGreenFunc(px, len(px))
			for _, v := range px {
				h = h*31 + uint64(v)
			}
		}
		return fmt.Sprintf("%x", h)
	}})
	// quantisation with the parameter combinations the encoder's matrices can take: every AC step 4..284 (and the DC
	// steps), the four rounding biases of the format's bias matrices, sharpening as derived from the step, and every
	// magnitude up to 320 (the zero/one decision boundaries of every step lie there) plus large ones, both signs
	cs = append(cs, c13Case{"kernel:QuantizeCoeffs+DequantCoeffs (step x bias x magnitude sweep)", func() string {
		h := uint64(0)
		freqSharpen := [16]int{0, 30, 60, 90, 30, 60, 90, 90, 60, 90, 90, 90, 90, 90, 90, 90}
		for step := 4; step <= 284; step++ {
			for _, biasByte := range []int{96, 108, 110, 115} {
				sq := lossy.SegmentQuant{Quant: step, IQuant: (1 << 17) / step, Bias: biasByte << 9,
					DCQuant: 4 + step/2, DCIQuant: (1 << 17) / (4 + step/2), DCBias: 96 << 9}
				sq.Zthresh = ((1 << 17) - 1 - sq.Bias) / sq.IQuant
				sq.DCZthresh = ((1 << 17) - 1 - sq.DCBias) / sq.DCIQuant
				if biasByte == 110 { // the luma matrix is the one with frequency sharpening
					for i := range sq.Sharpen {
						sq.Sharpen[i] = int16(freqSharpen[i] * step >> 11)
					}
				}
				for base := 0; base <= 320; base += 15 {
					var in, out, deq [16]int16
					for k := 1; k < 16; k++ {
						v := base + k - 1
						if (base/15+k)%2 == 0 {
							v = -v
						}
						in[k] = int16(v)
					}
					in[0] = int16(base*3 - 400)
					if base == 315 {
						for k := range in {
							in[k] = int16([]int{2047, -2048, 1500, -1999, 700, 32767 / 17}[k%6])
						}
					}
					nz := lossy.QuantizeCoeffs(in[:], out[:], &sq, step%2)
					lossy.DequantCoeffs(out[:], deq[:], &sq)
					h = h*1099511628211 ^ uint64(nz+1)
					for k := range out {
						h = h*31 + uint64(uint16(out[k]))*7 + uint64(uint16(deq[k]))
					}
				}
			}
		}
		return fmt.Sprintf("%x", h)
	}})
	// loop-filter kernels on structured edges: every entry (simple / normal, vertical / horizontal, macroblock edge /
	// inner edges, luma / chroma) on blocks whose rows or columns next to the edge are random, flat, equal across the
	// edge (p0 == q0 on the whole edge, outer rows differing), steps around the thresholds, and saturating values
	cs = append(cs, c13Case{"kernel:loop filters (simple+normal, V+H, edge+inner, luma+chroma) on structured edges", func() string {
		h := uint64(0)
		const stride = 64
		frng := rand.New(rand.NewSource(seed + 77))
		mk := func(class int) []byte {
			b := make([]byte, stride*48)
			frng.Read(b)
			switch class {
			case 1: // both sides of every 4-row / 4-column boundary equal (p0 == q0), the rows beyond differ
				for y := 0; y < 48; y++ {
					for x := 0; x < stride; x++ {
						v := byte(40 + 6*(y/4*4%7) + 5*(x/4*4%5))
						switch {
						case y%4 == 3 || y%4 == 0:
							b[y*stride+x] = 120
						default:
							b[y*stride+x] = v + byte(frng.Intn(9))
						}
					}
				}
				for y := 0; y < 48; y++ {
					for x := 0; x < stride; x++ {
						if x%4 == 3 || x%4 == 0 {
							b[y*stride+x] = 120
						}
					}
				}
			case 2: // small steps around the thresholds
				for y := 0; y < 48; y++ {
					for x := 0; x < stride; x++ {
						b[y*stride+x] = byte(100 + (y/4)*3 + (x/4)*2 + frng.Intn(4))
					}
				}
			case 3: // saturating: 0 / 255 blocks
				for y := 0; y < 48; y++ {
					for x := 0; x < stride; x++ {
						b[y*stride+x] = byte(255 * (((y / 4) + (x / 4)) % 2))
						if frng.Intn(5) == 0 {
							b[y*stride+x] ^= byte(frng.Intn(6))
						}
					}
				}
			case 4: // flat
				for k := range b {
					b[k] = 77
				}
			}
			return b
		}
		base := 16*stride + 16
		for class := 0; class <= 4; class++ {
			for _, th := range []int{0, 1, 2, 3, 5, 9, 14, 20, 33, 48, 63, 80, 127} {
				for _, ith := range []int{0, 1, 3, 9, 20, 63} {
					hev := []int{0, 1, 2, 5}[(th+ith)%4]
					src := mk(class)
					run := func(f func(p []byte)) {
						d := append([]byte(nil), src...)
						f(d)
						h = h*1099511628211 ^ hashBytes(d)
					}
					if ith == 0 {
						run(func(d []byte) { dsp.SimpleVFilter16(d, base, stride, th) })
						run(func(d []byte) { dsp.SimpleHFilter16(d, base, stride, th) })
						run(func(d []byte) { dsp.SimpleVFilter16i(d, base, stride, th) })
						run(func(d []byte) { dsp.SimpleHFilter16i(d, base, stride, th) })
					}
					run(func(d []byte) { dsp.VFilter16(d, base, stride, th, ith, hev) })
					run(func(d []byte) { dsp.HFilter16(d, base, stride, th, ith, hev) })
					run(func(d []byte) { dsp.VFilter16i(d, base, stride, th, ith, hev) })
					run(func(d []byte) { dsp.HFilter16i(d, base, stride, th, ith, hev) })
					run(func(d []byte) { dsp.VFilter8(d, d, base, base+24, stride, th, ith, hev) })
					run(func(d []byte) { dsp.HFilter8(d, d, base, base+24*stride, stride, th, ith, hev) })
					run(func(d []byte) { dsp.VFilter8i(d, d, base, base+24, stride, th, ith, hev) })
					run(func(d []byte) { dsp.HFilter8i(d, d, base, base+24*stride, stride, th, ith, hev) })
				}
			}
		}
		return fmt.Sprintf("%x", h)
	}})
	// chroma upsampling + YUV->NRGBA conversion of line pairs: every luma value, chroma neutral / constant / random /
	// neutral runs between coloured pixels, widths around every SIMD group size, with and without a bottom line
	cs = append(cs, c13Case{"kernel:UpsampleLinePairNRGBA (luma sweep x chroma classes x widths)", func() string {
		h := uint64(0)
		urng := rand.New(rand.NewSource(seed + 78))
		var widths []int
		for w := 1; w <= 40; w++ {
			widths = append(widths, w)
		}
		widths = append(widths, 63, 64, 65, 100, 257)
		for _, w := range widths {
			cw := (w + 1) / 2
			for cc := 0; cc < 5; cc++ {
				for lc := 0; lc < 4; lc++ {
					ty, by := make([]byte, w), make([]byte, w)
					for x := 0; x < w; x++ {
						switch lc {
						case 0:
							ty[x], by[x] = byte(x*7+w*3+cc*11), byte(255-x*5-w)
						case 1:
							ty[x], by[x] = byte(urng.Intn(256)), byte(urng.Intn(256))
						case 2:
							ty[x], by[x] = []byte{86, 159, 232, 16, 235}[(x/4+w)%5], []byte{232, 86, 159, 0, 255}[(x/3)%5]
						default:
							ty[x], by[x] = byte(80+x%16), byte(150+x%16)
						}
					}
					tu, tv, bu, bv := make([]byte, cw), make([]byte, cw), make([]byte, cw), make([]byte, cw)
					for x := 0; x < cw; x++ {
						switch cc {
						case 0:
							tu[x], tv[x], bu[x], bv[x] = 128, 128, 128, 128
						case 1:
							tu[x], tv[x], bu[x], bv[x] = 90, 200, 90, 200
						case 2:
							tu[x], tv[x], bu[x], bv[x] = byte(urng.Intn(256)), byte(urng.Intn(256)), byte(urng.Intn(256)), byte(urng.Intn(256))
						case 3: // neutral runs between coloured pixels
							if (x/5)%2 == 0 {
								tu[x], tv[x], bu[x], bv[x] = 128, 128, 128, 128
							} else {
								tu[x], tv[x], bu[x], bv[x] = byte(60+x), byte(190-x), byte(61+x), byte(188-x)
							}
						default: // extremes
							tu[x], tv[x], bu[x], bv[x] = byte(255*(x%2)), byte(255*((x/2)%2)), byte(255*((x+1)%2)), 0
						}
					}
					for _, withBot := range []bool{true, false} {
						for _, withAlpha := range []bool{false, true} {
							td, bd := make([]byte, 4*w), make([]byte, 4*w)
							var at, ab []byte
							if withAlpha {
								at, ab = make([]byte, w), make([]byte, w)
								for x := range at {
									at[x], ab[x] = byte(x*13+w), byte(255-x*3)
								}
							}
							if withBot {
								dsp.UpsampleLinePairNRGBA(ty, by, tu, tv, bu, bv, td, bd, at, ab, w)
							} else {
								dsp.UpsampleLinePairNRGBA(ty, nil, tu, tv, bu, bv, td, nil, at, nil, w)
							}
							h = (h*1099511628211 ^ hashBytes(td)) * 31
							h ^= hashBytes(bd)
						}
					}
				}
			}
		}
		return fmt.Sprintf("%x", h)
	}})
	// ---- pipeline level ----
	enc := func(name string, img image.Image, o webp.EncoderOptions) {
		cs = append(cs, c13Case{"Encode+Decode:" + name, func() string {
			oo := o
			var buf bytes.Buffer
			if err := webp.Encode(&buf, img, &oo); err != nil {
				return "error: " + err.Error()
			}
			d, err := webp.Decode(bytes.NewReader(buf.Bytes()))
			if err != nil {
				return "error: " + err.Error()
			}
			return fmt.Sprintf("%d bytes %x pixels %s", buf.Len(), hashBytes(buf.Bytes()), digestImage(d))
		}})
	}
	pics := map[string]image.Image{
		"graded-97x61":      lossyPicture(rng, 97, 61, "graded"),
		"noise-64x48":       noiseNRGBA(rng, 64, 48, 0),
		"smooth-130x70":     lossyPicture(rng, 130, 70, "smooth"),
		"alpha-75x33":       gradientAlpha(rng, 75, 33),
		"palette-40x40":     palettedNRGBA(rng, 40, 40, 9),
		"wide-alpha-4200x6": gradientAlpha(rng, 4200, 6), // wider than any SIMD tile/scratch buffer of the upsampler
		"tiny-1x1":          noiseNRGBA(rng, 1, 1, 2),
		"odd-17x3":          noiseNRGBA(rng, 17, 3, 2),
	}
	// every quantiser index: a quality sweep in steps of one on busy pictures (the quantisation kernels' rounding
	// boundaries depend on the exact step size; segments off, so the whole picture uses the one index)
	for q := 0; q <= 100; q++ {
		o := *webp.DefaultOptions()
		o.Quality, o.Method, o.Segments, o.SNSStrength = float32(q), []int{0, 3, 5}[q%3], 1, 0
		enc(fmt.Sprintf("noise-64x48 lossy q%d m%d one-segment (quality sweep)", q, o.Method), pics["noise-64x48"], o)
		if !thorough && q%2 == 1 {
			continue
		}
		o.SNSStrength = 100 // the strongest frequency sharpening
		enc(fmt.Sprintf("graded-97x61 lossy q%d m%d one-segment sns100 (quality sweep)", q, o.Method), pics["graded-97x61"], o)
	}
	// the coarse end in quarter steps (there the 101 integer qualities skip quantiser indices)
	for q4 := 1; q4 < 200; q4++ {
		if q4%4 == 0 || (!thorough && q4%2 == 0) {
			continue
		}
		o := *webp.DefaultOptions()
		o.Quality, o.Method, o.Segments, o.SNSStrength = float32(q4)/4, 0, 1, 0
		enc(fmt.Sprintf("noise-64x48 lossy q%v m0 one-segment (quality sweep)", o.Quality), pics["noise-64x48"], o)
	}
	names := []string{"graded-97x61", "noise-64x48", "smooth-130x70", "alpha-75x33", "palette-40x40", "wide-alpha-4200x6", "tiny-1x1", "odd-17x3"}
	for _, pn := range names {
		for _, q := range []float32{5, 50, 75, 90, 98} {
			for _, m := range []int{0, 2, 4, 6} {
				if !thorough && (int(q)+m)%3 != 0 {
					continue
				}
				o := *webp.DefaultOptions()
				o.Quality, o.Method = q, m
				enc(fmt.Sprintf("%s lossy q%v m%d", pn, q, m), pics[pn], o)
			}
		}
		o := *webp.DefaultOptions()
		o.UseSharpYUV, o.Preprocessing, o.FilterType, o.FilterSharpness = true, 2, 0, 4
		enc(pn+" lossy sharp+dither+simple-filter", pics[pn], o)
		o = *webp.DefaultOptions()
		o.TargetSize, o.Segments, o.Partitions = 1500, 2, 2
		enc(pn+" lossy targetsize", pics[pn], o)
		if pn != "wide-alpha-4200x6" {
			for _, m := range []int{0, 3, 6} {
				enc(fmt.Sprintf("%s lossless m%d", pn, m), pics[pn], webp.EncoderOptions{Lossless: true, Quality: 70, Method: m})
			}
		}
	}
	// foreign streams and libwebp files through the decoder
	for i := 0; i < 40; i++ {
		g := genVP8Frame(rng, 3, 2, "")
		cs = append(cs, c13Case{"Decode:generated VP8 " + g.Desc, func() string {
			im, err := webp.Decode(bytes.NewReader(wrapVP8(g.Bytes)))
			if err != nil {
				return "error: " + err.Error()
			}
			return digestImage(im)
		}})
	}
	// syntactically valid frames whose coefficient levels are as large as the token syntax allows: level x quantiser
	// exceeds 16 bits and the inverse transforms work on wrapped / overflowing values
	for i := 0; i < 12; i++ {
		g := genVP8Frame(rng, 2, 2, "hostile-coeffs")
		cs = append(cs, c13Case{"Decode:hostile-coefficients VP8 " + g.Desc, func() string {
			im, err := webp.Decode(bytes.NewReader(wrapVP8(g.Bytes)))
			if err != nil {
				return "error: " + err.Error()
			}
			return digestImage(im)
		}})
	}
	for i := 0; i < 40; i++ {
		g := genVP8L(rng, 20, 14)
		cs = append(cs, c13Case{"Decode:generated VP8L " + g.Desc, func() string {
			im, err := webp.Decode(bytes.NewReader(wrapVP8L(g.Bytes)))
			if err != nil {
				return "error: " + err.Error()
			}
			return digestImage(im)
		}})
	}
	fx, _ := filepath.Glob(filepath.Join(fixtureDir, "*.webp"))
	for _, f := range fx {
		f := f
		cs = append(cs, c13Case{"Decode:fixture " + filepath.Base(f), func() string {
			data, err := os.ReadFile(f)
			if err != nil {
				return "error: " + err.Error()
			}
			im, err := webp.Decode(bytes.NewReader(data))
			if err != nil {
				return "error: " + err.Error()
			}
			return digestImage(im)
		}})
	}
	animIn := []*image.NRGBA{noiseNRGBA(rng, 30, 20, 1), noiseNRGBA(rng, 30, 20, 2), noiseNRGBA(rng, 30, 20, 0)}
	cs = append(cs, c13Case{"Animation lossy+mixed", func() string {
		var buf bytes.Buffer
		e := animation.NewEncoder(&buf, 30, 20, &animation.EncodeOptions{Quality: 60, AllowMixed: true})
		for i, p := range animIn {
			if err := e.AddFrame(p, time.Duration(20+i)*time.Millisecond); err != nil {
				return "error: " + err.Error()
			}
		}
		if err := e.Close(); err != nil {
			return "error: " + err.Error()
		}
		return fmt.Sprintf("%x", hashBytes(buf.Bytes()))
	}})
	return cs
}

func c13Child(args []string) {
	mode := args[0]
	seed := int64(1)
	fmt.Sscan(os.Getenv("VERIF_SEED"), &seed)
	if mode == "sse2" {
		dsp.VerifDisableAVX2()
	}
	for i, c := range c13Cases(seed, os.Getenv("VERIF_TIER") == "thorough") {
		fmt.Printf("DIGEST %d %s\n", i, c.run())
	}
	// recorded kernel calls (input, output) for trace validation against the format's arithmetic
	rng := rand.New(rand.NewSource(seed + 99))
	for i, c := range kernelCoeffSets(rng, 80, false) {
		in := c[:16]
		out := make([]int16, 256)
		dsp.TransformWHT(append([]int16(nil), in...), out)
		dc := make([]int, 16)
		for k := range dc {
			dc[k] = int(out[k*16])
		}
		fmt.Printf("KERNEL %s\n", mustJSON(map[string]any{"id": fmt.Sprintf("%s-wht-%d", mode, i), "k": "wht", "in": ints16(in), "out": dc}))
		dst := make([]byte, 32*4)
		for k := range dst {
			dst[k] = 128
		}
		dsp.Transform(append(append([]int16(nil), in...), make([]int16, 16)...), dst, false)
		px := make([]int, 16)
		for k := range px {
			px[k] = int(dst[(k/4)*32+k%4])
		}
		fmt.Printf("KERNEL %s\n", mustJSON(map[string]any{"id": fmt.Sprintf("%s-idct-%d", mode, i), "k": "idct", "in": ints16(in), "out": px}))
	}
}

func ints16(a []int16) []int {
	out := make([]int, len(a))
	for i, v := range a {
		out[i] = int(v)
	}
	return out
}

func mustJSON(v any) string {
	b, err := json.Marshal(v)
	if err != nil {
		panic(err)
	}
	return string(b)
}

func checkC13(args []string) {
	run := vx.NewRun("C13", "exploration", args)
	activeRun = run
	run.Rule = "code path in {AVX2 (native), SSE2 (AVX2 switched off by a verif hook), portable Go (go build -overlay that removes every architecture-specific file and un-constrains the !amd64 && !arm64 ones)} x (a) kernel calls through the exported dispatch entries on corner-value and seeded inputs and (b) pipeline cases: Encode+Decode over pictures (graded, noise, smooth, alpha, palette, 4200-pixel-wide alpha, 1x1, odd) x lossy quality/method grid, sharp YUV, dithering, simple filter, target size, lossless methods; Decode of generated foreign VP8/VP8L streams and of the libwebp files; every digest must be identical across the three builds; recorded inverse-DCT and inverse-WHT kernel calls of each build are trace-validated against the arithmetic of the format specification (spec/Vp8.tla via TVKernels). Plus `go build ./...` for the GOOS/GOARCH list. distinct = distinct (case, code path) pairs"
	run.Assumptions = []string{"the portable build is obtained with -overlay on this amd64 machine (32-bit binaries cannot be executed here)", "that the three paths compute the RIGHT values is C04/C03 (independent reader); this check decides equality between paths"}
	portable := os.Getenv("VCHECK_PORTABLE_BIN")
	if portable == "" {
		vx.Fatal2("VCHECK_PORTABLE_BIN not set (bin/check builds it)")
	}
	cases := c13Cases(run.Seed, run.Thorough())
	type cres struct {
		mode string
		ds   []string
		err  error
		out  string
		kern []string
	}
	modes := []struct{ name, bin, arg string }{{"avx2", os.Args[0], "avx2"}, {"sse2", os.Args[0], "sse2"}, {"portable", portable, "portable"}}
	ch := make(chan cres, len(modes))
	for _, m := range modes {
		go func(name, bin, arg string) {
			cmd := exec.Command(bin, "C13-child", arg)
			cmd.Env = append(os.Environ(), fmt.Sprintf("VERIF_SEED=%d", run.Seed), "VERIF_TIER="+run.Tier)
			out, err := cmd.CombinedOutput()
			var ds, kern []string
			for _, ln := range strings.Split(string(out), "\n") {
				if strings.HasPrefix(ln, "DIGEST ") {
					ds = append(ds, strings.SplitN(ln, " ", 3)[2])
				}
				if strings.HasPrefix(ln, "KERNEL ") {
					kern = append(kern, strings.TrimPrefix(ln, "KERNEL "))
				}
			}
			ch <- cres{name, ds, err, string(out), kern}
		}(m.name, m.bin, m.arg)
	}
	res := map[string][]string{}
	var kernels []string
	for range modes {
		r := <-ch
		if r.err != nil || len(r.ds) != len(cases) {
			vx.Fatal2("C13 child %s failed: %v (%d digests for %d cases)\n%s", r.mode, r.err, len(r.ds), len(cases), tailStr(r.out, 1200))
		}
		res[r.mode] = r.ds
		kernels = append(kernels, r.kern...)
	}
	if len(kernels) == 0 {
		vx.Fatal2("no kernel calls were recorded")
	}
	kres := vx.MustTLC(vx.TLCOpts{Module: "TVKernels", Cfg: "TVKernels.cfg", Workers: 1, Timeout: 20 * time.Minute,
		Files: map[string][]byte{"trace.ndjson": []byte(strings.Join(kernels, "\n") + "\n")}})
	run.AddTLC(kres)
	run.AddTraces(len(kernels))
	for _, b := range vx.Verdict(kres, len(kernels), "TVKernels") {
		run.Violate("kernel-arithmetic|"+strings.SplitN(b.ID, "-", 2)[0]+"|"+strings.SplitN(b.ID, "-", 3)[1], b.ID+": "+b.Why, b.ID)
	}
	for i, c := range cases {
		for _, m := range []string{"avx2", "sse2", "portable"} {
			run.Eval(c.name + "|" + m)
		}
		a, s, p := res["avx2"][i], res["sse2"][i], res["portable"][i]
		cls := strings.SplitN(c.name, " ", 2)[0]
		if strings.HasPrefix(c.name, "Encode+Decode:") {
			cls = "Encode+Decode:" + strings.Join(strings.Fields(strings.SplitN(c.name, " ", 2)[1])[:1], "")
		}
		if strings.HasPrefix(c.name, "kernel-wide:") {
			cls = "wide-coefficients|kernels"
		} else if strings.HasPrefix(c.name, "Decode:hostile-coefficients") {
			cls = "wide-coefficients|Decode"
		}
		if a != s {
			run.Violate("avx2-vs-sse2|"+cls, fmt.Sprintf("%s: AVX2 path gives %q, SSE2 path gives %q", c.name, a, s), c.name)
		}
		if a != p {
			run.Violate("asm-vs-portable|"+cls, fmt.Sprintf("%s: assembly path gives %q, portable Go path gives %q", c.name, a, p), c.name)
		}
		if i%40 == 0 {
			run.Sample(map[string]any{"case": c.name, "digest": a})
		}
	}
	// compile clause: not decided by the specification (direct enumeration)
	targets := []string{"linux/386", "linux/arm", "linux/arm64", "linux/riscv64", "windows/amd64", "darwin/arm64", "js/wasm", "linux/mips", "linux/ppc64le", "linux/s390x"}
	if run.Thorough() {
		if out, err := exec.Command("go", "tool", "dist", "list").Output(); err == nil {
			targets = strings.Fields(string(out))
		}
	}
	var wg sync.WaitGroup
	var mu sync.Mutex
	sem := make(chan struct{}, 6)
	failed := map[string]string{}
	for _, t := range targets {
		wg.Add(1)
		go func(t string) {
			defer wg.Done()
			sem <- struct{}{}
			defer func() { <-sem }()
			parts := strings.SplitN(t, "/", 2)
			cmd := exec.Command("go", "build", "./...")
			cmd.Dir = repoDir()
			cmd.Env = append(os.Environ(), "GOOS="+parts[0], "GOARCH="+parts[1], "CGO_ENABLED=0", "GOFLAGS=-mod=mod")
			out, err := cmd.CombinedOutput()
			if err != nil {
				s := string(out)
				// platforms the toolchain cannot build pure-Go programs for without cgo/external linking are not counted
				if strings.Contains(s, "requires external (cgo) linking") || strings.Contains(s, "unsupported GOOS/GOARCH") || strings.Contains(s, "cgo") {
					return
				}
				mu.Lock()
				failed[t] = tailStr(s, 400)
				mu.Unlock()
			}
		}(t)
	}
	wg.Wait()
	for _, t := range targets {
		run.Eval("compile:" + t)
	}
	for t, out := range failed {
		run.Violate("compile|"+t, fmt.Sprintf("go build ./... fails for %s: %s", t, out), t)
	}
	run.Cov["compile_targets"] = len(targets)
	run.Finish()
}

func repoDir() string {
	if d := os.Getenv("VERIF_REPO"); d != "" {
		return d
	}
	return "/repo"
}
