package main

import (
	"encoding/json"
	"fmt"
	"time"

	"github.com/deepteams/webp/internal/bitio"
	"github.com/deepteams/webp/internal/lossless"
	"github.com/deepteams/webp/verifx/vx"
)

// huffLine is one line of the TVHuff trace.
type huffLine struct {
	ID    string `json:"id"`
	A     int    `json:"a"`
	Bytes []int  `json:"bytes"`
	NUsed int    `json:"nused"`
	Syms  []int  `json:"syms"`
	NBits int    `json:"nbits"`
}

// validateCodeDescriptions is the writer-side validation of the lossless encoder's prefix-code descriptions: TLC
// enumerates histogram shapes (spec/HuffGen.tla), the real CreateHuffmanTree / StoreHuffmanCode write the code and
// every used symbol once, and the reader specification reads them back (spec/TVHuff.tla).
func validateCodeDescriptions(run *vx.Run) {
	gen := vx.MustTLC(vx.TLCOpts{Module: "HuffGen", Cfg: "GEN_Huff.cfg", Workers: 1, Timeout: 20 * time.Minute, Heap: "4g"})
	run.AddTLC(gen)
	type shape struct{ A, Head, Gap1, Run, Gap2, Tail int }
	var lines []huffLine
	desc := map[string]string{}
	n := 0
	for i, raw := range gen.Tagged("CASE") {
		var s shape
		if err := json.Unmarshal(raw, &s); err != nil {
			vx.Fatal2("HuffGen CASE: %v", err)
		}
		if !run.Thorough() && (int64(i)+run.Seed)%5 != 0 {
			continue
		}
		hist := make([]uint32, s.A)
		pos := 0
		for k := 0; k < s.Head; k++ {
			hist[pos] = uint32(5 + 4*k)
			pos++
		}
		pos += s.Gap1
		for k := 0; k < s.Run; k++ {
			hist[pos] = 3
			pos++
		}
		pos += s.Gap2
		for k := 0; k < s.Tail; k++ {
			hist[pos] = uint32(7 * (k + 1) * (k + 1))
			pos++
		}
		tree := lossless.CreateHuffmanTreeScratch(hist, 15, nil)
		bw := bitio.NewLosslessWriter(1024)
		lossless.StoreHuffmanCodeScratch(bw, tree, nil)
		var syms []int
		used := 0
		for sym, c := range hist {
			if c > 0 {
				used++
				syms = append(syms, sym)
			}
		}
		// a deterministic shuffle so that the read-back order is not the code order
		for k := range syms {
			j := (k*7 + 3) % len(syms)
			syms[k], syms[j] = syms[j], syms[k]
		}
		symBits := 0
		for _, sym := range syms {
			bw.WriteBits(uint32(tree.Codes[sym]), int(tree.CodeLengths[sym]))
			symBits += int(tree.CodeLengths[sym])
		}
		total := symBits // + description bits, computed below from a second writer
		bw2 := bitio.NewLosslessWriter(1024)
		lossless.StoreHuffmanCodeScratch(bw2, tree, nil)
		descBits := bitsWritten(bw2)
		total += descBits
		out := bw.Finish()
		id := fmt.Sprintf("h%d", n)
		n++
		lines = append(lines, huffLine{ID: id, A: s.A, Bytes: vx.Ints(out), NUsed: used, Syms: syms, NBits: total})
		desc[id] = fmt.Sprintf("alphabet %d: %d used symbols, %d unused, %d used with equal counts, %d unused, %d used (description %d bits)", s.A, s.Head, s.Gap1, s.Run, s.Gap2, s.Tail, descBits)
		run.Eval("code-description|" + desc[id])
	}
	if len(lines) == 0 {
		vx.Fatal2("HuffGen produced no shape")
	}
	res := vx.MustTLC(vx.TLCOpts{Module: "TVHuff", Cfg: "TVHuff.cfg", Workers: 1, Timeout: 30 * time.Minute, Heap: "8g",
		Files: map[string][]byte{"trace.ndjson": vx.NDJSON(lines)}})
	run.AddTLC(res)
	run.AddTraces(len(lines))
	for _, b := range vx.Verdict(res, len(lines), "TVHuff") {
		run.Violate("code-description|"+whyShort(b.Why), "prefix-code description written by the lossless encoder for a histogram with "+desc[b.ID]+": "+b.Why, map[string]any{"shape": desc[b.ID]})
	}
	run.Cov["prefix_code_descriptions_validated"] = len(lines)
}

// bitsWritten returns the number of bits written so far: a marker bit is appended and its position found in the
// finished bytes (everything after it is zero padding). The writer cannot be used afterwards.
func bitsWritten(bw *bitio.LosslessWriter) int {
	bw.WriteBits(1, 1)
	out := bw.Finish()
	for i := len(out) - 1; i >= 0; i-- {
		if out[i] != 0 {
			for b := 7; b >= 0; b-- {
				if out[i]>>uint(b)&1 == 1 {
					return i*8 + b
				}
			}
		}
	}
	return 0
}
