package main

import (
	"bytes"
	"encoding/json"
	"fmt"
	"math/rand"
	"strings"
	"time"

	"github.com/deepteams/webp"
	"github.com/deepteams/webp/internal/container"
	"github.com/deepteams/webp/mux"
	"github.com/deepteams/webp/verifx/vx"
)

func init() { register("C14", checkC14) }

type muxCall struct {
	Op string `json:"op"`
	A  int    `json:"a"`
	B  int    `json:"b"`
	C  int    `json:"c"`
}

type muxFrameExp struct {
	Tok, X, Y, Dur, NoBlend, Dispose int
}

type muxExpect struct {
	Err    bool   `json:"err"`
	Reason string `json:"reason"`
	Anim   bool   `json:"anim"`
	CW     int    `json:"cw"`
	CH     int    `json:"ch"`
	Loop   int    `json:"loop"`
	Bg     int    `json:"bg"`
	ICC    int    `json:"icc"`
	EXIF   int    `json:"exif"`
	XMP    int    `json:"xmp"`
	Alpha  bool   `json:"alpha"`
	Frames []struct {
		Tok     int `json:"tok"`
		X       int `json:"x"`
		Y       int `json:"y"`
		Dur     int `json:"dur"`
		NoBlend int `json:"noblend"`
		Dispose int `json:"dispose"`
	} `json:"frames"`
}

type muxCase struct {
	Hist   []muxCall `json:"hist"`
	Expect muxExpect `json:"expect"`
}

// muxTokens binds the abstract payload tokens of spec/Mux.tla to real bitstreams.
type muxTokens struct {
	data  [6][]byte // frame data handed to AddFrame
	img   [6][]byte // the bare VP8/VP8L bitstream inside
	alph  [6][]byte // alpha payload (tokens 4,5)
	blobs [4][]byte
	bgs   [3]uint32
}

func buildMuxTokens(seed int64) *muxTokens {
	t := &muxTokens{}
	rng := rand.New(rand.NewSource(seed))
	lossy := func(w, h int) []byte {
		f := mustEncode(noiseNRGBA(rng, w, h, 0), &webp.EncoderOptions{Quality: 50, Method: 2})
		return findChunk(f, "VP8 ")
	}
	lossless := func(w, h, am int) []byte {
		f := mustEncode(noiseNRGBA(rng, w, h, am), &webp.EncoderOptions{Lossless: true, Quality: 50, Method: 2})
		return append([]byte(nil), findChunk(f, "VP8L")...)
	}
	t.data[1] = lossy(4, 4)
	t.img[1] = t.data[1]
	v2 := lossless(4, 4, 0)
	v2[4] &^= 0x10 // alpha_is_used is a hint; clear it: "VP8L without alpha bit"
	t.data[2], t.img[2] = v2, v2
	v3 := lossless(6, 2, 2)
	v3[4] |= 0x10
	t.data[3], t.img[3] = v3, v3
	// ALPH-prefixed VP8 with odd (token 4, 4x4) and even (token 5, 3x5) alpha payload length
	mk := func(w, h int, wantOdd bool) ([]byte, []byte, []byte) {
		for try := 0; try < 400; try++ {
			ac := try % 2
			f := mustEncode(noiseNRGBA(rng, w, h, 1+try%3), &webp.EncoderOptions{Quality: 50, Method: 2, AlphaCompression: ac, AlphaQuality: 100})
			a, v := findChunk(f, "ALPH"), findChunk(f, "VP8 ")
			if a != nil && v != nil && (len(a)%2 == 1) == wantOdd {
				return alphPrefixed(a, v), v, a
			}
		}
		vx.Fatal2("could not build an ALPH-prefixed token with the wanted parity")
		return nil, nil, nil
	}
	t.data[4], t.img[4], t.alph[4] = mk(4, 4, true)
	t.data[5], t.img[5], t.alph[5] = mk(3, 5, false)
	t.blobs = [4][]byte{nil, {}, {0xAB}, {'V', 'P'}}
	t.bgs = [3]uint32{0, 0x11223344, 0xFFFFFFFF}
	return t
}

// replayMux performs a history on the real Muxer; it returns the result of the last Assemble.
func replayMux(t *muxTokens, h []muxCall) (out []byte, err error, panicked any) {
	defer func() {
		if r := recover(); r != nil {
			panicked = r
		}
	}()
	m := mux.NewMuxer()
	optKinds := []*mux.FrameOptions{nil,
		{Duration: 1},
		{Duration: 70001, OffsetX: 2, OffsetY: 2, BlendMode: mux.BlendNone, DisposeMode: mux.DisposeBackground},
		{Duration: 16777221, OffsetX: 3, OffsetY: 1, DisposeMode: mux.DisposeBackground},
		{Duration: -5, BlendMode: mux.BlendNone},
		{BlendMode: mux.BlendNone, DisposeMode: mux.DisposeBackground},
		{Duration: 258, OffsetX: 131588, OffsetY: 2},
		{Duration: 3, OffsetY: 197640, BlendMode: mux.BlendNone}}
	ids := []mux.ChunkID{0, mux.FourCCICCP, mux.FourCCEXIF, mux.FourCCXMP}
	// the caller keeps ONE FrameOptions variable, fills it in before every AddFrame and scribbles over it afterwards:
	// the options of a frame are the values at the time of its call
	var shared mux.FrameOptions
	for _, c := range h {
		switch c.Op {
		case "AddFrame":
			var o *mux.FrameOptions
			if optKinds[c.B] != nil {
				shared = *optKinds[c.B]
				o = &shared
			}
			e := m.AddFrame(t.data[c.A], o)
			shared = mux.FrameOptions{Duration: 4242, OffsetX: 6, OffsetY: 8, BlendMode: mux.BlendNone, DisposeMode: mux.DisposeBackground}
			if e != nil {
				return nil, fmt.Errorf("AddFrame: %w", e), nil
			}
		case "SetFrameDisposeMode":
			m.SetFrameDisposeMode(c.A, mux.DisposeMode(c.B))
		case "SetFrameDuration":
			m.SetFrameDuration(c.A, c.B)
		case "SetCanvasSize":
			m.SetCanvasSize(c.A, c.B)
		case "SetLoopCount":
			m.SetLoopCount(c.A)
		case "SetBackgroundColor":
			m.SetBackgroundColor(t.bgs[c.A])
		case "SetMeta":
			switch c.A {
			case 1:
				m.SetICCProfile(t.blobs[c.B])
			case 2:
				m.SetEXIF(t.blobs[c.B])
			case 3:
				m.SetXMP(t.blobs[c.B])
			}
		case "AddChunk":
			if e := m.AddChunk(ids[c.A], t.blobs[c.B]); e != nil {
				return nil, fmt.Errorf("AddChunk: %w", e), nil
			}
		case "Assemble":
			var buf bytes.Buffer
			err = m.Assemble(&buf)
			out = buf.Bytes()
		default:
			vx.Fatal2("unknown op %q", c.Op)
		}
	}
	return out, err, nil
}

func histString(h []muxCall) string {
	s := ""
	for _, c := range h {
		s += fmt.Sprintf("%s(%d,%d);", c.Op, c.A, c.B)
	}
	return s
}

// muxSignature abstracts a failing case to the state class that matters (for known findings).
func muxSignature(e muxExpect, why string) string {
	if e.Err {
		return "unrepresentable state accepted: " + e.Reason
	}
	kind := "anim"
	if !e.Anim {
		kind = "still"
	}
	return fmt.Sprintf("%s|%s", kind, why)
}

func checkC14(args []string) {
	run := vx.NewRun("C14", "model_checking", args)
	activeRun = run
	run.Rule = "Muxer call histories enumerated by TLC from spec/Mux.tla (BFS to MAXLEN, plus -simulate for long ones); distinct = distinct histories whose Assemble result was checked (error expected and returned, or file validated by the strict reader and against both real parsers)"
	run.Assumptions = []string{"payload tokens are real bitstreams produced by webp.Encode of this tree", "the strict container reader spec/Riff.tla is the reference for 'structurally valid'"}
	toks := buildMuxTokens(run.Seed)

	var cases []muxCase
	gen := func(o vx.TLCOpts) {
		res := vx.MustTLC(o)
		if res.InvViolated != "" {
			vx.Fatal2("Mux model invariant %s violated (spec bug)", res.InvViolated)
		}
		run.AddTLC(res)
		for _, raw := range res.Tagged("CASE") {
			var c muxCase
			if err := json.Unmarshal(raw, &c); err != nil {
				vx.Fatal2("CASE line: %v", err)
			}
			cases = append(cases, c)
		}
	}
	if run.Replay != "" {
		var v vx.Violation
		b, _ := readFile(run.Replay)
		json.Unmarshal(b, &v)
		rb, _ := json.Marshal(v.Replay)
		var c muxCase
		json.Unmarshal(rb, &c)
		cases = []muxCase{c}
	} else {
		full, maxlen := "FALSE", 2
		if run.Thorough() {
			maxlen = 3
		}
		gen(vx.TLCOpts{Module: "Mux", Cfg: fmt.Sprintf("SPECIFICATION Spec\nCONSTANTS MAXLEN = %d\nFULL = %s\nINVARIANTS TypeOK FieldsFit\nCHECK_DEADLOCK FALSE\n", maxlen, full), Workers: 1, Timeout: 30 * time.Minute, Heap: "12g"})
		// full alphabet: exhaustive to 2 calls, random long histories
		gen(vx.TLCOpts{Module: "Mux", Cfg: "SPECIFICATION Spec\nCONSTANTS MAXLEN = 2\nFULL = TRUE\nINVARIANTS TypeOK FieldsFit\nCHECK_DEADLOCK FALSE\n", Workers: 1, Timeout: 30 * time.Minute})
		gen(vx.TLCOpts{Module: "Mux", Cfg: "SPECIFICATION Spec\nCONSTANTS MAXLEN = 7\nFULL = TRUE\nCHECK_DEADLOCK FALSE\n", Workers: 1,
			Simulate: fmt.Sprintf("num=%d", run.Pick(400, 4000)), Depth: 9, Seed: run.Seed, Timeout: 30 * time.Minute})
	}

	var files []vx.FileCase
	type pend struct {
		c   muxCase
		out []byte
	}
	pending := map[string]pend{}
	seen := map[string]bool{}
	skipped := 0
	for i, c := range cases {
		hs := histString(c.Hist)
		if seen[hs] {
			continue
		}
		seen[hs] = true
		if strings.HasPrefix(c.Expect.Reason, "skip:") {
			skipped++
			continue
		}
		out, err, pan := replayMux(toks, c.Hist)
		if pan != nil {
			run.Violate("panic", fmt.Sprintf("Muxer panicked: %v on %s", pan, hs), c)
			continue
		}
		run.Eval(hs)
		if i%997 == 0 {
			run.Sample(map[string]any{"history": hs, "expect_error": c.Expect.Err, "got_error": fmt.Sprint(err), "bytes": len(out)})
		}
		if c.Expect.Err {
			if err == nil {
				// the contract calls the state unrepresentable; the real Muxer accepted it. It is a violation only if the
				// file it wrote is not a valid container holding what was put in: let the strict reader decide.
				e := vx.NewExpect("input")
				id := fmt.Sprintf("u%d", i)
				files = append(files, vx.FileCase{ID: id, Must: "accept", Bytes: vx.Ints(out), X: []vx.Expect{unrepresentableExpect(toks, c, e)}})
				pending[id] = pend{c, out}
			}
			continue
		}
		if err != nil {
			run.Note("muxer rejects a representable state (not a violation of C14): %s: %v", hs, err)
			continue
		}
		id := fmt.Sprintf("m%d", i)
		fc := vx.FileCase{ID: id, Must: "accept", Bytes: vx.Ints(out), X: []vx.Expect{muxInputExpect(toks, c.Expect)}}
		if dv, derr := demuxView(out); derr != nil {
			run.Violate(muxSignature(c.Expect, "demuxer rejects muxer output"), fmt.Sprintf("mux.NewDemuxer fails on Assemble output: %v; history %s", derr, hs), c)
		} else {
			fc.X = append(fc.X, dv)
		}
		if pv, perr := parserView(out); perr != nil {
			run.Violate(muxSignature(c.Expect, "container parser rejects muxer output"), fmt.Sprintf("container.NewParser fails on Assemble output: %v; history %s", perr, hs), c)
		} else {
			fc.X = append(fc.X, pv)
		}
		files = append(files, fc)
		pending[id] = pend{c, out}
	}
	// the frame-count limit: whatever number of frames the muxer accepts, the assembled file demuxes back to that
	// many frames through both parsers (frame k has duration k mod 1000 and is the token the model calls 2)
	if run.Replay == "" {
		m := mux.NewMuxer()
		accepted := 0
		for k := 0; k < 10050; k++ {
			if err := m.AddFrame(toks.data[2], &mux.FrameOptions{Duration: k % 1000}); err != nil {
				break
			}
			accepted++
			if accepted < 9998 && accepted != 5000 {
				continue
			}
			var buf bytes.Buffer
			name := fmt.Sprintf("frame-limit: %d frames accepted by AddFrame", accepted)
			run.Eval(name)
			if err := m.Assemble(&buf); err != nil {
				run.Note("muxer accepts %d frames and then refuses to assemble them (an error, not a corrupt file): %v", accepted, err)
				continue
			}
			d, derr := mux.NewDemuxer(buf.Bytes())
			if derr != nil {
				run.Violate("frame-limit|demuxer rejects muxer output", fmt.Sprintf("%s: mux.NewDemuxer fails on the assembled file: %v", name, derr), name)
				break
			}
			ok := d.NumFrames() == accepted
			for _, i := range []int{0, accepted / 2, accepted - 1} {
				fi, err := d.Frame(i)
				if err != nil || fi.Duration != i%1000 || !bytes.Equal(fi.Data, toks.img[2]) {
					ok = false
				}
			}
			if !ok {
				run.Violate("frame-limit|demuxed frames differ", fmt.Sprintf("%s: the demuxer reports %d frames or other frame contents", name, d.NumFrames()), name)
				break
			}
			p, perr := container.NewParser(buf.Bytes())
			if perr != nil {
				run.Violate("frame-limit|container parser rejects muxer output", fmt.Sprintf("%s: container.NewParser fails on the assembled file: %v", name, perr), name)
				break
			}
			if len(p.Frames()) != accepted {
				run.Violate("frame-limit|parsers disagree", fmt.Sprintf("%s: container.NewParser reports %d frames", name, len(p.Frames())), name)
				break
			}
		}
		run.Cov["frames_accepted_by_the_muxer_at_the_limit"] = accepted
	}
	// files laid out by the TLA+ container writer (spec/RiffW.tla; reader o writer = identity is model-checked there):
	// both real parsers must report exactly the description the writer was given.
	wdesc := map[string]string{}
	if run.Replay == "" {
		for _, fc := range riffWriterFiles(run, wdesc) {
			files = append(files, fc)
		}
	}
	bad := vx.ValidateFiles(run, files)
	for id, why := range bad {
		if d, ok := wdesc[id]; ok {
			run.Violate("writer-file|"+why, fmt.Sprintf("container written by spec/RiffW.tla from %s: %s", d, why), map[string]any{"description": d})
			continue
		}
		p := pending[id]
		run.Violate(muxSignature(p.c.Expect, why), fmt.Sprintf("history %s: %s (file %d bytes)", histString(p.c.Hist), why, len(p.out)), p.c)
	}
	run.Cov["histories"] = len(seen)
	run.Cov["skipped_beyond_documented_caps"] = skipped
	run.Cov["files_validated"] = len(files)
	run.Finish()
}

// muxInputExpect turns the model's projection into the TVFiles expectation "input".
func muxInputExpect(t *muxTokens, x muxExpect) vx.Expect {
	e := vx.NewExpect("input")
	e.W, e.H = x.CW, x.CH
	e.Anim = b2i(x.Anim)
	e.HAlpha = -1
	if x.Alpha {
		e.Alpha = 1
	}
	if x.Anim {
		e.Loop = x.Loop
		e.Bg = u32bytes(t.bgs[x.Bg])
	}
	meta := func(tok int) []int {
		switch tok {
		case 0:
			return vx.Absent
		case 1:
			return vx.SkipB // empty non-nil blob: present-empty and absent are both accepted
		}
		return vx.Ints(t.blobs[tok])
	}
	e.ICC, e.EXIF, e.XMP = meta(x.ICC), meta(x.EXIF), meta(x.XMP)
	e.NFrames = len(x.Frames)
	for _, f := range x.Frames {
		fe := vx.NewFrameExp()
		fe.Img = vx.Ints(t.img[f.Tok])
		fe.Alph = vx.MetaInts(t.alph[f.Tok], t.alph[f.Tok] != nil)
		if x.Anim {
			fe.X, fe.Y, fe.Dur, fe.Dispose, fe.NoBlend = f.X, f.Y, f.Dur, f.Dispose, f.NoBlend
		}
		e.Frames = append(e.Frames, fe)
	}
	return e
}

// unrepresentableExpect: the model says "must be an error"; if the Muxer returns nil the file must at least
// be a valid container — which the strict reader will refuse when canvas/offset information was dropped.
func unrepresentableExpect(t *muxTokens, c muxCase, e vx.Expect) vx.Expect {
	e.Src = "input(unrepresentable state accepted)"
	e.NFrames = 0 // no frame list can be right: forces a report that names the class
	return e
}

// riffWFrame / riffWDesc mirror the records of spec/RiffW.tla.
type riffWFrame struct {
	Lossless, Alpha  bool
	Alph, Extra      []int
	W, H, X, Y, Dur  int
	Dispose, NoBlend int
}
type riffWDesc struct {
	Anim           bool
	CW, CH, Loop   int
	Bg             []int
	ICC, EXIF, XMP []int
	Frames         []riffWFrame
}

// riffWriterFiles asks TLC for containers written by spec/RiffW.tla (exhaustively for one frame, by simulation for
// several) and pairs each with the description it was written from and with what the two real parsers report.
func riffWriterFiles(run *vx.Run, wdesc map[string]string) []vx.FileCase {
	var out []vx.FileCase
	seen := map[uint64]bool{}
	add := func(res *vx.TLCResult) {
		if res.InvViolated != "" {
			vx.Fatal2("RiffW: invariant %s violated (the spec's reader and writer disagree: spec bug)", res.InvViolated)
		}
		run.AddTLC(res)
		for _, raw := range res.Tagged("CASE") {
			var c struct {
				D     riffWDesc `json:"d"`
				Bytes []int     `json:"bytes"`
			}
			if err := json.Unmarshal(raw, &c); err != nil {
				vx.Fatal2("RiffW CASE: %v", err)
			}
			data := make([]byte, len(c.Bytes))
			for i, v := range c.Bytes {
				data[i] = byte(v)
			}
			h := hashBytes(data)
			if seen[h] {
				continue
			}
			seen[h] = true
			id := fmt.Sprintf("w%d", len(out))
			db, _ := json.Marshal(c.D)
			wdesc[id] = string(db)
			e := vx.NewExpect("writer-input")
			d := c.D
			e.W, e.H, e.Anim, e.NFrames = d.CW, d.CH, b2i(d.Anim), len(d.Frames)
			if d.Anim {
				e.Loop, e.Bg = d.Loop, d.Bg
			}
			e.ICC, e.EXIF, e.XMP = d.ICC, d.EXIF, d.XMP
			anyAlpha := false
			for _, f := range d.Frames {
				fe := vx.NewFrameExp()
				fe.W, fe.H = f.W, f.H
				fa := f.Alpha
				if !f.Lossless {
					fa = len(f.Alph) > 0
					fe.Alph = vx.MetaInts(nil, false)
					if fa {
						fe.Alph = f.Alph
					}
				} else {
					fe.Alph = vx.Absent
				}
				anyAlpha = anyAlpha || fa
				fe.FAlpha = b2i(fa)
				if d.Anim {
					fe.X, fe.Y, fe.Dur, fe.Dispose, fe.NoBlend = f.X, f.Y, f.Dur, f.Dispose, f.NoBlend
				}
				e.Frames = append(e.Frames, fe)
			}
			e.HAlpha = b2i(anyAlpha)
			fc := vx.FileCase{ID: id, Must: "accept", Bytes: c.Bytes, X: []vx.Expect{e}}
			run.Eval("writer:" + string(db))
			if dv, err := demuxView(data); err != nil {
				run.Violate("writer-file|demuxer rejects", fmt.Sprintf("mux.NewDemuxer rejects a valid container written by spec/RiffW.tla from %s: %v", db, err), map[string]any{"description": string(db), "bytes": c.Bytes})
			} else {
				fc.X = append(fc.X, dv)
			}
			if pv, err := parserView(data); err != nil {
				run.Violate("writer-file|container parser rejects", fmt.Sprintf("container.NewParser rejects a valid container written by spec/RiffW.tla from %s: %v", db, err), map[string]any{"description": string(db), "bytes": c.Bytes})
			} else {
				fc.X = append(fc.X, pv)
			}
			out = append(out, fc)
		}
	}
	add(vx.MustTLC(vx.TLCOpts{Module: "RiffW", Cfg: "GEN_RiffW.cfg", Workers: 1, Timeout: 20 * time.Minute, Heap: "8g"}))
	add(vx.MustTLC(vx.TLCOpts{Module: "RiffW", Cfg: "SPECIFICATION Spec\nCONSTANT MAXFRAMES = 4\nINVARIANTS RoundTrip Emit\nCHECK_DEADLOCK FALSE\n", Workers: 1,
		Simulate: fmt.Sprintf("num=%d", run.Pick(600, 6000)), Depth: 6, Seed: run.Seed, Timeout: 20 * time.Minute, Heap: "8g"}))
	if run.Thorough() {
		res := vx.MustTLC(vx.TLCOpts{Module: "RiffW", Cfg: "MC_RiffW.cfg", Workers: 8, Timeout: 30 * time.Minute, Heap: "12g"})
		if res.InvViolated != "" {
			vx.Fatal2("RiffW: invariant %s violated at MAXFRAMES=2 (spec bug)", res.InvViolated)
		}
		run.AddTLC(res)
	}
	run.Cov["files_from_the_tla_container_writer"] = len(out)
	return out
}
