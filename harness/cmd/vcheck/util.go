package main

import (
	"bytes"
	"encoding/binary"
	"fmt"
	"hash/fnv"
	"image"
	"image/color"
	"io"
	"math/rand"
	"os"
	"reflect"
	"time"

	"github.com/deepteams/webp"
	"github.com/deepteams/webp/internal/container"
	"github.com/deepteams/webp/mux"
	"github.com/deepteams/webp/verifx/vx"
)

// chunk is a top-level chunk of a RIFF file, located with a minimal walker used only to
// build stimuli (never as an oracle).
type chunk struct {
	tag  string
	data []byte
}

func riffChunks(b []byte) []chunk {
	var out []chunk
	pos := 12
	for pos+8 <= len(b) {
		sz := int(binary.LittleEndian.Uint32(b[pos+4:]))
		if pos+8+sz > len(b) {
			break
		}
		out = append(out, chunk{string(b[pos : pos+4]), b[pos+8 : pos+8+sz]})
		pos += 8 + sz + sz%2
	}
	return out
}

func findChunk(b []byte, tag string) []byte {
	for _, c := range riffChunks(b) {
		if c.tag == tag {
			return c.data
		}
	}
	return nil
}

func mustEncode(img image.Image, o *webp.EncoderOptions) []byte {
	var buf bytes.Buffer
	if err := webp.Encode(&buf, img, o); err != nil {
		vx.Fatal2("stimulus encode failed: %v", err)
	}
	return buf.Bytes()
}

// noiseNRGBA builds a seeded picture. alphaMode: 0 opaque, 1 binary, 2 graded, 3 few levels.
func noiseNRGBA(rng *rand.Rand, w, h int, alphaMode int) *image.NRGBA {
	img := image.NewNRGBA(image.Rect(0, 0, w, h))
	for y := 0; y < h; y++ {
		for x := 0; x < w; x++ {
			a := uint8(255)
			switch alphaMode {
			case 1:
				if rng.Intn(2) == 0 {
					a = 0
				}
			case 2:
				a = uint8(rng.Intn(256))
			case 3:
				a = []uint8{0, 85, 170, 255}[rng.Intn(4)]
			}
			img.SetNRGBA(x, y, color.NRGBA{uint8(rng.Intn(256)), uint8(rng.Intn(256)), uint8(rng.Intn(256)), a})
		}
	}
	return img
}

// alphPrefixed builds the "ALPH-prefixed" frame data the Muxer documents:
// ALPH chunk header + alpha payload (+ pad) + raw VP8 bitstream.
func alphPrefixed(alpha, vp8 []byte) []byte {
	var b bytes.Buffer
	b.WriteString("ALPH")
	binary.Write(&b, binary.LittleEndian, uint32(len(alpha)))
	b.Write(alpha)
	if len(alpha)%2 == 1 {
		b.WriteByte(0)
	}
	b.Write(vp8)
	return b.Bytes()
}

func b2i(b bool) int {
	if b {
		return 1
	}
	return 0
}

func u32bytes(v uint32) []int {
	return []int{int(v & 255), int(v >> 8 & 255), int(v >> 16 & 255), int(v >> 24)}
}

// demuxView reports what mux.NewDemuxer says about a file, in TVFiles terms.
func demuxView(data []byte) (e vx.Expect, err error) {
	defer func() {
		if r := recover(); r != nil {
			err = fmt.Errorf("panic: %v", r)
		}
	}()
	d, err := mux.NewDemuxer(data)
	if err != nil {
		return e, err
	}
	e = vx.NewExpect("demux")
	f := d.GetFeatures()
	e.W, e.H = f.Width, f.Height
	e.Anim = b2i(f.HasAnimation)
	e.HAlpha = b2i(f.HasAlpha)
	e.NFrames = d.NumFrames()
	if f.HasAnimation {
		e.Loop = d.LoopCount()
		e.Bg = u32bytes(d.BackgroundColor())
	}
	get := func(id mux.ChunkID) []int {
		b, err := d.GetChunk(id)
		return vx.MetaInts(b, err == nil)
	}
	e.ICC, e.EXIF, e.XMP = get(mux.FourCCICCP), get(mux.FourCCEXIF), get(mux.FourCCXMP)
	for i := 0; i < d.NumFrames(); i++ {
		fi, err := d.Frame(i)
		if err != nil {
			return e, err
		}
		fe := vx.NewFrameExp()
		fe.W, fe.H = fi.Width, fi.Height
		fe.Img = vx.Ints(fi.Data)
		fe.Alph = vx.MetaInts(fi.AlphaData, fi.AlphaData != nil)
		fe.FAlpha = b2i(fi.HasAlpha)
		if f.HasAnimation {
			fe.X, fe.Y, fe.Dur = fi.OffsetX, fi.OffsetY, fi.Duration
			fe.Dispose, fe.NoBlend = int(fi.DisposeMode), int(fi.BlendMode)
		}
		e.Frames = append(e.Frames, fe)
	}
	// the second access path to the same frames: the iterator must hand out exactly Frame(0), Frame(1), ... and end
	it := d.NewFrameIterator()
	k := 0
	for it.HasNext() {
		fi, err := it.Next()
		if err != nil || fi == nil {
			return e, fmt.Errorf("FrameIterator.Next fails at frame %d although HasNext is true: %v", k, err)
		}
		fj, err := d.Frame(k)
		if err != nil || !reflect.DeepEqual(*fi, *fj) {
			return e, fmt.Errorf("FrameIterator hands out another frame %d than Frame(%d) (%v)", k, k, err)
		}
		k++
		if k > d.NumFrames() {
			break
		}
	}
	if k != d.NumFrames() {
		return e, fmt.Errorf("FrameIterator hands out %d frames, NumFrames is %d", k, d.NumFrames())
	}
	if fi, err := it.Next(); err == nil || fi != nil {
		return e, fmt.Errorf("FrameIterator.Next past the last frame returns (%v, %v)", fi, err)
	}
	if _, err := d.Frame(d.NumFrames()); err == nil {
		return e, fmt.Errorf("Frame(NumFrames) succeeds")
	}
	if _, err := d.Frame(-1); err == nil {
		return e, fmt.Errorf("Frame(-1) succeeds")
	}
	return e, nil
}

// parserView reports what internal/container.NewParser says about a file.
func parserView(data []byte) (e vx.Expect, err error) {
	defer func() {
		if r := recover(); r != nil {
			err = fmt.Errorf("panic: %v", r)
		}
	}()
	p, err := container.NewParser(data)
	if err != nil {
		return e, err
	}
	e = vx.NewExpect("parser")
	f := p.Features()
	if f.Format == container.FormatVP8X {
		e.W, e.H = f.CanvasWidth, f.CanvasHeight
	} else {
		e.W, e.H = f.Width, f.Height
	}
	e.Anim = b2i(f.HasAnim)
	e.HAlpha = b2i(f.HasAlpha)
	e.NFrames = len(p.Frames())
	if f.HasAnim {
		e.Loop = f.LoopCount
		e.Bg = u32bytes(f.BGColor)
	}
	// The decode-side parser stops at the image chunk of a still (by design), so it cannot report
	// EXIF/XMP that follow the image; for stills only ICC (which precedes the image) is compared.
	e.ICC, e.EXIF, e.XMP = vx.Absent, vx.Absent, vx.Absent
	if !f.HasAnim {
		e.EXIF, e.XMP = vx.SkipB, vx.SkipB
	}
	for _, c := range p.Chunks() {
		if !f.HasAnim && c.FourCC != container.FourCCICCP {
			continue
		}
		switch c.FourCC {
		case container.FourCCICCP:
			e.ICC = vx.Ints(c.Payload)
		case container.FourCCEXIF:
			e.EXIF = vx.Ints(c.Payload)
		case container.FourCCXMP:
			e.XMP = vx.Ints(c.Payload)
		}
	}
	for _, fi := range p.Frames() {
		fe := vx.NewFrameExp()
		fe.W, fe.H = fi.Width, fi.Height
		fe.Img = vx.Ints(fi.Payload)
		fe.Alph = vx.MetaInts(fi.AlphaData, fi.AlphaData != nil)
		if f.HasAnim {
			fe.X, fe.Y, fe.Dur = fi.XOffset, fi.YOffset, fi.Duration
			fe.Dispose, fe.NoBlend = int(fi.DisposeMethod), int(fi.BlendMethod)
		}
		e.Frames = append(e.Frames, fe)
	}
	return e, nil
}

// palettedNRGBA builds a picture with n colours (opaque and semi-transparent entries).
func palettedNRGBA(rng *rand.Rand, w, h, n int) *image.NRGBA {
	pal := make([]color.NRGBA, n)
	for i := range pal {
		pal[i] = color.NRGBA{uint8(rng.Intn(256)), uint8(rng.Intn(256)), uint8(rng.Intn(256)), 255}
		if i%3 == 2 {
			pal[i].A = uint8(rng.Intn(256))
		}
	}
	img := image.NewNRGBA(image.Rect(0, 0, w, h))
	for y := 0; y < h; y++ {
		for x := 0; x < w; x++ {
			img.SetNRGBA(x, y, pal[rng.Intn(n)])
		}
	}
	return img
}

// gradientAlpha builds a picture with a smooth alpha ramp.
func gradientAlpha(rng *rand.Rand, w, h int) *image.NRGBA {
	img := noiseNRGBA(rng, w, h, 0)
	for y := 0; y < h; y++ {
		for x := 0; x < w; x++ {
			c := img.NRGBAAt(x, y)
			c.A = uint8((x*255/(w) + y*3) % 256)
			img.SetNRGBA(x, y, c)
		}
	}
	return img
}

func hashBytes(bs ...[]byte) uint64 {
	h := fnv.New64a()
	for _, b := range bs {
		h.Write(b)
	}
	return h.Sum64()
}

// withDefaults turns a sparse option literal into a realistic option set: every field that has a documented
// "use the default" sentinel and was left at its zero value gets that sentinel, so the encode runs with the library
// defaults (SNS 50, filter strength 60, strong filter, 4 segments, alpha quality 100, ...) instead of with those
// features switched off. Checks that want the zero-valued literal itself pass it directly.
func withDefaults(o webp.EncoderOptions) webp.EncoderOptions {
	if o.SNSStrength == 0 {
		o.SNSStrength = -1
	}
	if o.FilterStrength == 0 {
		o.FilterStrength = -1
	}
	if o.FilterType == 0 {
		o.FilterType = -1
	}
	if o.Segments == 0 {
		o.Segments = -1
	}
	if o.Pass == 0 {
		o.Pass = -1
	}
	if o.QMax == 0 {
		o.QMax = -1
	}
	if o.AlphaCompression == 0 {
		o.AlphaCompression = -1
	}
	if o.AlphaFiltering == 0 {
		o.AlphaFiltering = -1
	}
	if o.AlphaQuality == 0 {
		o.AlphaQuality = -1
	}
	return o
}

// colorToNRGBA8 returns the non-premultiplied 8-bit pixel of an image at (x, y).
func colorToNRGBA8(im image.Image, x, y int) [4]int {
	c := color.NRGBAModel.Convert(im.At(x, y)).(color.NRGBA)
	return [4]int{int(c.R), int(c.G), int(c.B), int(c.A)}
}

// hangVerdict is called when a library call running in this process has not returned within its wall-clock limit.
// Wall time depends on what else the machine is doing, so the decision is taken from this process's CPU time:
// "blocked" = no CPU used for 15 s (deadlock, lost wake-up), "spinning" = the process has used more CPU than
// max(4 x limit, 2 min) since the call started and the call is still not back, "finished" = done fired meanwhile.
// Until one of these holds it keeps waiting (a busy machine only makes it wait longer).
func hangVerdict(done <-chan struct{}, cpuAtStart time.Duration, limit time.Duration) string {
	budget := 4 * limit
	if budget < 2*time.Minute {
		budget = 2 * time.Minute
	}
	last := procCPU(os.Getpid())
	idle := 0
	for {
		select {
		case <-done:
			return "finished"
		case <-time.After(5 * time.Second):
		}
		now := procCPU(os.Getpid())
		if now-last < 20*time.Millisecond {
			idle++
			if idle >= 3 {
				return "blocked"
			}
		} else {
			idle = 0
		}
		last = now
		if now-cpuAtStart > budget {
			return "spinning"
		}
	}
}

// activeRun is the run that guardedDecode reports to.
var activeRun *vx.Run

// guardedDecode is webp.Decode with a deadline: a decoder that does not return is reported as a violation of the
// property under check (no hang is ever allowed) and the check ends at once, because the stuck goroutine cannot be
// stopped and would distort everything measured afterwards.
func guardedDecode(data []byte) (image.Image, error) {
	return guardedDecodeFrom(data, bytes.NewReader(data))
}

// shortReader delivers its bytes through an io.Reader that has no Len method and returns at most 4093 bytes per call:
// the way a file, a pipe or a network stream looks to the package.
type shortReader struct{ r io.Reader }

func (s *shortReader) Read(p []byte) (int, error) {
	if len(p) > 4093 {
		p = p[:4093]
	}
	return s.r.Read(p)
}

func streamOf(data []byte) io.Reader { return &shortReader{bytes.NewReader(data)} }

// guardedDecodeFrom is guardedDecode reading from r (which must deliver data).
func guardedDecodeFrom(data []byte, rd io.Reader) (image.Image, error) {
	type res struct {
		im  image.Image
		err error
	}
	ch := make(chan res, 1)
	done := make(chan struct{})
	cpu0 := procCPU(os.Getpid())
	go func() {
		defer close(done)
		defer func() {
			if r := recover(); r != nil {
				ch <- res{nil, fmt.Errorf("panic: %v", r)}
			}
		}()
		im, err := webp.Decode(rd)
		ch <- res{im, err}
	}()
	limit := 60*time.Second + time.Duration(len(data))*time.Microsecond
	select {
	case r := <-ch:
		return r.im, r.err
	case <-time.After(limit):
		v := hangVerdict(done, cpu0, limit)
		if v == "finished" {
			r := <-ch
			return r.im, r.err
		}
		if activeRun != nil {
			activeRun.Violate("hang|webp.Decode", fmt.Sprintf("webp.Decode did not return within %v on a %d-byte input (%s)", limit, len(data), v), map[string]any{"bytes": data})
			activeRun.Finish()
		}
		vx.Fatal2("webp.Decode hangs")
		return nil, nil
	}
}

func intsEqual(a, b []int) bool {
	if len(a) != len(b) {
		return false
	}
	for i := range a {
		if a[i] != b[i] {
			return false
		}
	}
	return true
}
