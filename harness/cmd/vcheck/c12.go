package main

import (
	"bytes"
	"encoding/json"
	"fmt"
	"image"
	"math/rand"
	"os"
	"os/exec"
	"runtime"
	"strconv"
	"strings"
	"time"

	"github.com/deepteams/webp"
	"github.com/deepteams/webp/animation"
	"github.com/deepteams/webp/internal/verifhook"
	"github.com/deepteams/webp/verifx/vx"
)

func init() {
	register("C12", checkC12)
	register("C12-child", c12Child)
}

// c12Child runs every case under one GOMAXPROCS value in a process of its own (so that state left behind by the same
// call under another GOMAXPROCS value cannot mask a difference) and prints one digest per case.
func c12Child(args []string) {
	n, _ := strconv.Atoi(args[0])
	runtime.GOMAXPROCS(n)
	run := vx.NewRun("C12", "exploration", args[1:])
	activeRun = run
	for i, c := range c12Cases(run) {
		verifhook.StartRanges()
		d, err := c.run()
		recs := verifhook.StopRanges()
		if err != nil {
			d = "error: " + err.Error()
		}
		fmt.Printf("DIGEST %d %s\n", i, d)
		for _, g := range groupRanges(recs) {
			b, _ := json.Marshal(g)
			fmt.Printf("RANGES %d %s\n", i, b)
		}
	}
}

// rangeGroup is one parallel section as observed through verifhook.Range: a line of the TVWorkers trace.
type rangeGroup struct {
	ID     string   `json:"id"`
	Site   string   `json:"site"`
	Base   int      `json:"base"`
	End    int      `json:"end"`
	NW     int      `json:"nw"`
	Ranges [][2]int `json:"ranges"`
}

// groupRanges splits the records into parallel sections: records of one spawning goroutine and site, a new section
// starting whenever the worker index does not continue the previous one.
func groupRanges(recs []verifhook.RangeRec) []rangeGroup {
	type key struct {
		g    int64
		site string
	}
	open := map[key]*rangeGroup{}
	lastW := map[key]int{}
	var out []*rangeGroup
	for _, r := range recs {
		k := key{r.G, r.Site}
		g := open[k]
		if g == nil || r.W != lastW[k]+1 || r.Base != g.Base || r.End != g.End || r.NW != g.NW {
			g = &rangeGroup{Site: r.Site, Base: r.Base, End: r.End, NW: r.NW}
			open[k] = g
			out = append(out, g)
		}
		lastW[k] = r.W
		g.Ranges = append(g.Ranges, [2]int{r.Lo, r.Hi})
	}
	res := make([]rangeGroup, len(out))
	for i, g := range out {
		res[i] = *g
	}
	return res
}

type c12Case struct {
	name string
	run  func() (string, error)
}

func c12Cases(run *vx.Run) []c12Case {
	rng := rand.New(rand.NewSource(run.Seed))
	var cs []c12Case
	type im struct {
		name string
		img  image.Image
	}
	photo := func(w, h int) *image.NRGBA { // smooth + texture: more than 256 colours, compressible
		p := image.NewNRGBA(image.Rect(0, 0, w, h))
		for y := 0; y < h; y++ {
			for x := 0; x < w; x++ {
				i := p.PixOffset(x, y)
				p.Pix[i] = uint8((x*255/w + rng.Intn(12)) & 255)
				p.Pix[i+1] = uint8((y*255/h + rng.Intn(12)) & 255)
				p.Pix[i+2] = uint8(((x+y)*2 + rng.Intn(30)) & 255)
				p.Pix[i+3] = 255
			}
		}
		return p
	}
	// texture whose strength varies across the picture (smooth top-left, noisy bottom-right): every row / tile range
	// handed to a worker has a character of its own, so a range that is skipped or done twice changes the result
	graded := func(w, h int) *image.NRGBA {
		p := image.NewNRGBA(image.Rect(0, 0, w, h))
		for y := 0; y < h; y++ {
			amp := 1 + y*y*96/(h*h)
			for x := 0; x < w; x++ {
				n := rng.Intn(amp+x*40/w) - amp/2
				i := p.PixOffset(x, y)
				p.Pix[i] = clamp8(60 + x*120/w + n)
				p.Pix[i+1] = clamp8(90 + y*100/h - n)
				p.Pix[i+2] = clamp8(128 + n/2)
				p.Pix[i+3] = 255
			}
		}
		return p
	}
	// repetitive content (a 16x16 tile repeated, rows repeating with period 3, flat blocks on a slow gradient) above
	// 50 000 pixels: backward-reference search finds long matches everywhere, so the match finder's serial and
	// parallel variants are both exercised where they could disagree
	repetitive := func(kind, w, h int) *image.NRGBA {
		p := image.NewNRGBA(image.Rect(0, 0, w, h))
		for y := 0; y < h; y++ {
			for x := 0; x < w; x++ {
				var r, g, b uint8
				switch kind {
				case 0:
					s := uint32((x%16)*131+(y%16)*977)*1664525 + 1013904223
					r, g, b = uint8(s>>24), uint8(s>>16), uint8(s>>8)
				case 1:
					s := uint32(x*31+(y%3)*7919)*1664525 + 1013904223
					r, g, b = uint8(s>>24), uint8(s>>16), uint8(s>>8)
				default:
					r, g, b = uint8(x/2), uint8(y/2), 200
					if (x/7+y/11)%3 == 0 {
						r, g, b = 20, 20, uint8(x)
					}
				}
				i := p.PixOffset(x, y)
				p.Pix[i], p.Pix[i+1], p.Pix[i+2], p.Pix[i+3] = r, g, b, 255
			}
		}
		return p
	}
	// screenshot-like content: large flat areas (coded as single long copies, so many histogram tiles hold no token)
	// with noisy and smoothly graded patches (several histogram clusters)
	screenshot := func(w, h int) *image.NRGBA {
		p := image.NewNRGBA(image.Rect(0, 0, w, h))
		for y := 0; y < h; y++ {
			for x := 0; x < w; x++ {
				r, g, b := uint8(240), uint8(240), uint8(240)
				band := y / 64
				switch {
				case band%2 == 1 && x >= 32 && x < 96:
					r, g, b = uint8(rng.Intn(256)), uint8(rng.Intn(64)), 10
				case band%4 == 2 && x >= 300 && x < 420:
					r, g, b = uint8(x), uint8(y), uint8(x+y)
				case band == 5 && x >= 200 && x < 280:
					r, g, b = 5, uint8(rng.Intn(32)), uint8(rng.Intn(256))
				}
				i := p.PixOffset(x, y)
				p.Pix[i], p.Pix[i+1], p.Pix[i+2], p.Pix[i+3] = r, g, b, 255
			}
		}
		return p
	}
	// strongly correlated colour channels (red and blue follow green, so the cross-colour transform finds non-zero
	// multipliers in every noisy tile) interrupted by flat strips at the left edge, in the middle and across whole
	// tile rows: single-valued residual tiles then directly follow tiles with non-zero multipliers in raster order,
	// also at the first tile of a worker's range, where state carried from tile to tile must not depend on the split
	correlated := func(w, h int) *image.NRGBA {
		p := image.NewNRGBA(image.Rect(0, 0, w, h))
		for y := 0; y < h; y++ {
			for x := 0; x < w; x++ {
				var r, g, b uint8
				flat := x < 16 || (x >= w/2 && x < w/2+32) || (y/32)%5 == 3
				if !flat {
					g = uint8(rng.Intn(160))
					r = uint8(int(g) * 3 / 2)
					b = uint8(int(g)/2 + int(r)/4 + rng.Intn(3))
				}
				i := p.PixOffset(x, y)
				p.Pix[i], p.Pix[i+1], p.Pix[i+2], p.Pix[i+3] = r, g, b, 255
			}
		}
		return p
	}
	imgs := []im{
		{"screenshot-512x512", screenshot(512, 512)},
		{"correlated-256x256", correlated(256, 256)},
		{"correlated-384x200", correlated(384, 200)},
		{"tiles-400x300", repetitive(0, 400, 300)},
		{"rows-400x300", repetitive(1, 400, 300)},
		{"blocks-400x300", repetitive(2, 400, 300)},
		// short and wide / tall and narrow pictures above the parallel thresholds: every row- or tile-row-partitioned
		// section gets fewer items than workers, worker boundaries fall inside tiles and inside the padding rows
		{"banner-1280x100", photo(1280, 100)},
		{"short-640x98", graded(640, 98)},
		{"strip-9000x13", photo(9000, 13)},
		{"tall-66x1024", graded(66, 1024)},
		{"graded-200x150", graded(200, 150)},
		{"graded-333x247", graded(333, 247)},
		{"noise-400x293", noiseNRGBA(rng, 400, 293, 0)},
		{"photo-400x300", photo(400, 300)},
		{"photo-200x150", photo(200, 150)},
		{"alpha-320x210", gradientAlpha(rng, 320, 210)},
		{"palette-300x200", palettedNRGBA(rng, 300, 200, 12)},
		{"small-40x30", noiseNRGBA(rng, 40, 30, 0)},
	}
	if run.Thorough() {
		imgs = append(imgs, im{"photo-640x481", photo(640, 481)}, im{"noise-97x1000", noiseNRGBA(rng, 97, 1000, 0)}, im{"photo-1000x70", photo(1000, 70)})
	}
	type opt struct {
		name string
		o    webp.EncoderOptions
	}
	// option sets start from DefaultOptions() (SNS 50, filter 60, 4 segments): a zero-valued literal would switch
	// off exactly the analysis-driven features whose parallel sections are under test
	def := func(f func(o *webp.EncoderOptions)) webp.EncoderOptions {
		o := *webp.DefaultOptions()
		f(&o)
		return o
	}
	opts := []opt{
		{"lossy-m0", def(func(o *webp.EncoderOptions) { o.Quality, o.Method = 60, 0 })},
		{"lossy-m2-seg4-sns80", def(func(o *webp.EncoderOptions) { o.Quality, o.Method, o.Segments, o.SNSStrength = 50, 2, 4, 80 })},
		{"lossy-m3", def(func(o *webp.EncoderOptions) { o.Quality, o.Method = 75, 3 })},
		{"lossy-m4-default", def(func(o *webp.EncoderOptions) { o.Method = 4 })},
		{"lossy-m6-part3", def(func(o *webp.EncoderOptions) { o.Quality, o.Method, o.Partitions = 40, 6, 3 })},
		{"lossy-m4-sharp", def(func(o *webp.EncoderOptions) { o.Quality, o.Method, o.UseSharpYUV = 80, 4, true })},
		{"lossy-m4-target", def(func(o *webp.EncoderOptions) { o.Method, o.TargetSize = 4, 9000 })},
		{"lossy-m2-zero-literal", webp.EncoderOptions{Quality: 50, Method: 2}},
		{"lossy-m4-dithered", def(func(o *webp.EncoderOptions) { o.Quality, o.Method, o.Preprocessing = 40, 4, 2 })},
		{"lossy-m1-dithered-smooth", def(func(o *webp.EncoderOptions) { o.Quality, o.Method, o.Preprocessing = 30, 1, 3 })},
		{"lossless-m4-q95", webp.EncoderOptions{Lossless: true, Quality: 95, Method: 4}},
		{"lossless-m0-q20", webp.EncoderOptions{Lossless: true, Quality: 20, Method: 0}},
		{"lossless-m3-q50", webp.EncoderOptions{Lossless: true, Quality: 50, Method: 3}},
		{"lossless-m4-q75", webp.EncoderOptions{Lossless: true, Quality: 75, Method: 4}},
		{"lossless-m6-q100", webp.EncoderOptions{Lossless: true, Quality: 100, Method: 6}},
	}
	for _, i := range imgs {
		for _, o := range opts {
			if !run.Thorough() && (i.name == "noise-400x293" || i.name == "palette-300x200") && (o.name == "lossless-m6-q100") {
				continue // slow; kept for the thorough tier
			}
			i, o := i, o
			cs = append(cs, c12Case{"Encode+Decode:" + i.name + ":" + o.name, func() (string, error) {
				oo := o.o
				var buf bytes.Buffer
				if err := webp.Encode(&buf, i.img, &oo); err != nil {
					return "", err
				}
				dec, err := webp.Decode(bytes.NewReader(buf.Bytes()))
				if err != nil {
					return "", err
				}
				return fmt.Sprintf("bytes %x (%d) pixels %s", hashBytes(buf.Bytes()), buf.Len(), digestImage(dec)), nil
			}})
		}
	}
	// animation: parallel frame decoding
	var frames []*image.NRGBA
	for k := 0; k < 9; k++ {
		frames = append(frames, noiseNRGBA(rng, 64, 48, k%3))
	}
	cs = append(cs, c12Case{"Animation:encode+DecodeFramesParallel", func() (string, error) {
		var buf bytes.Buffer
		e := animation.NewEncoder(&buf, 64, 48, &animation.EncodeOptions{Lossless: true, Quality: 60, Kmax: 3})
		for k, f := range frames {
			if err := e.AddFrame(f, time.Duration(10+k)*time.Millisecond); err != nil {
				return "", err
			}
		}
		if err := e.Close(); err != nil {
			return "", err
		}
		a, err := animation.DecodeBytes(buf.Bytes())
		if err != nil {
			return "", err
		}
		if err := a.DecodeFramesParallel(); err != nil {
			return "", err
		}
		d, err := animation.NewAnimDecoder(a)
		if err != nil {
			return "", err
		}
		s := fmt.Sprintf("%x", hashBytes(buf.Bytes()))
		for d.HasNext() {
			fr, _, err := d.NextFrame()
			if err != nil {
				return "", err
			}
			s += fmt.Sprintf(":%x", hashNRGBA(fr))
		}
		return s, nil
	}})
	return cs
}

func checkC12(args []string) {
	run := vx.NewRun("C12", "exploration", args)
	run.Rule = "configuration space GOMAXPROCS in {1,2,3,4,5,7,8,16,32} x (picture class large enough for every parallel section x lossy/lossless option set), every call executed under runtime.GOMAXPROCS(n) in one fresh process per n; bytes and decoded pixels must equal those under GOMAXPROCS=1 and among all n>1; the partition arithmetic of the worker sites is model-checked separately (spec/Workers.tla: ranges are disjoint and cover for every n, w). distinct = distinct (call, GOMAXPROCS) pairs evaluated"
	run.Assumptions = []string{"runtime.GOMAXPROCS(n) is what the library observes through runtime.GOMAXPROCS(0)", "schedule independence for a fixed GOMAXPROCS is C10"}
	mc := vx.MustTLC(vx.TLCOpts{Module: "Workers", Cfg: "MC_Workers.cfg", Workers: 4, Timeout: 20 * time.Minute})
	run.AddTLC(mc)
	if mc.InvViolated != "" {
		run.Note("Workers model: invariant %s violated (design-level information)", mc.InvViolated)
	}
	procs := []int{1, 2, 3, 4, 5, 7, 8, 16, 32}
	cases := c12Cases(run)
	results := map[int][]string{}
	var groups []rangeGroup
	anomalies := map[int][]string{}
	type cres struct {
		n   int
		ds  []string
		gs  []rangeGroup
		err error
		out string
	}
	ch := make(chan cres, len(procs))
	for _, n := range procs {
		go func(n int) {
			cmd := exec.Command(os.Args[0], "C12-child", strconv.Itoa(n), run.Tier)
			cmd.Env = append(os.Environ(), fmt.Sprintf("VERIF_SEED=%d", run.Seed), fmt.Sprintf("GOMAXPROCS=%d", n))
			out, err := cmd.CombinedOutput()
			var ds []string
			var gs []rangeGroup
			for _, ln := range strings.Split(string(out), "\n") {
				if strings.HasPrefix(ln, "DIGEST ") {
					ds = append(ds, strings.SplitN(ln, " ", 3)[2])
				}
				if strings.HasPrefix(ln, "RANGES ") {
					f := strings.SplitN(ln, " ", 3)
					var g rangeGroup
					if json.Unmarshal([]byte(f[2]), &g) != nil {
						err = fmt.Errorf("bad RANGES line %q", ln)
					}
					ci, _ := strconv.Atoi(f[1])
					g.ID = fmt.Sprintf("%d|%d", ci, n)
					gs = append(gs, g)
				}
			}
			ch <- cres{n, ds, gs, err, string(out)}
		}(n)
	}
	for range procs {
		r := <-ch
		if r.err != nil || len(r.ds) != len(cases) {
			vx.Fatal2("C12 child GOMAXPROCS=%d failed: %v (%d digests for %d cases)\n%s", r.n, r.err, len(r.ds), len(cases), tailStr(r.out, 800))
		}
		results[r.n] = r.ds
		groups = append(groups, r.gs...)
	}
	// the observed partitions, validated by the specification (spec/TVWorkers.tla)
	{
		seen := map[string]bool{}
		sites := map[string]int{}
		var tr []rangeGroup
		for _, g := range groups {
			sites[g.Site]++
			k := fmt.Sprintf("%s|%d|%d|%v", g.Site, g.Base, g.End, g.Ranges)
			if seen[k] {
				continue
			}
			seen[k] = true
			tr = append(tr, g)
		}
		for i := range tr {
			tr[i].ID = fmt.Sprintf("%s|%s|#%d", tr[i].ID, tr[i].Site, i)
		}
		if len(tr) == 0 {
			vx.Fatal2("C12: no parallel section was observed through verifhook.Range (hooks missing?)")
		}
		res := vx.MustTLC(vx.TLCOpts{Module: "TVWorkers", Cfg: "TVWorkers.cfg", Workers: 1, Timeout: 20 * time.Minute, Heap: "8g",
			Files: map[string][]byte{"trace.ndjson": vx.NDJSON(tr)}})
		run.AddTLC(res)
		run.AddTraces(len(tr))
		byID := map[string]rangeGroup{}
		for _, g := range tr {
			byID[g.ID] = g
		}
		// An irregular partition is not by itself a dependence of the RESULT on GOMAXPROCS (re-doing an item can be
		// harmless, an item may be handled outside the section): it is recorded, and it is attached as the diagnosis to
		// a result difference of the same call. The verdict stays with the equality oracle below.
		for _, b := range vx.Verdict(res, len(tr), "TVWorkers") {
			g := byID[b.ID]
			f := strings.SplitN(b.ID, "|", 3)
			ci, _ := strconv.Atoi(f[0])
			msg := fmt.Sprintf("GOMAXPROCS=%s: parallel section %q over items %d..%d with %d workers handed out %v: %s", f[1], g.Site, g.Base, g.End-1, g.NW, g.Ranges, b.Why)
			anomalies[ci] = append(anomalies[ci], msg)
			run.Note("partition anomaly in %s: %s", cases[ci].name, msg)
			fmt.Printf("NOTE property=C12 partition anomaly (not a verdict): %s: %s\n", cases[ci].name, msg)
		}
		run.Cov["partition_anomalies"] = len(anomalies)
		run.Cov["parallel_sections_observed"] = len(groups)
		run.Cov["distinct_partitions_validated"] = len(tr)
		run.Cov["sections_per_site"] = sites
	}
	for ci, c := range cases {
		res := map[int]string{}
		for _, n := range procs {
			res[n] = results[n][ci]
			run.Eval(fmt.Sprintf("%s|%d", c.name, n))
			if strings.HasPrefix(res[n], "error: ") {
				run.Violate("call-fails|"+c.name, fmt.Sprintf("%s under GOMAXPROCS=%d: %s", c.name, n, res[n]), c.name)
			}
		}
		var diffs []int
		for _, n := range procs[1:] {
			if res[n] != res[1] {
				diffs = append(diffs, n)
			}
		}
		multiSame := true
		for _, n := range procs[2:] {
			if res[n] != res[2] {
				multiSame = false
			}
		}
		kind := strings.TrimPrefix(c.name, "Encode+Decode:")
		if len(diffs) > 0 {
			cls := "1-vs-many"
			if !multiSame {
				cls = "among-many"
			}
			// signature: codec+method class, not the picture
			sig := kind
			if i := lastIndexByte(kind, ':'); i >= 0 {
				sig = kind[i+1:]
			}
			diag := ""
			if len(anomalies[ci]) > 0 {
				diag = "; observed " + strings.Join(anomalies[ci], "; ")
				if len(diag) > 900 {
					diag = diag[:900] + "..."
				}
			}
			run.Violate("gomaxprocs|"+cls+"|"+sig, fmt.Sprintf("%s: result under GOMAXPROCS=1 differs from GOMAXPROCS in %v (results for n>1 mutually equal: %v)%s", c.name, diffs, multiSame, diag), c.name)
		}
		run.Sample(map[string]any{"call": c.name, "result_gomaxprocs_1": res[1], "differs_for": diffs})
	}
	run.Finish()
}

func lastIndexByte(s string, b byte) int {
	for i := len(s) - 1; i >= 0; i-- {
		if s[i] == b {
			return i
		}
	}
	return -1
}

func clamp8(v int) uint8 {
	if v < 0 {
		return 0
	}
	if v > 255 {
		return 255
	}
	return uint8(v)
}
