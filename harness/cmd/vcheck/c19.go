package main

import (
	"bytes"
	"encoding/json"
	"fmt"
	"image"
	"image/color"
	"math/rand"
	"time"

	"github.com/deepteams/webp"
	"github.com/deepteams/webp/verifx/vx"
)

func init() { register("C19", checkC19) }

type pixLayout struct {
	Typ  string `json:"typ"`
	Size [2]int `json:"size"`
	Org  [2]int `json:"org"`
	Mar  [2]int `json:"mar"`
	Pad  int    `json:"pad"`
	Wrap string `json:"wrap"`
}

type pixConfig struct {
	Lossless bool   `json:"lossless"`
	Alpha    string `json:"alpha"`
	Exact    bool   `json:"exact"`
	Sharp    bool   `json:"sharp"`
	Dither   bool   `json:"dither"`
}

type pixCase struct {
	Lay    pixLayout   `json:"lay"`
	Cfgs   []pixConfig `json:"cfgs"`
	Stride int         `json:"stride"`
	PW     int         `json:"pw"`
	PH     int         `json:"ph"`
	First  int         `json:"first"`
	Last   int         `json:"last"`
}

type genericRGBA struct{ im *image.RGBA }

func (g genericRGBA) ColorModel() color.Model { return color.RGBAModel }
func (g genericRGBA) Bounds() image.Rectangle { return g.im.Bounds() }
func (g genericRGBA) At(x, y int) color.Color { return g.im.RGBAAt(x, y) }

// buildLayout places the picture (w*h NRGBA or premultiplied RGBA pixel quadruples) into a parent buffer exactly as
// the specification's Offset() says, fills every other byte with garbage, and returns the image to encode, the
// buffer (to check it is not modified) and the view's bounds.
func buildLayout(c pixCase, pix []byte, garbage byte) (image.Image, []byte) {
	l := c.Lay
	w, h := l.Size[0], l.Size[1]
	buf := make([]byte, c.Stride*c.PH)
	for i := range buf {
		buf[i] = garbage ^ byte(i*7)
	}
	for y := 0; y < h; y++ {
		for x := 0; x < w; x++ {
			off := (y+l.Org[1])*c.Stride + (x+l.Org[0])*4
			copy(buf[off:off+4], pix[(y*w+x)*4:])
		}
	}
	rect := image.Rect(l.Org[0], l.Org[1], l.Org[0]+w, l.Org[1]+h)
	// Pix of a sub-image starts at the view's first pixel (as image.SubImage does)
	first := l.Org[1]*c.Stride + l.Org[0]*4
	view := buf[first:]
	if l.Typ == "NRGBA" {
		im := &image.NRGBA{Pix: view, Stride: c.Stride, Rect: rect}
		if l.Wrap == "generic" {
			return genericImage{im}, buf
		}
		return im, buf
	}
	im := &image.RGBA{Pix: view, Stride: c.Stride, Rect: rect}
	if l.Wrap == "generic" {
		return genericRGBA{im}, buf
	}
	return im, buf
}

func checkC19(args []string) {
	run := vx.NewRun("C19", "exploration", args)
	activeRun = run
	run.Rule = "layout space enumerated by TLC from spec/Pixels.tla (image type x size x view origin x parent margins x stride padding x generic wrapper; the view arithmetic is checked to stay inside the buffer without sharing bytes) crossed with encoder configurations (lossy/lossless x alpha class x Exact x sharp YUV x dithering); for one picture per (type, size, alpha class) every layout must give byte-identical output, also with a second garbage pattern outside the bounds, and the caller's buffer must be unchanged. distinct = distinct (layout, configuration) pairs"
	run.Assumptions = []string{"RGBA layouts (premultiplied storage) are compared among themselves, including the generic wrapper yielding the same color.RGBA values"}
	res := vx.MustTLC(vx.TLCOpts{Module: "Pixels", Cfg: "GEN_Pixels.cfg", Workers: 1, Timeout: 20 * time.Minute})
	if res.InvViolated != "" {
		vx.Fatal2("Pixels model: invariant %s violated (spec bug)", res.InvViolated)
	}
	run.AddTLC(res)
	var cases []pixCase
	for _, raw := range res.Tagged("CASE") {
		var c pixCase
		if err := json.Unmarshal(raw, &c); err != nil {
			vx.Fatal2("CASE: %v", err)
		}
		cases = append(cases, c)
	}
	rng := rand.New(rand.NewSource(run.Seed))
	// one picture per (type, size, alpha class)
	pics := map[string][]byte{}
	picFor := func(typ string, w, h int, alpha string) []byte {
		k := fmt.Sprintf("%s/%dx%d/%s", typ, w, h, alpha)
		if p, ok := pics[k]; ok {
			return p
		}
		p := make([]byte, w*h*4)
		for i := 0; i < w*h; i++ {
			a := 255
			switch alpha {
			case "binary":
				a = 255 * rng.Intn(2)
			case "graded":
				a = rng.Intn(256)
			}
			r, g, b := rng.Intn(256), rng.Intn(256), rng.Intn(256)
			if typ == "RGBA" { // premultiplied storage must satisfy c <= a
				r, g, b = r*a/255, g*a/255, b*a/255
			}
			p[i*4], p[i*4+1], p[i*4+2], p[i*4+3] = byte(r), byte(g), byte(b), byte(a)
		}
		pics[k] = p
		return p
	}
	ref := map[string][]byte{}
	refLay := map[string]string{}
	n := 0
	for _, c := range cases {
		for _, cfg := range c.Cfgs {
			if !run.Thorough() && (cfg.Sharp && cfg.Dither) {
				continue
			}
			pix := picFor(c.Lay.Typ, c.Lay.Size[0], c.Lay.Size[1], cfg.Alpha)
			o := *webp.DefaultOptions()
			o.Lossless, o.Exact, o.UseSharpYUV = cfg.Lossless, cfg.Exact, cfg.Sharp
			o.Method = 2
			if cfg.Dither {
				o.Preprocessing = 2
			}
			key := fmt.Sprintf("%s/%dx%d/%+v", c.Lay.Typ, c.Lay.Size[0], c.Lay.Size[1], cfg)
			layName := fmt.Sprintf("org%v mar%v pad%d %s", c.Lay.Org, c.Lay.Mar, c.Lay.Pad, c.Lay.Wrap)
			for gi, garbage := range []byte{0x5a, 0xc3} {
				img, buf := buildLayout(c, pix, garbage)
				before := hashBytes(buf)
				out, err, pan := safeEncode(img, &o)
				if pan != nil || err != nil {
					run.Violate("encode-fails|"+c.Lay.Typ+"|"+layName, fmt.Sprintf("%s %s: err=%v panic=%v", key, layName, err, pan), map[string]any{"case": c, "cfg": cfg})
					break
				}
				if hashBytes(buf) != before {
					run.Violate("caller-image-modified|"+c.Lay.Typ+"|lossless="+fmt.Sprint(cfg.Lossless), fmt.Sprintf("%s %s: Encode modified the caller's pixel buffer", key, layName), map[string]any{"case": c, "cfg": cfg})
				}
				if r, ok := ref[key]; !ok {
					ref[key], refLay[key] = out, layName
				} else if !bytes.Equal(r, out) {
					what := "layout"
					if gi == 1 {
						what = "bytes-outside-bounds"
					}
					run.Violate(fmt.Sprintf("output-depends-on-%s|%s|lossless=%v|%s", what, c.Lay.Typ, cfg.Lossless, layClass(c.Lay)),
						fmt.Sprintf("%s: layout {%s} (garbage pattern %d) gives %d bytes, layout {%s} gives %d bytes (different content)", key, layName, gi, len(out), refLay[key], len(r)),
						map[string]any{"case": c, "cfg": cfg})
				}
			}
			run.Eval(key + "|" + layName)
			if n%2500 == 0 {
				run.Sample(map[string]any{"layout": c.Lay, "config": cfg, "stride": c.Stride, "parent": []int{c.PW, c.PH}})
			}
			n++
		}
	}
	// indexed storage: the same picture (at most 120 colours) as *image.NRGBA at the origin and as *image.Paletted -
	// with exactly the colours used, with extra palette entries no pixel uses (opaque and transparent ones), as a crop
	// with non-zero origin of a larger indexed parent whose other pixels use those extra entries
	{
		for pi, sz := range [][2]int{{17, 17}, {16, 15}, {33, 9}, {1, 1}} {
			for _, alpha := range []string{"opaque", "binary", "graded"} {
				w, h := sz[0], sz[1]
				nc := 5 + rng.Intn(100)
				pal := make(color.Palette, nc)
				for k := range pal {
					a := uint8(255)
					switch alpha {
					case "binary":
						a = uint8(255 * (k % 2))
					case "graded":
						a = uint8(rng.Intn(256))
					}
					pal[k] = color.NRGBA{uint8(rng.Intn(256)), uint8(rng.Intn(256)), uint8(rng.Intn(256)), a}
				}
				if alpha != "opaque" {
					pal[0] = color.NRGBA{10, 20, 30, 255}
				}
				idx := make([]uint8, w*h)
				for k := range idx {
					idx[k] = uint8(rng.Intn(nc))
				}
				plain := image.NewNRGBA(image.Rect(0, 0, w, h))
				for k, v := range idx {
					c := pal[v].(color.NRGBA)
					plain.Pix[4*k], plain.Pix[4*k+1], plain.Pix[4*k+2], plain.Pix[4*k+3] = c.R, c.G, c.B, c.A
				}
				extra := append(append(color.Palette{}, pal...), color.NRGBA{1, 2, 3, 0}, color.NRGBA{200, 100, 50, 128}, color.NRGBA{9, 9, 9, 255})
				mk := func(kind string) image.Image {
					switch kind {
					case "paletted":
						p := image.NewPaletted(image.Rect(0, 0, w, h), pal)
						copy(p.Pix, idx)
						return p
					case "paletted+unused-entries":
						p := image.NewPaletted(image.Rect(0, 0, w, h), extra)
						copy(p.Pix, idx)
						return p
					default: // crop at (3,2) of a parent whose other pixels use the extra entries
						p := image.NewPaletted(image.Rect(0, 0, w+5, h+4), extra)
						for k := range p.Pix {
							p.Pix[k] = uint8(nc + rng.Intn(3))
						}
						for y := 0; y < h; y++ {
							copy(p.Pix[(y+2)*p.Stride+3:], idx[y*w:(y+1)*w])
						}
						return p.SubImage(image.Rect(3, 2, 3+w, 2+h))
					}
				}
				for ci, cfg := range []pixConfig{{Lossless: false}, {Lossless: true}, {Lossless: false, Exact: true}, {Lossless: true, Exact: true}, {Lossless: false, Sharp: true}, {Lossless: false, Dither: true}} {
					o := *webp.DefaultOptions()
					o.Lossless, o.Exact, o.UseSharpYUV = cfg.Lossless, cfg.Exact, cfg.Sharp
					o.Method = 2
					if cfg.Dither {
						o.Preprocessing = 2
					}
					key := fmt.Sprintf("indexed/%dx%d/%s/%d colours/cfg%d#%d", w, h, alpha, nc, ci, pi)
					refOut, err, pan := safeEncode(plain, &o)
					if err != nil || pan != nil {
						run.Violate("encode-fails|indexed", fmt.Sprintf("%s as NRGBA: err=%v panic=%v", key, err, pan), key)
						continue
					}
					for _, kind := range []string{"paletted", "paletted+unused-entries", "paletted-crop"} {
						img := mk(kind)
						var before uint64
						if pp, ok := img.(*image.Paletted); ok {
							before = hashBytes(pp.Pix)
						}
						out, err, pan := safeEncode(img, &o)
						run.Eval(key + "|" + kind)
						if err != nil || pan != nil {
							run.Violate("encode-fails|indexed|"+kind, fmt.Sprintf("%s as %s: err=%v panic=%v", key, kind, err, pan), key)
							continue
						}
						if pp, ok := img.(*image.Paletted); ok && hashBytes(pp.Pix) != before {
							run.Violate("caller-image-modified|indexed", fmt.Sprintf("%s as %s: Encode modified the caller's index buffer", key, kind), key)
						}
						if !bytes.Equal(out, refOut) {
							run.Violate(fmt.Sprintf("output-depends-on-storage|%s|lossless=%v|alpha=%s", kind, cfg.Lossless, alpha),
								fmt.Sprintf("%s: stored as %s the picture encodes to %d bytes, as *image.NRGBA to %d bytes (different content)", key, kind, len(out), len(refOut)), key)
						}
					}
				}
			}
		}
	}
	run.Finish()
}

func layClass(l pixLayout) string {
	s := ""
	if l.Wrap == "generic" {
		return "generic"
	}
	if l.Org != [2]int{0, 0} {
		s += "origin"
	}
	if l.Mar != [2]int{0, 0} {
		s += "+margin"
	}
	if l.Pad != 0 {
		s += "+stridepad"
	}
	if s == "" {
		s = "plain"
	}
	return s
}
