package main

import (
	"bytes"
	"fmt"
	"image"
	"image/color"
	"math/rand"
	"time"

	"github.com/deepteams/webp"
	"github.com/deepteams/webp/internal/verifhook"
	"github.com/deepteams/webp/verifx/vx"
)

func init() { register("C07", checkC07) }

type alphLine struct {
	ID    string `json:"id"`
	Bytes []int  `json:"bytes"`
	W     int    `json:"w"`
	H     int    `json:"h"`
	Q     int    `json:"q"`
	Src   []int  `json:"src"`
	Real  []int  `json:"real"`
}

var alphaPatterns = []string{"binary-mask", "2-4-levels", "5-16-levels", "17-256-levels", "gradient", "noise", "single-pixel-corner", "last-column", "last-row", "first-pixel", "fully-transparent", "opaque", "smooth-noisy-columns", "cone", "soft-box"}

func alphaPicture(rng *rand.Rand, w, h int, pattern string, typ string) (image.Image, []int) {
	img := noiseNRGBA(rng, w, h, 0)
	lv := func(n int) []uint8 {
		out := make([]uint8, n)
		for i := range out {
			out[i] = uint8(rng.Intn(256))
		}
		out[0] = 255
		return out
	}
	var levels []uint8
	switch pattern {
	case "2-4-levels":
		levels = lv(2 + rng.Intn(3))
	case "5-16-levels":
		levels = lv(5 + rng.Intn(12))
	case "17-256-levels":
		levels = lv(17 + rng.Intn(176))
	}
	plane := make([]int, w*h)
	for y := 0; y < h; y++ {
		for x := 0; x < w; x++ {
			a := 255
			switch pattern {
			case "binary-mask":
				if (x/3+y/2)%2 == 0 || rng.Intn(9) == 0 {
					a = 0
				}
			case "2-4-levels", "5-16-levels", "17-256-levels":
				a = int(levels[rng.Intn(len(levels))])
			case "gradient":
				a = (x*255/w + y*40/h) & 255
			case "noise":
				a = rng.Intn(256)
			case "single-pixel-corner":
				if x == w-1 && y == h-1 {
					a = rng.Intn(255)
				}
			case "last-column":
				if x == w-1 {
					a = rng.Intn(255)
				}
			case "last-row":
				if y == h-1 {
					a = rng.Intn(255)
				}
			case "first-pixel":
				if x == 0 && y == 0 {
					a = 0
				}
			case "fully-transparent":
				a = 0
			case "cone": // a soft round spot on a fully transparent background (two-dimensional smooth alpha: the
				// gradient predictor wins, and on the lower right rim left + above - above-left is negative)
				dx, dy := 2*x-w, 2*y-h
				d := dx*dx + dy*dy
				r := w * w
				if h*h < r {
					r = h * h
				}
				a = 255 - d*300/(r+1)
				if a < 0 {
					a = 0
				}
			case "soft-box": // an opaque box with a two-pixel feathered edge on a transparent background
				m := x
				for _, v := range []int{y, w - 1 - x, h - 1 - y} {
					if v < m {
						m = v
					}
				}
				m -= 2
				a = m * 100
				if a < 0 {
					a = 0
				}
				if a > 255 {
					a = 255
				}
			case "smooth-noisy-columns": // even columns close to their left neighbour, many distinct values
				if x%2 == 0 && x > 0 {
					a = plane[y*w+x-1] + rng.Intn(3) - 1
				} else {
					a = 40 + rng.Intn(180)
				}
				if a < 0 {
					a = 0
				}
				if a > 255 {
					a = 255
				}
			}
			plane[y*w+x] = a
			c := img.NRGBAAt(x, y)
			c.A = uint8(a)
			img.SetNRGBA(x, y, c)
		}
	}
	nrgbaView := func() *image.NRGBA { // a window into a larger parent full of other pixels
		parent := image.NewNRGBA(image.Rect(0, 0, w+7, h+5))
		rng.Read(parent.Pix)
		for y := 0; y < h; y++ {
			for x := 0; x < w; x++ {
				parent.SetNRGBA(3+x, 2+y, img.NRGBAAt(x, y))
			}
		}
		return parent.SubImage(image.Rect(3, 2, 3+w, 2+h)).(*image.NRGBA)
	}
	switch typ {
	case "RGBA":
		r := image.NewRGBA(img.Rect)
		for y := 0; y < h; y++ {
			for x := 0; x < w; x++ {
				r.Set(x, y, img.NRGBAAt(x, y))
			}
		}
		return r, plane
	case "generic":
		return genericImage{img}, plane
	case "generic-view", "NRGBA64-view":
		// the generic At() path on a picture whose bounds do not start at (0,0)
		v, pl := nrgbaView(), plane
		if typ == "generic-view" {
			return genericImage{v}, pl
		}
		b := v.Bounds()
		parent := image.NewNRGBA64(image.Rect(0, 0, b.Max.X+4, b.Max.Y+3))
		for i := range parent.Pix {
			parent.Pix[i] = uint8(rng.Intn(256))
		}
		for y := b.Min.Y; y < b.Max.Y; y++ {
			for x := b.Min.X; x < b.Max.X; x++ {
				c := v.NRGBAAt(x, y)
				parent.SetNRGBA64(x, y, color.NRGBA64{uint16(c.R) * 257, uint16(c.G) * 257, uint16(c.B) * 257, uint16(c.A) * 257})
			}
		}
		return parent.SubImage(b), pl
	case "NRGBA-view", "RGBA-view":
		// a window into a larger parent full of other pixels: non-zero origin, Stride > 4*width
		pr := image.Rect(0, 0, w+7, h+5)
		win := image.Rect(3, 2, 3+w, 2+h)
		if typ == "NRGBA-view" {
			parent := image.NewNRGBA(pr)
			rng.Read(parent.Pix)
			for y := 0; y < h; y++ {
				for x := 0; x < w; x++ {
					parent.SetNRGBA(3+x, 2+y, img.NRGBAAt(x, y))
				}
			}
			return parent.SubImage(win), plane
		}
		parent := image.NewRGBA(pr)
		for i := 0; i < len(parent.Pix); i += 4 { // valid premultiplied garbage
			a := rng.Intn(256)
			parent.Pix[i], parent.Pix[i+1], parent.Pix[i+2], parent.Pix[i+3] = uint8(rng.Intn(a+1)), uint8(rng.Intn(a+1)), uint8(rng.Intn(a+1)), uint8(a)
		}
		for y := 0; y < h; y++ {
			for x := 0; x < w; x++ {
				parent.Set(3+x, 2+y, img.NRGBAAt(x, y))
			}
		}
		return parent.SubImage(win), plane
	}
	return img, plane
}

func alphaOf(im image.Image) []int {
	b := im.Bounds()
	out := make([]int, 0, b.Dx()*b.Dy())
	for y := b.Min.Y; y < b.Max.Y; y++ {
		for x := b.Min.X; x < b.Max.X; x++ {
			out = append(out, int(color.NRGBAModel.Convert(im.At(x, y)).(color.NRGBA).A))
		}
	}
	return out
}

func checkC07(args []string) {
	run := vx.NewRun("C07", "translation_validation", args)
	activeRun = run
	run.Rule = "alpha pattern classes (binary masks, 2-4 / 5-16 / 17-256 levels, gradients, noise, a single transparent pixel in the last column/row/corner, fully transparent, opaque, smooth-noisy columns) x sizes 1..40 (odd and even widths), every tenth case 64..111 x 64..93 at Method 3..6 with exact compressed alpha, and large pictures x AlphaCompression {0,1,-1} x AlphaFiltering {0,1,2,-1} x AlphaQuality {0,1,50,70,71,99,100,-1} x Method 0..6 x Exact x source type; the ALPH chunk of every written file is decoded by the independent TLA+ reader (spec/Alph.tla + Vp8l.tla via TVAlph): with AlphaQuality 100 the plane equals the source alpha and the real decoder's; below 100 it equals the real decoder's, has at most the documented number of levels and keeps min and max. Opaque sources must give files without ALPH that decode opaque. distinct = distinct (pattern, size class, options) cases"
	run.Assumptions = []string{"the colour planes are not examined here (C04/C06)", "TLA+ decoding of compressed alpha is limited to planes up to about 1600 samples; larger ones are compared through the real decoder only"}
	rng := rand.New(rand.NewSource(run.Seed))
	var lines []alphLine
	info := map[string]string{}
	caseNo := 0
	n := run.Pick(900, 12000)
	for i := 0; i < n+3; i++ {
		w, h := 1+rng.Intn(40), 1+rng.Intn(40)
		if rng.Intn(4) == 0 {
			w, h = 5+rng.Intn(9), 8+rng.Intn(6) // small planes on which compressed alpha is larger than raw
		}
		if i >= n {
			w, h = 320+rng.Intn(40), 200+rng.Intn(30)
		}
		medium := i < n && i%10 == 7 // planes of 64..111 x 64..93: above the size thresholds of the lossless coder's optional stages
		if medium {
			w, h = 64+rng.Intn(48), 64+rng.Intn(30)
		}
		pat := alphaPatterns[rng.Intn(len(alphaPatterns))]
		typ := []string{"NRGBA", "NRGBA", "RGBA", "generic", "NRGBA-view", "RGBA-view", "generic-view", "NRGBA64-view"}[rng.Intn(8)]
		o := *webp.DefaultOptions()
		o.Quality = float32(rng.Intn(101))
		o.Method = rng.Intn(7)
		o.Exact = rng.Intn(2) == 0
		o.AlphaCompression = []int{0, 1, -1}[rng.Intn(3)]
		o.AlphaFiltering = []int{0, 1, 2, -1}[rng.Intn(4)]
		o.AlphaQuality = []int{0, 1, 50, 70, 71, 99, 100, 100, 100, -1, -1}[rng.Intn(11)]
		if medium { // exact alpha, compressed, at the effort levels that switch the optional stages on
			o.Method = []int{6, 6, 5, 4, 3}[rng.Intn(5)]
			o.AlphaQuality = []int{100, -1}[rng.Intn(2)]
			o.AlphaCompression = []int{1, -1}[rng.Intn(2)]
		}
		q := o.AlphaQuality
		if q < 0 {
			q = 100
		}
		img, plane := alphaPicture(rng, w, h, pat, typ)
		name := fmt.Sprintf("%dx%d %s %s m%d q%v exact=%v ac%d af%d aq%d", w, h, pat, typ, o.Method, o.Quality, o.Exact, o.AlphaCompression, o.AlphaFiltering, o.AlphaQuality)
		sig := fmt.Sprintf("%s|%s|ac%d|af%d|aq%d|m%d", pat, typ, o.AlphaCompression, o.AlphaFiltering, o.AlphaQuality, o.Method)
		// three cases out of four: the set of prediction filters the alpha encoder tries is replaced by a single one
		// (horizontal, vertical, gradient) through a verif hook, so that every filter runs on every pattern; whichever
		// filter is used, the chunk records it and the plane must come back exactly
		if ff := caseNo % 4; ff > 0 {
			verifhook.SetOverride("alpha.filter-map", 1<<uint(ff), true)
			name += fmt.Sprintf(" forced-filter%d", ff)
			sig += fmt.Sprintf("|forced-filter%d", ff)
		}
		caseNo++
		out, err, pan := safeEncode(img, &o)
		verifhook.SetOverride("alpha.filter-map", 0, false)
		if err != nil || pan != nil {
			run.Violate("encode-fails|"+sig, fmt.Sprintf("%s: err=%v panic=%v", name, err, pan), name)
			continue
		}
		run.Eval(fmt.Sprintf("%s|%dx%d", sig, w/8, h/8))
		dec, derr := guardedDecode(out)
		if derr != nil {
			run.Violate("decode-fails|"+sig, name+": "+derr.Error(), name)
			continue
		}
		real := alphaOf(dec)
		opaque := true
		for _, a := range plane {
			if a != 255 {
				opaque = false
			}
		}
		alph := findChunk(out, "ALPH")
		if opaque {
			if alph != nil {
				run.Violate("alph-for-opaque|"+sig, name+": an opaque picture was written with an ALPH chunk", name)
			}
			for _, a := range real {
				if a != 255 {
					run.Violate("opaque-decodes-transparent|"+sig, name+": an opaque picture decodes with transparency", name)
					break
				}
			}
			continue
		}
		if alph == nil {
			run.Violate("alpha-lost|"+sig, name+": the picture has transparency but the file has no ALPH chunk (decodes opaque)", name)
			continue
		}
		if q >= 100 {
			for k := range plane {
				if real[k] != plane[k] {
					run.Violate("alpha-differs|"+sig, fmt.Sprintf("%s: decoded alpha differs from the source at sample %d (%d vs %d)", name, k, real[k], plane[k]), name)
					break
				}
			}
		}
		if w*h <= 1600 || alph[0]&3 == 0 {
			id := fmt.Sprintf("a%d", i)
			lines = append(lines, alphLine{ID: id, Bytes: vx.Ints(alph), W: w, H: h, Q: q, Src: plane, Real: real})
			info[id] = name + "||" + sig
		}
		if i%300 == 0 {
			run.Sample(map[string]any{"case": name, "alph_bytes": len(alph), "alph_header": alph[0]})
		}
	}
	// TVAlph in parallel batches
	const batch = 300
	type res struct {
		bl []vx.BadLine
		r  *vx.TLCResult
	}
	nb := (len(lines) + batch - 1) / batch
	ch := make(chan res, nb)
	sem := make(chan struct{}, 8)
	for b := 0; b < nb; b++ {
		lo, hi := b*batch, (b+1)*batch
		if hi > len(lines) {
			hi = len(lines)
		}
		go func(part []alphLine) {
			sem <- struct{}{}
			defer func() { <-sem }()
			r := vx.MustTLC(vx.TLCOpts{Module: "TVAlph", Cfg: "TVAlph.cfg", Workers: 1, Timeout: 40 * time.Minute, Heap: "4g",
				Files: map[string][]byte{"trace.ndjson": vx.NDJSON(part)}})
			ch <- res{vx.Verdict(r, len(part), "TVAlph"), r}
		}(lines[lo:hi])
	}
	for b := 0; b < nb; b++ {
		r := <-ch
		run.AddTLC(r.r)
		for _, bl := range r.bl {
			parts := bytes.SplitN([]byte(info[bl.ID]), []byte("||"), 2)
			run.Violate("independent-reader|"+string(parts[1])+"|"+bl.Why, string(parts[0])+": "+bl.Why, string(parts[0]))
		}
	}
	run.AddTraces(len(lines))
	run.Cov["alph_chunks_decoded_by_the_tla_reader"] = len(lines)
	run.Finish()
}
