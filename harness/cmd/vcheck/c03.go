package main

import (
	"bytes"
	"encoding/binary"
	"encoding/json"
	"fmt"
	"image"
	"image/color"
	"math/rand"
	"os"
	"path/filepath"
	"time"

	"github.com/deepteams/webp"
	"github.com/deepteams/webp/verifx/vx"
)

func init() { register("C03", checkC03) }

func wrapVP8L(payload []byte) []byte {
	var b bytes.Buffer
	b.WriteString("RIFF")
	sz := 4 + 8 + len(payload) + len(payload)%2
	binary.Write(&b, binary.LittleEndian, uint32(sz))
	b.WriteString("WEBPVP8L")
	binary.Write(&b, binary.LittleEndian, uint32(len(payload)))
	b.Write(payload)
	if len(payload)%2 == 1 {
		b.WriteByte(0)
	}
	return b.Bytes()
}

// decodeToARGB runs the real decoder with a deadline; hang = true when it does not return.
func decodeToARGB(file []byte, limit time.Duration) (pix []int, w, h int, err error, hang bool) {
	type res struct {
		im  image.Image
		err error
		pan any
	}
	ch := make(chan res, 1)
	done := make(chan struct{})
	cpu0 := procCPU(os.Getpid())
	go func() {
		defer close(done)
		defer func() {
			if r := recover(); r != nil {
				ch <- res{nil, nil, r}
			}
		}()
		im, e := webp.Decode(bytes.NewReader(file))
		ch <- res{im, e, nil}
	}()
	var r res
	select {
	case r = <-ch:
	case <-time.After(limit):
		if hangVerdict(done, cpu0, limit) != "finished" {
			return nil, 0, 0, nil, true
		}
		r = <-ch
	}
	{
		if r.pan != nil {
			return nil, 0, 0, fmt.Errorf("panic: %v", r.pan), false
		}
		if r.err != nil {
			return nil, 0, 0, r.err, false
		}
		b := r.im.Bounds()
		for y := b.Min.Y; y < b.Max.Y; y++ {
			for x := b.Min.X; x < b.Max.X; x++ {
				c := color.NRGBAModel.Convert(r.im.At(x, y)).(color.NRGBA)
				pix = append(pix, int(c.A), int(c.R), int(c.G), int(c.B))
			}
		}
		return pix, b.Dx(), b.Dy(), nil, false
	}
}

func checkC03(args []string) {
	run := vx.NewRun("C03", "model_checking", args)
	activeRun = run
	run.Rule = "(1) a TLA+ WRITER (spec/Vp8lGen.tla) explored by TLC's BFS enumerates every ordered list of distinct transforms (predictor, cross-colour, subtract-green, palettes with 8x/4x/2x/no packing), writes the stream, decodes it with the reader spec and hands (bytes, expected pixels) to the real decoder; (2) valid VP8L streams that the package's encoder never emits are produced by a seeded structure generator (any subset and order of the four transforms, tile bits 2..9, palettes 1..256 with every packing, cache bits 0..11, meta prefix images with several groups, simple / single-symbol / flat / skewed / 15-bit-deep prefix codes described with and without repeat codes and max_symbol, literals, cache references, backward references over all 120 plane codes and plain distances, overlapping copies); each stream is decoded by the independent TLA+ reader (spec/Vp8l.tla), which defines the pixels, and by webp.Decode; the two must agree. Streams the TLA+ reader rejects are generator mistakes and are skipped. libwebp-encoded lossless fixtures are decoded by the real decoder against their reference PNGs. distinct = distinct generated streams accepted by the specification"
	run.Assumptions = []string{"the TLA+ reader is the reference for what a stream decodes to (it was validated on real encoder output by C01 and on libwebp files)", "pictures up to 20x14, plus a class of up to 64x40 pictures with long copies and 15-bit codes (TLC speed)"}
	rng := rand.New(rand.NewSource(run.Seed))
	n := run.Pick(700, 8000)
	var lines []vp8lLine
	meta := map[string]genStream{}
	realErr := map[string]string{}
	nLong := run.Pick(60, 600)
	for i := 0; i < n+nLong; i++ {
		g := genVP8L(rng, 20, 14)
		if i >= n {
			g = genVP8LLongCopies(rng)
		} else if i%9 == 4 {
			g = genVP8LSparse(rng)
		}
		id := fmt.Sprintf("g%d", i)
		pix, w, h, err, hang := decodeToARGB(wrapVP8L(g.Bytes), 20*time.Second)
		if hang {
			run.Violate("hang|"+featureSig(g.Desc), fmt.Sprintf("webp.Decode did not return within 20 s on a generated stream (%s)", g.Desc), map[string]any{"desc": g.Desc, "bytes": g.Bytes})
			run.Finish() // the decoding goroutine cannot be stopped; nothing measured after this point would be reliable
		}
		ln := vp8lLine{ID: id, Bytes: vx.Ints(g.Bytes), W: g.W, H: g.H, TZero: 0}
		if err != nil {
			realErr[id] = err.Error()
			ln.Pix = []int{}
			ln.W, ln.H = -1, -1 // marks "the real decoder rejected it": TVVp8l reports it iff the spec accepts the stream
		} else {
			ln.Pix = pix
			if w != g.W || h != g.H {
				ln.W, ln.H = w, h
			}
		}
		lines = append(lines, ln)
		meta[id] = g
	}
	bad := validateVP8L(run, lines)
	skipped := 0
	for _, ln := range lines {
		g := meta[ln.ID]
		why, isBad := bad[ln.ID]
		if isBad && len(why) > 27 && why[:27] == "independent reader rejects " {
			if _, re := realErr[ln.ID]; !re {
				// the specification rejects a stream the real decoder accepts: a generator mistake (invalid stream);
				// leniency of the real decoder on invalid input is not what C03 is about
				skipped++
				continue
			}
			skipped++ // both reject: invalid stream
			continue
		}
		run.Eval(g.Desc + fmt.Sprint(len(g.Bytes)))
		if isBad {
			msg := why
			if e, ok := realErr[ln.ID]; ok {
				msg = "webp.Decode rejects a stream the specification accepts: " + e
			}
			run.Violate("pixels|"+featureSig(g.Desc), fmt.Sprintf("generated stream {%s}: %s", g.Desc, msg), map[string]any{"desc": g.Desc, "bytes": g.Bytes})
		}
	}
	if skipped > len(lines)/5 {
		vx.Fatal2("the generator produced %d of %d streams the specification rejects: generator broken", skipped, len(lines))
	}
	for i := 0; i < len(lines) && i < 3; i++ {
		run.Sample(map[string]any{"stream": meta[lines[i].ID].Desc, "bytes": len(lines[i].Bytes)})
	}
	run.Cov["generated"] = len(lines)
	run.Cov["rejected_by_the_specification_and_skipped"] = skipped
	tokLit, tokCopy, tokCache := 0, 0, 0
	// spec -> code: the TLA+ WRITER (spec/Vp8lGen.tla) enumerates every ordered list of distinct transforms by BFS,
	// writes the stream and decodes it with the reader spec; the real decoder must return the spec's pixels
	replayWriter := func(module, what string, wr *vx.TLCResult) int {
		if wr.InvViolated != "" {
			vx.Fatal2("%s: the reader spec rejects what the writer spec wrote (%s): specification bug", module, wr.InvViolated)
		}
		run.AddTLC(wr)
		nWr := 0
		for _, raw := range wr.Tagged("CASE") {
			var c struct {
				Ts    []any `json:"ts"`
				W     int   `json:"w"`
				H     int   `json:"h"`
				NTok  int   `json:"ntok"`
				Bytes []int `json:"bytes"`
				Pix   []int `json:"pix"`
			}
			if err := json.Unmarshal(raw, &c); err != nil {
				vx.Fatal2("%s CASE: %v", module, err)
			}
			b := make([]byte, len(c.Bytes))
			for i, v := range c.Bytes {
				b[i] = byte(v)
			}
			name := fmt.Sprintf("TLA+ writer %s, %s %v on %dx%d", module, what, c.Ts, c.W, c.H)
			pix, w, h, err, hang := decodeToARGB(wrapVP8L(b), 20*time.Second)
			nWr++
			run.Eval("writer:" + module + fmt.Sprint(c.Ts, c.W))
			run.AddTraces(1)
			if module == "Vp8lGen2" {
				tokLit += c.NTok % 1000
				tokCopy += c.NTok / 1000 % 1000
				tokCache += c.NTok / 1000000
			}
			switch {
			case hang:
				run.Violate("hang|tla-writer", name+": webp.Decode did not return", map[string]any{"desc": name, "bytes": b})
				run.Finish()
			case err != nil:
				run.Violate("valid-stream-rejected|tla-writer|"+module+fmt.Sprint(c.Ts), name+": "+err.Error(), map[string]any{"desc": name, "bytes": b})
			case w != c.W || h != c.H || !equalInts(pix, c.Pix):
				run.Violate("pixels|tla-writer|"+module+fmt.Sprint(c.Ts), name+": decoded pixels differ from the specification's", map[string]any{"desc": name, "bytes": b})
			}
		}
		if nWr == 0 {
			vx.Fatal2("%s produced no case", module)
		}
		return nWr
	}
	nWr := replayWriter("Vp8lGen", "transforms (type,colours)", vx.MustTLC(vx.TLCOpts{Module: "Vp8lGen", Cfg: fmt.Sprintf("SPECIFICATION Spec\nCONSTANTS W = 7\nH = 5\nSEED = %d\nMAXT = %d\nINVARIANTS ReaderAccepts Emit\nCHECK_DEADLOCK FALSE\n", 1+run.Seed%97, run.Pick(2, 4)),
		Workers: 1, Timeout: 30 * time.Minute, Heap: "4g"}))
	// the token-level writer: literals / copies / cache references x cache bits x meta prefix image x tile-aligned or not
	seeds, widths := fmt.Sprintf("{%d}", 1+run.Seed%89), "{5, 8}"
	if run.Thorough() {
		seeds, widths = fmt.Sprintf("{%d, %d, %d, %d}", 1+run.Seed%89, 2+run.Seed%89, 3+run.Seed%89, 4+run.Seed%89), "{5, 8, 9, 13}"
	}
	nWr2 := replayWriter("Vp8lGen2", "tokens (seed, cache bits, meta, copies)", vx.MustTLC(vx.TLCOpts{Module: "Vp8lGen2", Cfg: fmt.Sprintf("SPECIFICATION Spec\nCONSTANTS SEEDS = %s\nWIDTHS = %s\nH = 6\nINVARIANTS ReaderAccepts Emit\nCHECK_DEADLOCK FALSE\n", seeds, widths),
		Workers: 4, Timeout: 30 * time.Minute, Heap: "4g"}))
	run.Cov["streams_from_the_tla_token_writer"] = nWr2
	run.Cov["tla_token_writer_tokens"] = map[string]int{"literals": tokLit, "copies": tokCopy, "cache_references": tokCache}
	if tokCopy == 0 || tokCache == 0 {
		vx.Fatal2("Vp8lGen2: the token plans contain no copy or no cache reference (vacuous)")
	}
	run.Cov["streams_from_the_tla_writer"] = nWr
	// libwebp fixtures: real decoder against the reference PNGs; in the thorough tier the TLA+ reader decodes them too,
	// which anchors the specification itself to libwebp's output
	if run.Thorough() {
		var fl []vp8lLine
		for _, f := range losslessFixtures() {
			data, err := os.ReadFile(f.webp)
			if err != nil {
				vx.Fatal2("%v", err)
			}
			pf, _ := os.Open(f.png)
			want, _, err := image.Decode(pf)
			pf.Close()
			if err != nil {
				vx.Fatal2("%v", err)
			}
			var pix []int
			b := want.Bounds()
			for y := b.Min.Y; y < b.Max.Y; y++ {
				for x := b.Min.X; x < b.Max.X; x++ {
					c := color.NRGBAModel.Convert(want.At(x, y)).(color.NRGBA)
					pix = append(pix, int(c.A), int(c.R), int(c.G), int(c.B))
				}
			}
			fl = append(fl, vp8lLine{ID: filepath.Base(f.webp), Bytes: vx.Ints(findChunk(data, "VP8L")), W: b.Dx(), H: b.Dy(), Pix: pix})
		}
		for id, why := range validateVP8L(run, fl) {
			vx.Fatal2("the TLA+ reader disagrees with libwebp's reference PNG on %s: %s (specification bug, no verdict)", id, why)
		}
		run.Cov["libwebp_fixtures_decoded_by_the_tla_reader"] = len(fl)
	}
	for _, f := range losslessFixtures() {
		diff, err := compareLosslessFixture(f.webp, f.png)
		run.Eval("fixture:" + filepath.Base(f.webp))
		if err != nil {
			run.Violate("fixture|"+filepath.Base(f.webp), err.Error(), f.webp)
		} else if diff > 0 {
			run.Violate("fixture|"+filepath.Base(f.webp), fmt.Sprintf("%d pixels differ from the reference PNG", diff), f.webp)
		}
	}
	run.Finish()
}

// featureSig reduces a stream description to its feature classes (for finding signatures).
func featureSig(desc string) string {
	var out []string
	for _, f := range []string{"pred", "xcol", "subg", "pal", "cache0", "meta0"} {
		if bytes.Contains([]byte(desc), []byte(f)) {
			out = append(out, f)
		}
	}
	return fmt.Sprint(out)
}

type llFixture struct{ webp, png string }

func losslessFixtures() []llFixture {
	var out []llFixture
	for _, n := range []string{"gopher-doc.1bpp", "gopher-doc.2bpp", "gopher-doc.4bpp", "gopher-doc.8bpp"} {
		out = append(out, llFixture{filepath.Join(fixtureDir, n+".lossless.webp"), filepath.Join(fixtureDir, n+".png")})
	}
	return out
}

func compareLosslessFixture(webpPath, pngPath string) (int, error) {
	data, err := os.ReadFile(webpPath)
	if err != nil {
		return 0, err
	}
	got, err := webp.Decode(bytes.NewReader(data))
	if err != nil {
		return 0, err
	}
	pf, err := os.Open(pngPath)
	if err != nil {
		return 0, err
	}
	defer pf.Close()
	want, _, err := image.Decode(pf)
	if err != nil {
		return 0, err
	}
	if got.Bounds().Dx() != want.Bounds().Dx() || got.Bounds().Dy() != want.Bounds().Dy() {
		return 0, fmt.Errorf("size %v vs %v", got.Bounds(), want.Bounds())
	}
	diff := 0
	for y := 0; y < got.Bounds().Dy(); y++ {
		for x := 0; x < got.Bounds().Dx(); x++ {
			a := color.NRGBAModel.Convert(got.At(got.Bounds().Min.X+x, got.Bounds().Min.Y+y))
			b := color.NRGBAModel.Convert(want.At(want.Bounds().Min.X+x, want.Bounds().Min.Y+y))
			if a != b {
				diff++
			}
		}
	}
	return diff, nil
}

func equalInts(a, b []int) bool {
	if len(a) != len(b) {
		return false
	}
	for i := range a {
		if a[i] != b[i] {
			return false
		}
	}
	return true
}
