package main

import (
	"bufio"
	"bytes"
	"encoding/binary"
	"encoding/json"
	"fmt"
	"image"
	"io"
	"math/rand"
	"os"
	"os/exec"
	"runtime"
	"sort"
	"strconv"
	"strings"
	"sync"
	"sync/atomic"
	"syscall"
	"time"

	"github.com/deepteams/webp"
	"github.com/deepteams/webp/animation"
	"github.com/deepteams/webp/mux"
	"github.com/deepteams/webp/verifx/vx"
)

func init() {
	register("C05", checkC05)
	register("C05-child", c05Child)
}

type field struct {
	name  string
	off   int
	width int
	chunk int // index into chunks, -1 for the RIFF header
	// a sub-field of the width bytes read as a little-endian integer: nbits bits starting at bit shift (nbits 0 = all)
	shift, nbits int
	// for length fields: the largest value for which the region the field measures still ends inside its container
	// (-1 = not a length)
	limit int
}

func fld(name string, off, width, chunk int) field {
	return field{name: name, off: off, width: width, chunk: chunk, limit: -1}
}

type chunkExt struct {
	hdr, end int // [hdr, end) incl. padding
	payload  int
	size     int
	nested   bool
}

// fieldsFromLayout derives the mutable fields and the chunk extents of a file from the specification's layout map.
func fieldsFromLayout(l layoutLine, data []byte) ([]field, []chunkExt) {
	var fs []field
	var cs []chunkExt
	cur := -1
	for _, e := range l.Els {
		nested := strings.HasPrefix(e.Name, "ANMF/")
		switch {
		case e.Name == "RIFF:header":
			fs = append(fs, fld("RIFF tag", 0, 4, -1), field{name: "RIFF size", off: 4, width: 4, chunk: -1, limit: len(data) - 8}, fld("WEBP tag", 8, 4, -1))
		case strings.HasSuffix(e.Name, ":chunk-header"):
			sz := int(binary.LittleEndian.Uint32(data[e.From+4:]))
			cs = append(cs, chunkExt{hdr: e.From, payload: e.To, size: sz, end: e.To + sz + sz%2, nested: nested})
			cur = len(cs) - 1
			nm := strings.TrimSuffix(e.Name, ":chunk-header")
			fs = append(fs, fld(nm+" tag", e.From, 4, cur), field{name: nm + " chunk size", off: e.From + 4, width: 4, chunk: cur, limit: len(data) - e.To})
		case e.Name == "VP8X:payload":
			fs = append(fs, fld("VP8X flags", e.From, 1, cur), fld("VP8X reserved", e.From+1, 3, cur), fld("VP8X canvas width", e.From+4, 3, cur), fld("VP8X canvas height", e.From+7, 3, cur))
		case e.Name == "ANIM:payload":
			fs = append(fs, fld("ANIM background", e.From, 4, cur), fld("ANIM loop count", e.From+4, 2, cur))
		case e.Name == "ANMF:frame-header":
			for i, n := range []string{"x offset", "y offset", "width", "height", "duration"} {
				fs = append(fs, fld("ANMF "+n, e.From+3*i, 3, cur))
			}
			fs = append(fs, fld("ANMF flags", e.From+15, 1, cur))
		case strings.HasSuffix(e.Name, "VP8 :frame-header"):
			fs = append(fs, fld("VP8 frame tag", e.From, 3, cur), field{name: "VP8 partition 0 length", off: e.From, width: 3, chunk: cur, shift: 5, nbits: 19, limit: cs[cur].size - 10}, fld("VP8 start code", e.From+3, 3, cur), fld("VP8 width", e.From+6, 2, cur), fld("VP8 height", e.From+8, 2, cur))
		case strings.HasSuffix(e.Name, "VP8 :partition0"):
			if e.To-e.From >= 2 {
				fs = append(fs, fld("VP8 first bytes of partition 0", e.From, 2, cur))
			}
		case strings.HasSuffix(e.Name, "VP8 :token-partitions"):
			if e.To-e.From >= 3 {
				fs = append(fs, fld("VP8 partition table / first token bytes", e.From, 3, cur))
			}
		case strings.HasSuffix(e.Name, "VP8L:header"):
			fs = append(fs, fld("VP8L signature", e.From, 1, cur), fld("VP8L dimensions+alpha+version", e.From+1, 4, cur))
		case strings.HasSuffix(e.Name, "VP8L:data"):
			if e.To-e.From >= 4 {
				fs = append(fs, fld("VP8L first data bytes", e.From, 4, cur))
			}
		case strings.HasSuffix(e.Name, "ALPH:header"):
			fs = append(fs, fld("ALPH header byte", e.From, 1, cur))
		}
	}
	return fs, cs
}

type fault struct {
	Slot int    `json:"slot"`
	Kind string `json:"kind"`
	Arg  string `json:"arg"`
}

func applyFaults(base []byte, fs []field, cs []chunkExt, faults []fault, foreign []byte) ([]byte, string) {
	out := append([]byte(nil), base...)
	desc := ""
	for _, f := range faults {
		fd := fs[f.Slot%len(fs)]
		if fd.off+fd.width > len(out) {
			continue
		}
		desc += fmt.Sprintf("%s:%s=%s;", f.Kind, fd.name, f.Arg)
		if f.Kind == "set" {
			var whole uint64
			for i := fd.width - 1; i >= 0; i-- {
				whole = whole<<8 | uint64(out[fd.off+i])
			}
			nb := 8 * fd.width
			if fd.nbits > 0 {
				nb = fd.nbits
			}
			max := uint64(1)<<uint(nb) - 1
			t := whole >> uint(fd.shift) & max
			lim := t // fields that measure nothing: the boundary classes fall back to the true value
			if fd.limit >= 0 {
				lim = uint64(fd.limit)
			}
			var v uint64
			switch f.Arg {
			case "limit-1":
				v = lim - 1
			case "limit":
				v = lim
			case "limit+1":
				v = lim + 1
			case "limit+5":
				v = lim + 5
			case "limit+10":
				v = lim + 10
			case "t-1":
				v = t - 1
			case "t+1":
				v = t + 1
			case "t+2":
				v = t + 2
			case "t*2":
				v = t * 2
			case "t/2":
				v = t / 2
			case "2^16-1":
				v = 1<<16 - 1
			case "2^24-1":
				v = 1<<24 - 1
			case "2^31-1":
				v = 1<<31 - 1
			case "2^31":
				v = 1 << 31
			case "max-9":
				v = max - 9
			case "max-1":
				v = max - 1
			case "max":
				v = max
			case "flip-low-bit":
				v = t ^ 1
			case "flip-high-bit":
				v = t ^ (1 << uint(nb-1))
			default:
				n, _ := strconv.Atoi(f.Arg)
				v = uint64(n)
			}
			v &= max
			whole = whole&^(max<<uint(fd.shift)) | v<<uint(fd.shift)
			for i := 0; i < fd.width; i++ {
				out[fd.off+i] = byte(whole >> uint(8*i))
			}
			continue
		}
		// structural operations on the chunk holding the field
		if fd.chunk < 0 || fd.chunk >= len(cs) {
			if f.Arg == "truncate-here" {
				out = out[:fd.off]
			}
			continue
		}
		c := cs[fd.chunk]
		if c.end > len(out) {
			continue
		}
		op := strings.TrimSuffix(f.Arg, "-resized")
		lenBefore := len(out)
		switch op {
		case "truncate-here":
			out = out[:fd.off]
		case "delete-chunk":
			out = append(out[:c.hdr:c.hdr], out[c.end:]...)
		case "duplicate-chunk":
			dup := append([]byte(nil), out[c.hdr:c.end]...)
			out = append(out[:c.end:c.end], append(dup, out[c.end:]...)...)
		case "swap-with-next":
			if fd.chunk+1 < len(cs) && cs[fd.chunk+1].hdr == c.end && cs[fd.chunk+1].end <= len(out) {
				n := cs[fd.chunk+1]
				sw := append(append([]byte(nil), out[n.hdr:n.end]...), out[c.hdr:c.end]...)
				copy(out[c.hdr:], sw)
			}
		case "zero-length":
			binary.LittleEndian.PutUint32(out[c.hdr+4:], 0)
			out = append(out[:c.payload:c.payload], out[c.end:]...)
		case "drop-pad":
			if c.size%2 == 1 {
				out = append(out[:c.end-1:c.end-1], out[c.end:]...)
			}
		case "splice-foreign":
			if len(foreign) > 20 {
				out = append(out[:c.hdr:c.hdr], append(append([]byte(nil), foreign[12:]...), out[c.end:]...)...)
			}
		}
		if op != f.Arg && len(out) >= 12 {
			// keep the container consistent: the enclosing ANMF chunk (the last frame chunk that starts before this
			// sub-chunk) and the RIFF header take the change of length
			delta := len(out) - lenBefore
			if c.nested {
				for k := fd.chunk - 1; k >= 0; k-- {
					if !cs[k].nested && cs[k].hdr+8 <= len(out) && string(base[cs[k].hdr:cs[k].hdr+4]) == "ANMF" {
						binary.LittleEndian.PutUint32(out[cs[k].hdr+4:], uint32(int(binary.LittleEndian.Uint32(out[cs[k].hdr+4:]))+delta))
						break
					}
				}
			}
			binary.LittleEndian.PutUint32(out[4:], uint32(int(binary.LittleEndian.Uint32(out[4:]))+delta))
		}
	}
	return out, desc
}

// declaredArea is the driver's own generous reading of every dimension field a file declares (for the budget only).
func declaredArea(b []byte) uint64 {
	var area uint64 = 1
	upd := func(w, h uint64) {
		if w*h > area {
			area = w * h
		}
	}
	for i := 0; i+8 <= len(b); i++ {
		switch string(b[i : i+4]) {
		case "VP8X":
			if i+18 <= len(b) {
				upd(uint64(b[i+12])|uint64(b[i+13])<<8|uint64(b[i+14])<<16+1, uint64(b[i+15])|uint64(b[i+16])<<8|uint64(b[i+17])<<16+1)
			}
		case "ANMF":
			if i+24 <= len(b) {
				upd(uint64(b[i+14])|uint64(b[i+15])<<8|uint64(b[i+16])<<16+1, uint64(b[i+17])|uint64(b[i+18])<<8|uint64(b[i+19])<<16+1)
			}
		case "VP8 ":
			if i+18 <= len(b) {
				upd(uint64(binary.LittleEndian.Uint16(b[i+14:])&0x3fff), uint64(binary.LittleEndian.Uint16(b[i+16:])&0x3fff))
			}
		case "VP8L":
			if i+13 <= len(b) {
				v := binary.LittleEndian.Uint32(b[i+9:])
				upd(uint64(v&0x3fff)+1, uint64(v>>14&0x3fff)+1)
			}
		}
	}
	if area > 1<<30 {
		area = 1 << 30 // beyond the documented cap everything must be refused quickly
	}
	return area
}

func wellFormed(im image.Image) string {
	b := im.Bounds()
	if b.Dx() <= 0 || b.Dy() <= 0 {
		return fmt.Sprintf("image with empty bounds %v", b)
	}
	switch v := im.(type) {
	case *image.NRGBA:
		if v.Stride < 4*b.Dx() || len(v.Pix) < (b.Dy()-1)*v.Stride+4*b.Dx() {
			return "NRGBA buffer smaller than its bounds"
		}
	case *image.YCbCr:
		if v.YStride < b.Dx() || len(v.Y) < (b.Dy()-1)*v.YStride+b.Dx() || len(v.Cb) < ((b.Dy()+1)/2-1)*v.CStride+(b.Dx()+1)/2 || len(v.Cr) < len(v.Cb) {
			return "YCbCr planes smaller than the bounds"
		}
	}
	return ""
}

// exerciseAll runs every parsing/decoding entry point on data; a non-empty result is a contract violation.
func exerciseAll(data []byte) (problem string) {
	defer func() {
		if r := recover(); r != nil {
			problem = fmt.Sprintf("panic: %v", r)
		}
	}()
	if im, err := webp.Decode(bytes.NewReader(data)); err == nil {
		if p := wellFormed(im); p != "" {
			return "Decode: " + p
		}
	}
	if c, err := webp.DecodeConfig(bytes.NewReader(data)); err == nil && (c.Width <= 0 || c.Height <= 0) {
		return "DecodeConfig: non-positive size"
	}
	webp.GetFeatures(bytes.NewReader(data))
	if im, _, err := image.Decode(bytes.NewReader(data)); err == nil {
		if p := wellFormed(im); p != "" {
			return "image.Decode: " + p
		}
	}
	if d, err := mux.NewDemuxer(data); err == nil {
		for i := 0; i < d.NumFrames(); i++ {
			d.Frame(i)
		}
		d.GetChunk(mux.FourCCICCP)
		d.GetChunk(mux.FourCCEXIF)
		d.GetChunk(mux.FourCCALPH)
		it := d.NewFrameIterator()
		for it.HasNext() {
			it.Next()
		}
	}
	for pass := 0; pass < 2; pass++ {
		a, err := animation.DecodeBytes(data)
		if err != nil {
			break
		}
		if pass == 0 {
			err = a.DecodeFrames()
		} else {
			err = a.DecodeFramesParallel()
		}
		if err != nil {
			continue
		}
		for i := range a.Frames {
			if im := a.Frames[i].Image; im != nil {
				if p := wellFormed(im); p != "" {
					return fmt.Sprintf("DecodeFrames: frame %d: %s", i, p)
				}
			}
		}
		d, err := animation.NewAnimDecoder(a)
		if err != nil {
			continue
		}
		for d.HasNext() {
			fr, _, err := d.NextFrame()
			if err != nil {
				break
			}
			if p := wellFormed(fr); p != "" {
				return "NextFrame: " + p
			}
		}
	}
	return ""
}

// c05Child reads length-prefixed inputs from the file given as argument and exercises them one by one.
func c05Child(args []string) {
	// hard address-space cap: exhausting it aborts the process, which the parent attributes to the current case
	var lim syscall.Rlimit
	lim.Cur, lim.Max = 20<<30, 20<<30
	syscall.Setrlimit(syscall.RLIMIT_AS, &lim)
	f, err := os.Open(args[0])
	if err != nil {
		fmt.Println("CHILD-ERROR", err)
		os.Exit(2)
	}
	start, _ := strconv.Atoi(args[1])
	r := bufio.NewReader(f)
	w := bufio.NewWriter(os.Stdout)
	for i := 0; ; i++ {
		var n uint32
		if err := binary.Read(r, binary.LittleEndian, &n); err != nil {
			break
		}
		data := make([]byte, n)
		if _, err := io.ReadFull(r, data); err != nil {
			break
		}
		if i < start {
			continue
		}
		fmt.Fprintf(w, "START %d\n", i)
		w.Flush()
		t0 := time.Now()
		var m0, m1 runtime.MemStats
		runtime.ReadMemStats(&m0)
		p := exerciseAll(data)
		runtime.ReadMemStats(&m1)
		if pth := os.Getenv("VERIF_C05_ALLOC"); pth != "" {
			if af, err := os.OpenFile(pth, os.O_APPEND|os.O_CREATE|os.O_WRONLY, 0o644); err == nil {
				fmt.Fprintf(af, "%d %d %d\n", len(data), declaredArea(data), m1.TotalAlloc-m0.TotalAlloc)
				af.Close()
			}
		}
		if over := m1.TotalAlloc - m0.TotalAlloc; p == "" && over > allocBudget(data) {
			p = fmt.Sprintf("memory: the entry points allocated %d bytes for this input; budget 32 MiB + 1 KiB per input byte + 256 bytes per declared pixel = %d", over, allocBudget(data))
		}
		fmt.Fprintf(w, "DONE %d %d %s\n", i, time.Since(t0).Milliseconds(), strings.ReplaceAll(p, "\n", " | "))
		w.Flush()
	}
	fmt.Fprintln(w, "END")
	w.Flush()
}

type c05Input struct {
	data []byte
	desc string
	sig  string
}

// runIsolated exercises the inputs in child processes with a per-case deadline; it reports panics, hangs and crashes.
func runIsolated(run *vx.Run, inputs []c05Input, procs int, covKey string) {
	const shards = 5
	var wg sync.WaitGroup
	var mu sync.Mutex
	slowest, slowDesc := int64(0), ""
	for sh := 0; sh < shards; sh++ {
		var part []c05Input
		for i := sh; i < len(inputs); i += shards {
			part = append(part, inputs[i])
		}
		wg.Add(1)
		go func(part []c05Input) {
			defer wg.Done()
			ms, d := runShard(run, part, procs)
			mu.Lock()
			if ms > slowest {
				slowest, slowDesc = ms, d
			}
			mu.Unlock()
		}(part)
	}
	wg.Wait()
	run.Cov["slowest_case_ms"+covKey] = slowest
	run.Cov["slowest_case"+covKey] = slowDesc
}

func runShard(run *vx.Run, inputs []c05Input, procs int) (int64, string) {
	dir, err := os.MkdirTemp("", "vx-c05-")
	if err != nil {
		vx.Fatal2("%v", err)
	}
	defer os.RemoveAll(dir)
	path := dir + "/inputs.bin"
	var buf bytes.Buffer
	for _, in := range inputs {
		binary.Write(&buf, binary.LittleEndian, uint32(len(in.data)))
		buf.Write(in.data)
	}
	if err := os.WriteFile(path, buf.Bytes(), 0o644); err != nil {
		vx.Fatal2("%v", err)
	}
	// An input that exceeded its CPU budget once is run a second time (fresh child) with a budget enlarged by 4 and by
	// the machine's current oversubscription (1-minute load average / CPUs): on a heavily loaded machine the CPU time
	// of a legitimate huge-canvas input grows several-fold (page-fault and runtime spinning time is CPU time), while a
	// call that never returns exceeds any budget. Once one hang is confirmed in a run, later ones are judged at once.
	retried := map[int]bool{}
	budget := func(i int) time.Duration {
		in := inputs[i]
		// proportional to input length plus declared area (generous constants), plus process noise
		ns := 3e9 + float64(len(in.data))*2e4 + float64(declaredArea(in.data))*400
		if retried[i] {
			ns *= 4 * loadFactor()
		}
		return time.Duration(ns)
	}
	slowest, slowDesc := int64(0), ""
	next := 0
	for next < len(inputs) {
		cmd := exec.Command(os.Args[0], "C05-child", path, strconv.Itoa(next))
		cmd.Env = append(os.Environ(), fmt.Sprintf("GOMAXPROCS=%d", procs))
		stdout, _ := cmd.StdoutPipe()
		var stderr bytes.Buffer
		cmd.Stderr = &stderr
		if err := cmd.Start(); err != nil {
			vx.Fatal2("C05 child: %v", err)
		}
		lines := make(chan string, 64)
		go func() {
			sc := bufio.NewScanner(stdout)
			sc.Buffer(make([]byte, 1<<20), 1<<20)
			for sc.Scan() {
				lines <- sc.Text()
			}
			close(lines)
		}()
		cur := -1
		ended := false
		retrying := false // the child was killed to run its current input again with the enlarged budget
		var cpuAtStart time.Duration
		var pending []string // lines read by waitSlowCase, handled here
	loop:
		for {
			var timeout <-chan time.Time
			if cur >= 0 {
				timeout = time.After(budget(cur))
			} else {
				timeout = time.After(60 * time.Second)
			}
			var ln string
			ok := true
			if len(pending) > 0 {
				ln, pending = pending[0], pending[1:]
			} else {
				select {
				case ln, ok = <-lines:
				case <-timeout:
					ln, ok = "\x00timeout", true
				}
			}
			switch {
			case ln != "\x00timeout":
				if !ok {
					break loop
				}
				switch {
				case strings.HasPrefix(ln, "START "):
					cur, _ = strconv.Atoi(ln[6:])
					cpuAtStart = procCPU(cmd.Process.Pid)
				case strings.HasPrefix(ln, "DONE "):
					parts := strings.SplitN(ln, " ", 4)
					i, _ := strconv.Atoi(parts[1])
					ms, _ := strconv.ParseInt(parts[2], 10, 64)
					if ms > slowest {
						slowest, slowDesc = ms, inputs[i].desc
					}
					run.Eval(inputs[i].sig + "#" + strconv.Itoa(i%7))
					if len(parts) == 4 && parts[3] != "" {
						run.Violate(problemClass(parts[3])+"|"+inputs[i].sig, fmt.Sprintf("%s: %s", inputs[i].desc, parts[3]), map[string]any{"desc": inputs[i].desc, "bytes": inputs[i].data})
					}
					next = i + 1
					cur = -1
				case ln == "END":
					ended = true
				}
			default:
				if cur < 0 {
					cmd.Process.Kill()
					vx.Fatal2("C05 child silent")
				}
				// The wall-clock budget has passed. Wall time depends on what else the machine is doing, so the verdict
				// is taken from the child's CPU time and from whether it still makes progress:
				//   CPU time of this case above 4 x budget (the child runs with GOMAXPROCS=4)  -> over budget
				//   no CPU progress for 15 s while the case is unfinished                      -> blocked for ever (deadlock)
				//   otherwise the case is merely slow because the machine is busy: keep waiting (the case still has
				//   to finish within its CPU budget); an absolute wall cap turns into an infrastructure error.
				verdict, cpu := waitSlowCase(cmd.Process.Pid, cpuAtStart, budget(cur), procs, lines, &pending)
				switch verdict {
				case "finished":
					continue loop
				case "cpu":
					cmd.Process.Kill()
					if !retried[cur] && !c05HangConfirmed.Load() {
						retried[cur] = true
						run.Note("C05: %s used %v of CPU time (budget %v x threads); running it again with an enlarged budget before judging", inputs[cur].desc, cpu, budget(cur)/time.Duration(4*loadFactor()))
						next = cur
						retrying = true
						break loop
					}
					c05HangConfirmed.Store(true)
					run.Violate("hang-or-over-budget|"+inputs[cur].sig, fmt.Sprintf("%s: no result after %v of CPU time, budget %v (times the number of threads of the child, at least 4; input %d bytes, declared area %d)", inputs[cur].desc, cpu, budget(cur), len(inputs[cur].data), declaredArea(inputs[cur].data)), map[string]any{"desc": inputs[cur].desc, "bytes": inputs[cur].data})
				case "blocked":
					cmd.Process.Kill()
					run.Violate("hang-or-over-budget|"+inputs[cur].sig, fmt.Sprintf("%s: the call is blocked for ever (no result within %v and no CPU time used for 15 s; input %d bytes, declared area %d)", inputs[cur].desc, budget(cur), len(inputs[cur].data), declaredArea(inputs[cur].data)), map[string]any{"desc": inputs[cur].desc, "bytes": inputs[cur].data})
				default:
					cmd.Process.Kill()
					vx.Fatal2("C05: %s still running after the absolute wall cap but within its CPU budget (machine overloaded?)", inputs[cur].desc)
				}
				next = cur + 1
				break loop
			}
		}
		werr := cmd.Wait()
		if ended {
			break
		}
		if retrying {
			continue
		}
		if cur >= 0 && next <= cur { // the child died while working on `cur`
			msg := tailStr(stderr.String(), 600)
			cls := "crash"
			if strings.Contains(msg, "out of memory") || strings.Contains(msg, "cannot allocate") {
				cls = "memory-exhaustion"
			} else if strings.Contains(msg, "stack overflow") {
				cls = "stack-overflow"
			}
			run.Violate(cls+"|"+inputs[cur].sig, fmt.Sprintf("%s: the process died (%v): %s", inputs[cur].desc, werr, msg), map[string]any{"desc": inputs[cur].desc, "bytes": inputs[cur].data})
			next = cur + 1
		} else if !ended && next < len(inputs) && cur < 0 && werr != nil && !strings.Contains(werr.Error(), "killed") {
			vx.Fatal2("C05 child exited unexpectedly: %v %s", werr, tailStr(stderr.String(), 400))
		}
	}
	return slowest, slowDesc
}

// c05HangConfirmed is set once an input has exceeded its CPU budget twice in this run.
var c05HangConfirmed atomic.Bool

// loadFactor is the machine's oversubscription: 1-minute load average divided by the number of CPUs, at least 1.
func loadFactor() float64 {
	b, err := os.ReadFile("/proc/loadavg")
	if err != nil {
		return 1
	}
	f := strings.Fields(string(b))
	if len(f) == 0 {
		return 1
	}
	l, err := strconv.ParseFloat(f[0], 64)
	if err != nil {
		return 1
	}
	if r := l / float64(runtime.NumCPU()); r > 1 {
		return r
	}
	return 1
}

// procCPU returns the CPU time (user + system, all threads) a process has used so far, from /proc/<pid>/stat.
func procCPU(pid int) time.Duration {
	b, err := os.ReadFile(fmt.Sprintf("/proc/%d/stat", pid))
	if err != nil {
		return 0
	}
	// the command name (field 2) may contain spaces: fields are counted after the closing parenthesis
	i := bytes.LastIndexByte(b, ')')
	if i < 0 {
		return 0
	}
	f := strings.Fields(string(b[i+1:]))
	if len(f) < 13 {
		return 0
	}
	ut, _ := strconv.ParseInt(f[11], 10, 64) // utime  (field 14)
	st, _ := strconv.ParseInt(f[12], 10, 64) // stime  (field 15)
	return time.Duration(ut+st) * (time.Second / 100)
}

// waitSlowCase decides about a case whose wall-clock budget has passed (see the caller). It returns "finished" when a
// line arrived from the child (stored in *pending for the caller), "cpu", "blocked" or "cap".
func waitSlowCase(pid int, cpuAtStart, budget time.Duration, procs int, lines chan string, pending *[]string) (string, time.Duration) {
	if procs < 4 {
		procs = 4
	}
	capAt := time.Now().Add(20*budget + 10*time.Minute)
	last := procCPU(pid)
	idle := 0
	for {
		select {
		case ln, ok := <-lines:
			if !ok {
				return "finished", 0 // the child died: the caller's crash handling takes over
			}
			*pending = append(*pending, ln)
			return "finished", 0
		case <-time.After(5 * time.Second):
		}
		now := procCPU(pid)
		used := now - cpuAtStart
		if used > time.Duration(procs)*budget {
			return "cpu", used
		}
		if now-last < 20*time.Millisecond {
			idle++
			if idle >= 3 {
				return "blocked", used
			}
		} else {
			idle = 0
		}
		last = now
		if time.Now().After(capAt) {
			return "cap", used
		}
	}
}

// allocBudget is the memory the entry points together may allocate for one input: proportional to the input length
// plus the declared area (measured on the unchanged tree: at most 40 bytes per declared pixel and 2.5 MB for small
// declared areas, i.e. below a sixth of this budget for every input of the quick and thorough tiers).
func allocBudget(data []byte) uint64 {
	return 32<<20 + 1024*uint64(len(data)) + 256*declaredArea(data)
}

func problemClass(p string) string {
	if strings.HasPrefix(p, "memory:") {
		return "memory-over-budget"
	}
	if strings.HasPrefix(p, "panic:") {
		// class by the first words of the panic message
		w := strings.Fields(p)
		if len(w) > 5 {
			w = w[:5]
		}
		return "panic:" + strings.Join(w[1:], " ")
	}
	return "malformed-result"
}

func c05BaseFiles(rng *rand.Rand) map[string][]byte {
	files := map[string][]byte{}
	o := func(f func(o *webp.EncoderOptions)) *webp.EncoderOptions {
		x := *webp.DefaultOptions()
		f(&x)
		return &x
	}
	files["lossy"] = mustEncode(lossyPicture(rng, 40, 36, "graded"), o(func(o *webp.EncoderOptions) { o.Partitions = 2 }))
	files["lossy-alpha-meta"] = mustEncode(gradientAlpha(rng, 33, 21), o(func(o *webp.EncoderOptions) { o.ICC, o.EXIF, o.XMP = []byte("icc"), []byte("exif!"), []byte("x") }))
	files["lossless"] = mustEncode(noiseNRGBA(rng, 19, 23, 2), &webp.EncoderOptions{Lossless: true, Quality: 60, Method: 3})
	files["lossless-palette-meta"] = mustEncode(palettedNRGBA(rng, 24, 24, 6), &webp.EncoderOptions{Lossless: true, Quality: 80, Method: 5, XMP: []byte("<x/>")})
	var buf bytes.Buffer
	e := animation.NewEncoder(&buf, 24, 18, &animation.EncodeOptions{Quality: 70, Lossless: true, LoopCount: 3})
	prev := noiseNRGBA(rng, 24, 18, 1)
	for k := 0; k < 3; k++ {
		e.AddFrame(prev, time.Duration(30+k)*time.Millisecond)
		prev = editPicture(rng, prev, 1)
	}
	e.SetEXIF([]byte("exif-odd"))
	e.Close()
	files["animation-lossless"] = append([]byte(nil), buf.Bytes()...)
	buf.Reset()
	e = animation.NewEncoder(&buf, 20, 20, &animation.EncodeOptions{Quality: 50, AllowMixed: true})
	prev = noiseNRGBA(rng, 20, 20, 2)
	for k := 0; k < 3; k++ {
		e.AddFrame(prev, 20*time.Millisecond)
		prev = editPicture(rng, prev, 2)
	}
	e.Close()
	files["animation-mixed-alpha"] = append([]byte(nil), buf.Bytes()...)
	buf.Reset()
	e = animation.NewEncoder(&buf, 20, 16, &animation.EncodeOptions{Quality: 40, Kmax: 1}) // every frame a lossy key frame (VP8 [+ ALPH] inside ANMF)
	prev = noiseNRGBA(rng, 20, 16, 0)
	for k := 0; k < 2; k++ {
		e.AddFrame(prev, 25*time.Millisecond)
		prev = editPicture(rng, noiseNRGBA(rng, 20, 16, 2), 2)
	}
	e.Close()
	files["animation-lossy"] = append([]byte(nil), buf.Bytes()...)
	return files
}

type namedFile struct {
	name string
	data []byte
}

// c05ShapeFiles are valid files of the package's own encoder for pictures that are very wide or very tall.
func c05ShapeFiles(rng *rand.Rand, thorough bool) []namedFile {
	photo := func(w, h int, alpha bool) *image.NRGBA {
		p := image.NewNRGBA(image.Rect(0, 0, w, h))
		for y := 0; y < h; y++ {
			for x := 0; x < w; x++ {
				i := p.PixOffset(x, y)
				p.Pix[i] = uint8((x*3 + rng.Intn(9)) & 255)
				p.Pix[i+1] = uint8((x + y*29 + rng.Intn(9)) & 255)
				p.Pix[i+2] = uint8((x/3 + y*7 + rng.Intn(17)) & 255)
				p.Pix[i+3] = 255
				if alpha && (x/50)%2 == 0 {
					p.Pix[i+3] = uint8(x & 255)
				}
			}
		}
		return p
	}
	type shape struct {
		w, h     int
		lossless bool
		alpha    bool
		method   int
	}
	shapes := []shape{{16383, 7, true, false, 4}, {13000, 8, true, false, 2}, {7, 16383, true, false, 4}, {16383, 1, true, true, 3}, {1, 16383, true, false, 0},
		{16383, 9, false, false, 4}, {9, 16383, false, false, 2}, {8192, 13, false, true, 4}, {16383, 1, false, false, 4}, {1, 9000, false, true, 3}}
	if thorough {
		shapes = append(shapes, shape{16383, 16, true, true, 6}, shape{16, 16383, true, false, 5}, shape{16383, 33, false, true, 6}, shape{33, 16383, false, false, 5}, shape{12000, 10, true, false, 0})
	}
	var out []namedFile
	for _, s := range shapes {
		o := *webp.DefaultOptions()
		o.Lossless, o.Method = s.lossless, s.method
		out = append(out, namedFile{fmt.Sprintf("%dx%d lossless=%v alpha=%v method %d", s.w, s.h, s.lossless, s.alpha, s.method), mustEncode(photo(s.w, s.h, s.alpha), &o)})
	}
	return out
}

func checkC05(args []string) {
	run := vx.NewRun("C05", "fault_enumeration", args)
	activeRun = run
	run.Rule = "base files (lossy with partitions, lossy+alpha+metadata, lossless, lossless palette+XMP, lossless and mixed-codec animations) are mapped to their fields by the layout map of spec/Riff.tla; TLC enumerates every single fault (field x value class, structural operation) over the field slots and, by simulation, seeded fault pairs (spec/Fault.tla); every proper prefix, seeded random byte strings and bit flips, and valid foreign streams from the VP8/VP8L structure generators (with single-bit mutations) are added; each resulting byte string goes to every entry point (Decode, DecodeConfig, GetFeatures, image.Decode, Demuxer + frames/chunks/iterator, animation.DecodeBytes + DecodeFrames + DecodeFramesParallel + AnimDecoder playback) in a child process with an address-space cap and a per-case deadline proportional to input length plus declared area. Violations: panic, process death, deadline miss, malformed result. distinct = distinct (base file, fault class) pairs"
	run.Assumptions = []string{"time budget: 3 s + 20 us per input byte + 0.4 us per declared pixel (capped at the documented 2^30-pixel limit), taken on the child's CPU time once the wall-clock budget has passed (x number of threads), a call that uses no CPU for 15 s is blocked; memory budget per input 32 MiB + 1 KiB per byte + 256 bytes per declared pixel of cumulative allocation (runtime.MemStats.TotalAlloc) plus an address space cap of 20 GB per child; 5 children in parallel", "memory safety is observed (panic / crash), not proved"}
	rng := rand.New(rand.NewSource(run.Seed))
	bases := c05BaseFiles(rng)
	lay := specLayouts(run, bases)
	var names []string
	for n := range bases {
		names = append(names, n)
	}
	sort.Strings(names)
	// fault sequences from TLC
	nfields := 0 // the field count of the largest base file: every field of every base gets its own slot
	for _, n := range names {
		if !lay[n].OK {
			vx.Fatal2("base file %s is not accepted by the strict reader: %s", n, lay[n].Why)
		}
		if fs, _ := fieldsFromLayout(lay[n], bases[n]); len(fs) > nfields {
			nfields = len(fs)
		}
	}
	gen := vx.MustTLC(vx.TLCOpts{Module: "Fault", Cfg: fmt.Sprintf("SPECIFICATION Spec\nCONSTANTS NFIELDS = %d\nMAXFAULTS = 1\nCHECK_DEADLOCK FALSE\n", nfields), Workers: 1, Timeout: 20 * time.Minute})
	run.AddTLC(gen)
	sim := vx.MustTLC(vx.TLCOpts{Module: "Fault", Cfg: fmt.Sprintf("SPECIFICATION Spec\nCONSTANTS NFIELDS = %d\nMAXFAULTS = 2\nCHECK_DEADLOCK FALSE\n", nfields), Workers: 1,
		Simulate: fmt.Sprintf("num=%d", run.Pick(30, 400)), Depth: 3, Seed: run.Seed, Timeout: 20 * time.Minute})
	run.AddTLC(sim)
	var seqs [][]fault
	seenSeq := map[string]bool{}
	for _, raw := range append(gen.Tagged("CASE"), sim.Tagged("CASE")...) {
		if seenSeq[string(raw)] {
			continue
		}
		seenSeq[string(raw)] = true
		var c struct {
			Faults []fault `json:"faults"`
		}
		if err := json.Unmarshal(raw, &c); err != nil {
			vx.Fatal2("CASE: %v", err)
		}
		seqs = append(seqs, c.Faults)
	}
	// the simulation prints every candidate successor: keep a bounded seeded sample of the pairs
	var singles, pairs [][]fault
	for _, s := range seqs {
		if len(s) == 1 {
			singles = append(singles, s)
		} else {
			pairs = append(pairs, s)
		}
	}
	rng.Shuffle(len(pairs), func(i, j int) { pairs[i], pairs[j] = pairs[j], pairs[i] })
	if max := run.Pick(1500, 30000); len(pairs) > max {
		pairs = pairs[:max]
	}
	var inputs []c05Input
	seenInput := map[uint64]bool{}
	hugePerBase := map[string]int{}
	skippedHuge := 0
	add := func(data []byte, desc, sig string) {
		h := hashBytes(data)
		if seenInput[h] {
			return
		}
		// inputs that legitimately declare a very large canvas cost seconds and gigabytes each (within the documented
		// caps): the quick tier keeps one per base file, the thorough tier all of them
		if declaredArea(data) > 32<<20 {
			base := strings.SplitN(sig, "|", 2)[0]
			hugePerBase[base]++
			lim := 1000
			if !run.Thorough() { // the quick tier keeps one such input for a still and one for an animation
				lim = 0
				if base == "lossy-alpha-meta" || base == "animation-lossless" {
					lim = 1
				}
			}
			if hugePerBase[base] > lim {
				skippedHuge++
				return
			}
		}
		seenInput[h] = true
		inputs = append(inputs, c05Input{data, desc, sig})
	}
	for bi, n := range names {
		base := bases[n]
		if !lay[n].OK {
			vx.Fatal2("base file %s is not accepted by the strict reader: %s", n, lay[n].Why)
		}
		fs, cs := fieldsFromLayout(lay[n], base)
		if len(fs) > nfields {
			vx.Fatal2("C05: base file %s has %d fields, the fault model enumerates %d slots", n, len(fs), nfields)
		}
		foreign := bases[names[(bi+1)%len(names)]]
		for _, s := range singles {
			if s[0].Slot >= len(fs) {
				continue // each field of the file is hit exactly once by the slots below its field count
			}
			d, desc := applyFaults(base, fs, cs, s, foreign)
			add(d, n+": "+desc, n+"|"+s[0].Kind+":"+fs[s[0].Slot%len(fs)].name)
		}
		for _, s := range pairs {
			d, desc := applyFaults(base, fs, cs, s, foreign)
			add(d, n+": "+desc, n+"|pair")
		}
		for k := 0; k < len(base); k++ { // every proper prefix
			add(base[:k], fmt.Sprintf("%s: prefix of %d bytes", n, k), n+"|truncation")
		}
		for k := 0; k < run.Pick(150, 3000); k++ { // seeded bit flips and byte splats
			d := append([]byte(nil), base...)
			for j := 0; j < 1+rng.Intn(4); j++ {
				p := rng.Intn(len(d))
				if rng.Intn(2) == 0 {
					d[p] ^= 1 << uint(rng.Intn(8))
				} else {
					d[p] = byte(rng.Intn(256))
				}
			}
			add(d, fmt.Sprintf("%s: random bit/byte mutation #%d", n, k), n+"|random-mutation")
		}
		run.Sample(map[string]any{"base": n, "bytes": len(base), "fields": len(fs), "chunks": len(cs)})
	}
	for k := 0; k < run.Pick(200, 4000); k++ { // plain random bytes, with and without a plausible header
		d := make([]byte, rng.Intn(200))
		rng.Read(d)
		if k%2 == 0 && len(d) >= 16 {
			copy(d, "RIFF")
			binary.LittleEndian.PutUint32(d[4:], uint32(len(d)-8))
			copy(d[8:], "WEBP")
			copy(d[12:], []string{"VP8 ", "VP8L", "VP8X", "ANMF"}[rng.Intn(4)])
		}
		add(d, fmt.Sprintf("random bytes #%d", k), "random-bytes")
	}
	// valid streams from the structure generators (features the package's encoder never emits, very narrow pictures),
	// and light mutations of them
	for k := 0; k < run.Pick(250, 4000); k++ {
		var d []byte
		var desc string
		if k%3 == 0 {
			g := genVP8Frame(rng, 2, 2, "")
			d, desc = wrapVP8(g.Bytes), "generated VP8 frame {"+g.Desc+"}"
		} else {
			g := genVP8LWH(rng, []int{1, 2, 3, 7, 8, 13}[rng.Intn(6)], 1+rng.Intn(12))
			d, desc = wrapVP8L(g.Bytes), "generated VP8L stream {"+g.Desc+"}"
		}
		add(d, desc, "generated-valid")
		m := append([]byte(nil), d...)
		m[20+rng.Intn(len(m)-20)] ^= 1 << uint(rng.Intn(8))
		add(m, desc+" with one bit flipped", "generated-mutated")
	}
	// bit-field faults inside the lossless bitstream: the TLA+ token writer (spec/Vp8lGen2.tla) lays out valid streams
	// and "hostile" headers (large declared picture, no pixel data) together with the map of their bit fields; every
	// field of every stream is overwritten with each value class
	{
		wr := vx.MustTLC(vx.TLCOpts{Module: "Vp8lGen2", Cfg: fmt.Sprintf("SPECIFICATION Spec\nCONSTANTS SEEDS = {%d}\nWIDTHS = {5, 8}\nH = 6\nINVARIANTS ReaderAccepts Emit EmitHostile\nCHECK_DEADLOCK FALSE\n", 1+run.Seed%89),
			Workers: 4, Timeout: 30 * time.Minute, Heap: "4g"})
		if wr.InvViolated != "" {
			vx.Fatal2("Vp8lGen2: %s violated (specification bug)", wr.InvViolated)
		}
		run.AddTLC(wr)
		type bitField struct {
			Name  string `json:"name"`
			Off   int    `json:"off"`
			Width int    `json:"width"`
		}
		type wcase struct {
			Name   string     `json:"name"`
			Ts     []any      `json:"ts"`
			W      int        `json:"w"`
			Fields []bitField `json:"fields"`
			Bytes  []int      `json:"bytes"`
		}
		nStreams, nFaults := 0, 0
		seenHost := map[string]bool{}
		for _, tag := range []string{"HOSTILE", "CASE"} {
			for _, raw := range wr.Tagged(tag) {
				var c wcase
				if err := json.Unmarshal(raw, &c); err != nil {
					vx.Fatal2("Vp8lGen2 %s: %v", tag, err)
				}
				name := c.Name
				if tag == "CASE" {
					name = fmt.Sprintf("TLA+ token stream %v w=%d", c.Ts, c.W)
					if !run.Thorough() && nStreams >= 10 {
						continue // the quick tier keeps the hostile bases and six valid streams
					}
				} else if seenHost[name] {
					continue
				}
				seenHost[name] = true
				nStreams++
				base := make([]byte, len(c.Bytes))
				for i, v := range c.Bytes {
					base[i] = byte(v)
				}
				for _, f := range c.Fields {
					for _, cls := range []string{"zeros", "ones", "top-bit", "flip-low", "flip-high"} {
						d := append([]byte(nil), base...)
						for k := 0; k < f.Width; k++ {
							p := f.Off + k
							if p/8 >= len(d) {
								break
							}
							bit := d[p/8] >> uint(p%8) & 1
							switch cls {
							case "zeros":
								bit = 0
							case "ones":
								bit = 1
							case "top-bit":
								bit = 0
								if k == f.Width-1 {
									bit = 1
								}
							case "flip-low":
								if k == 0 {
									bit ^= 1
								}
							case "flip-high":
								if k == f.Width-1 {
									bit ^= 1
								}
							}
							d[p/8] = d[p/8]&^(1<<uint(p%8)) | bit<<uint(p%8)
						}
						add(wrapVP8L(d), fmt.Sprintf("%s: bit field %s (bits %d..%d) := %s", name, f.Name, f.Off, f.Off+f.Width-1, cls), "bitfield|"+f.Name+":"+cls)
						nFaults++
					}
				}
			}
		}
		if nStreams == 0 {
			vx.Fatal2("Vp8lGen2 produced no stream for bit-field faults")
		}
		run.Cov["bitfield_fault_base_streams"] = nStreams
		run.Cov["bitfield_faults"] = nFaults
	}
	run.Cov["inputs"] = len(inputs)
	run.Cov["huge_canvas_inputs_left_to_the_thorough_tier"] = skippedHuge
	run.Cov["fault_sequences_from_tlc"] = len(singles) + len(pairs)
	runIsolated(run, inputs, 4, "")
	run.AddTraces(len(inputs))
	// valid files of extreme shape (one to a few rows or columns, above the sizes at which the decoders go parallel),
	// decoded with few and with many worker threads: every parallel section sees fewer items than workers
	var shapes []c05Input
	for _, sh := range c05ShapeFiles(rng, run.Thorough()) {
		shapes = append(shapes, c05Input{sh.data, sh.name, "extreme-shape|" + sh.name})
	}
	for _, procs := range []int{1, 32} {
		runIsolated(run, shapes, procs, fmt.Sprintf("_shapes_gomaxprocs%d", procs))
	}
	run.AddTraces(2 * len(shapes))
	run.Cov["extreme_shape_files"] = len(shapes)
	run.Finish()
}
