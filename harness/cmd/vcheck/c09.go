package main

import (
	"encoding/json"
	"fmt"
	"image"
	"image/color"
	"math/rand"
	"time"

	"github.com/deepteams/webp/animation"
	"github.com/deepteams/webp/verifx/vx"
)

func init() { register("C09", checkC09) }

type genAnimFrame struct {
	OX       int    `json:"ox"`
	OY       int    `json:"oy"`
	W        int    `json:"w"`
	H        int    `json:"h"`
	Blend    bool   `json:"blend"`
	Dispose  bool   `json:"dispose"`
	HasAlpha bool   `json:"hasAlpha"`
	Px1      [4]int `json:"px1"`
	Px2      [4]int `json:"px2"`
}

type genAnimCase struct {
	CW     int            `json:"cw"`
	CH     int            `json:"ch"`
	Frames []genAnimFrame `json:"frames"`
}

func (c genAnimCase) animation() *animation.Animation {
	a := &animation.Animation{CanvasWidth: c.CW, CanvasHeight: c.CH}
	for _, f := range c.Frames {
		fr := animation.Frame{Image: fillFrame(f.W, f.H, f.Px1, f.Px2), OffsetX: f.OX, OffsetY: f.OY, HasAlpha: f.HasAlpha, Duration: 10 * time.Millisecond}
		if !f.Blend {
			fr.Blend = animation.BlendNone
		}
		if f.Dispose {
			fr.Dispose = animation.DisposeBackground
		}
		a.Frames = append(a.Frames, fr)
	}
	return a
}

// validatePlaybacks feeds playback records to spec/TVAnimDec.tla.
func validatePlaybacks(run *vx.Run, recs []tvPlayback) map[string]string {
	bad := map[string]string{}
	const batch = 1500
	for lo := 0; lo < len(recs); lo += batch {
		hi := lo + batch
		if hi > len(recs) {
			hi = len(recs)
		}
		res := vx.MustTLC(vx.TLCOpts{Module: "TVAnimDec", Cfg: "TVAnimDec.cfg", Workers: 1, Timeout: 30 * time.Minute, Heap: "8g",
			Files: map[string][]byte{"trace.ndjson": vx.NDJSON(recs[lo:hi])}})
		run.AddTLC(res)
		for _, b := range vx.Verdict(res, hi-lo, "TVAnimDec") {
			bad[b.ID] = b.Why
		}
	}
	run.AddTraces(len(recs))
	return bad
}

func randomAnimation(rng *rand.Rand, maxCanvas, maxLen int) *animation.Animation {
	cw, ch := 1+rng.Intn(maxCanvas), 1+rng.Intn(maxCanvas)
	if rng.Intn(3) == 0 {
		ch = cw // square canvases: a frame as wide as the canvas is then also "as wide as it is high"
	}
	a := &animation.Animation{CanvasWidth: cw, CanvasHeight: ch}
	n := 1 + rng.Intn(maxLen)
	for i := 0; i < n; i++ {
		var w, h, ox, oy int
		switch rng.Intn(5) {
		case 0: // full canvas
			w, h = cw, ch
		case 1: // canvas sized but shifted (partly outside)
			w, h, ox, oy = cw, ch, rng.Intn(cw+1), rng.Intn(ch+1)
		case 2: // a full-width or full-height band
			if rng.Intn(2) == 0 {
				w, h, oy = cw, 1+rng.Intn(ch), rng.Intn(ch)
			} else {
				w, h, ox = 1+rng.Intn(cw), ch, rng.Intn(cw)
			}
		default:
			w, h = 1+rng.Intn(cw+2), 1+rng.Intn(ch+2)
			ox, oy = rng.Intn(cw+1), rng.Intn(ch+1)
		}
		im := image.NewNRGBA(image.Rect(0, 0, w, h))
		mode := rng.Intn(4)
		opaque := true
		for k := 0; k < w*h; k++ {
			a8 := uint8(255)
			switch mode {
			case 1:
				a8 = []uint8{0, 255}[rng.Intn(2)]
			case 2:
				a8 = uint8(rng.Intn(256))
			case 3:
				a8 = []uint8{0, 1, 127, 128, 254, 255}[rng.Intn(6)]
			}
			if a8 != 255 {
				opaque = false
			}
			im.SetNRGBA(k%w, k/w, color.NRGBA{uint8(rng.Intn(256)), uint8(rng.Intn(256)), uint8(rng.Intn(256)), a8})
		}
		fr := animation.Frame{Image: im, OffsetX: ox, OffsetY: oy, Duration: time.Duration(rng.Intn(100)) * time.Millisecond}
		// HasAlpha is derived from the bitstream: it may be set on an opaque frame, never clear on a transparent one
		fr.HasAlpha = !opaque || rng.Intn(2) == 0
		if rng.Intn(2) == 0 {
			fr.Blend = animation.BlendNone
		}
		if rng.Intn(2) == 0 {
			fr.Dispose = animation.DisposeBackground
		}
		a.Frames = append(a.Frames, fr)
	}
	return a
}

// blendGridAnimations exercises the blend arithmetic through two-frame strips: frame 1 writes dst pixels,
// frame 2 blends src pixels over them.
func blendGridAnimations(rng *rand.Rand, alphaStep int, nChan int) []*animation.Animation {
	var out []*animation.Animation
	chans := []uint8{0, 1, 127, 128, 200, 254, 255}
	for sa := 0; sa < 256; sa += alphaStep {
		for k := 0; k < nChan; k++ {
			dst := image.NewNRGBA(image.Rect(0, 0, 256, 1))
			src := image.NewNRGBA(image.Rect(0, 0, 256, 1))
			for da := 0; da < 256; da++ {
				dst.SetNRGBA(da, 0, color.NRGBA{chans[rng.Intn(len(chans))], uint8(rng.Intn(256)), chans[(k+da)%len(chans)], uint8(da)})
				src.SetNRGBA(da, 0, color.NRGBA{chans[(k*3+da)%len(chans)], uint8(rng.Intn(256)), chans[rng.Intn(len(chans))], uint8(sa)})
			}
			out = append(out, &animation.Animation{CanvasWidth: 256, CanvasHeight: 1, Frames: []animation.Frame{
				{Image: dst, Blend: animation.BlendNone, HasAlpha: true},
				{Image: src, Blend: animation.BlendAlpha, HasAlpha: true}}})
		}
	}
	return out
}

func animSig(a *animation.Animation) string {
	s := fmt.Sprintf("%dx%d", a.CanvasWidth, a.CanvasHeight)
	for _, f := range a.Frames {
		b := f.Image.Bounds()
		s += fmt.Sprintf("|%d,%d,%dx%d,b%d,d%d,a%v", f.OffsetX, f.OffsetY, b.Dx(), b.Dy(), f.Blend, f.Dispose, f.HasAlpha)
	}
	return s
}

func checkC09(args []string) {
	run := vx.NewRun("C09", "model_checking", args)
	activeRun = run
	run.Rule = "(1) TLC model-checks shortcut machine = container semantics on all frame lists of the bounded domain (spec/AnimDec.tla); (2) TLC -simulate generates frame lists, (3) seeded random larger lists and (4) blend-arithmetic strips; all are played by the real AnimDecoder and every returned canvas is trace-validated against the container semantics by spec/TVAnimDec.tla; Reset-replay and snapshot immutability are checked on every playback. distinct = distinct frame-list signatures (rectangles, blend, dispose, alpha flag) with >= 2 frames"
	run.Assumptions = []string{"HasAlpha = false implies the frame's pixels are opaque (the flag is derived from the bitstream)", "frame offsets are non-negative (the container cannot express negative offsets)", "for dst alpha 0 both the container formula (src) and libwebp's integer rounding are accepted"}

	cfg := "MC_AnimDec_quick.cfg"
	if run.Thorough() {
		cfg = "MC_AnimDec.cfg"
	}
	mc := vx.MustTLC(vx.TLCOpts{Module: "MC_AnimDec", Cfg: cfg, Workers: 12, Timeout: 40 * time.Minute, Heap: "16g"})
	run.AddTLC(mc)
	mcCex := ""
	if mc.InvViolated != "" {
		// a model-level counterexample is only information; the verdict comes from replay on the code
		mcCex = "model counterexample: invariant " + mc.InvViolated + " is violated in the code-shaped model"
		run.Note("%s", mcCex)
	}
	run.Cov["mc_distinct_states"] = mc.Distinct

	var anims []*animation.Animation
	gen := vx.MustTLC(vx.TLCOpts{Module: "MC_AnimDec", Cfg: "GEN_AnimDec.cfg", Workers: 1, Simulate: fmt.Sprintf("num=%d", run.Pick(1500, 20000)), Depth: 6, Seed: run.Seed, Timeout: 30 * time.Minute})
	if gen.InvViolated != "" {
		run.Note("model counterexample in generation run: %s", gen.InvViolated)
	}
	for _, raw := range gen.Tagged("CASE") {
		var c genAnimCase
		if err := json.Unmarshal(raw, &c); err != nil {
			vx.Fatal2("CASE: %v", err)
		}
		anims = append(anims, c.animation())
	}
	// the same frame-list generator on a SQUARE canvas (width = height confuses nothing in a correct player)
	genSq := vx.MustTLC(vx.TLCOpts{Module: "MC_AnimDec", Cfg: "GEN_AnimDecSquare.cfg", Workers: 1, Simulate: fmt.Sprintf("num=%d", run.Pick(700, 8000)), Depth: 6, Seed: run.Seed + 3, Timeout: 30 * time.Minute})
	if genSq.InvViolated != "" {
		run.Note("model counterexample in generation run (square canvas): %s", genSq.InvViolated)
	}
	for _, raw := range genSq.Tagged("CASE") {
		var c genAnimCase
		if err := json.Unmarshal(raw, &c); err != nil {
			vx.Fatal2("CASE: %v", err)
		}
		anims = append(anims, c.animation())
	}
	nGen := len(anims)
	if nGen == 0 {
		vx.Fatal2("generation produced no frame lists:\n%s", tailStr(gen.Out, 1500))
	}
	rng := rand.New(rand.NewSource(run.Seed))
	for i := 0; i < run.Pick(400, 6000); i++ {
		anims = append(anims, randomAnimation(rng, 16, 12))
	}
	nRand := len(anims) - nGen
	if run.Thorough() {
		anims = append(anims, blendGridAnimations(rng, 1, 16)...)
	} else {
		anims = append(anims, blendGridAnimations(rng, 4, 3)...)
	}
	var recs []tvPlayback
	byID := map[string]*animation.Animation{}
	for i, a := range anims {
		id := fmt.Sprintf("a%d", i)
		byID[id] = a
		rec, intrinsic, err := playAll(id, a)
		if err != nil {
			run.Violate("playback-error", fmt.Sprintf("%s: %v", animSig(a), err), rec)
			continue
		}
		sig := ""
		if len(a.Frames) >= 2 {
			sig = animSig(a)
		}
		run.Eval(sig)
		if intrinsic != "" {
			key := "snapshot-modified"
			if len(intrinsic) > 11 && intrinsic[:11] == "after Reset" {
				key = "reset-replay-differs"
			}
			run.Violate(key, animSig(a)+": "+intrinsic, rec)
		}
		recs = append(recs, rec)
		if i%997 == 0 {
			run.Sample(map[string]any{"frames": animSig(a)})
		}
	}
	bad := validatePlaybacks(run, recs)
	for id, why := range bad {
		a := byID[id]
		kind := "random"
		if n := len(a.Frames); n == 2 && a.CanvasWidth == 256 && a.CanvasHeight == 1 {
			kind = "blend-arithmetic"
		}
		run.Violate("canvas|"+kind, animSig(a)+": "+why, id)
	}
	run.Cov["tlc_generated_lists"] = nGen
	run.Cov["random_lists"] = nRand
	run.Cov["blend_strips"] = len(anims) - nGen - nRand
	run.Finish()
}

func tailStr(s string, n int) string {
	if len(s) > n {
		return s[len(s)-n:]
	}
	return s
}
