package main

import (
	"bytes"
	"fmt"
	"image"
	"math/rand"
	"runtime"
	"time"

	"github.com/deepteams/webp"
	"github.com/deepteams/webp/internal/verifhook"
	"github.com/deepteams/webp/verifx/vx"
)

func init() { register("C06", checkC06) }

type vp8Line struct {
	ID    string `json:"id"`
	Bytes []int  `json:"bytes"`
	W     int    `json:"w"`
	H     int    `json:"h"`
	Y     []int  `json:"y"`
	U     []int  `json:"u"`
	V     []int  `json:"v"`
	RY    []int  `json:"ry"`
	RU    []int  `json:"ru"`
	RV    []int  `json:"rv"`
}

func cropPlane(p []byte, stride, w, h int) []int {
	out := make([]int, 0, w*h)
	for y := 0; y < h; y++ {
		for x := 0; x < w; x++ {
			out = append(out, int(p[y*stride+x]))
		}
	}
	return out
}

func ycbcrPlanes(im image.Image) (y, u, v []int, ok bool) {
	yc, isY := im.(*image.YCbCr)
	if !isY {
		return nil, nil, nil, false
	}
	w, h := yc.Rect.Dx(), yc.Rect.Dy()
	return cropPlane(yc.Y, yc.YStride, w, h), cropPlane(yc.Cb, yc.CStride, (w+1)/2, (h+1)/2), cropPlane(yc.Cr, yc.CStride, (w+1)/2, (h+1)/2), true
}

// validateVP8 runs the independent TLA+ VP8 reader (batched, parallel JVMs).
func validateVP8(run *vx.Run, lines []vp8Line) map[string]string {
	bad := map[string]string{}
	if len(lines) == 0 {
		return bad
	}
	const batch = 40
	type out struct {
		bl  []vx.BadLine
		res *vx.TLCResult
	}
	n := (len(lines) + batch - 1) / batch
	ch := make(chan out, n)
	sem := make(chan struct{}, 12)
	for i := 0; i < n; i++ {
		lo, hi := i*batch, (i+1)*batch
		if hi > len(lines) {
			hi = len(lines)
		}
		go func(part []vp8Line) {
			sem <- struct{}{}
			defer func() { <-sem }()
			res := vx.MustTLC(vx.TLCOpts{Module: "TVVp8", Cfg: "TVVp8.cfg", Workers: 1, Timeout: 60 * time.Minute, Heap: "4g",
				Files: map[string][]byte{"trace.ndjson": vx.NDJSON(part)}})
			ch <- out{vx.Verdict(res, len(part), "TVVp8"), res}
		}(lines[lo:hi])
	}
	for i := 0; i < n; i++ {
		o := <-ch
		run.AddTLC(o.res)
		for _, b := range o.bl {
			bad[b.ID] = b.Why
		}
	}
	run.AddTraces(len(lines))
	return bad
}

type lossyCase struct {
	w, h    int
	content string
	o       webp.EncoderOptions
	procs   int
}

func lossyOptName(o webp.EncoderOptions) string {
	return fmt.Sprintf("q%v m%d preset%d seg%d part%d pass%d sns%d f%d/%d/%d qmin%d qmax%d ts%d tp%v sharp=%v pre%d",
		o.Quality, o.Method, o.Preset, o.Segments, o.Partitions, o.Pass, o.SNSStrength, o.FilterStrength, o.FilterSharpness, o.FilterType, o.QMin, o.QMax, o.TargetSize, o.TargetPSNR, o.UseSharpYUV, o.Preprocessing)
}

// randomLossyOptions draws from the lossy option product of the C02/C06 quantifier.
func randomLossyOptions(rng *rand.Rand) webp.EncoderOptions {
	o := *webp.DefaultOptions()
	if rng.Intn(4) == 0 {
		o = *webp.OptionsForPreset(webp.Preset(rng.Intn(6)), float32(rng.Intn(101)))
	}
	o.Quality = float32([]int{0, 1, 2, 5, 20, 50, 75, 90, 99, 100}[rng.Intn(10)])
	o.Method = rng.Intn(7)
	pick := func(def int, vals ...int) int {
		if rng.Intn(2) == 0 {
			return def
		}
		return vals[rng.Intn(len(vals))]
	}
	o.Segments = pick(o.Segments, 1, 2, 3, 4)
	o.Partitions = pick(o.Partitions, 0, 1, 2, 3)
	o.Pass = pick(o.Pass, 1, 2, 6, 10)
	o.SNSStrength = pick(o.SNSStrength, 0, 30, 80, 100)
	o.FilterStrength = pick(o.FilterStrength, 0, 0, 20, 60, 100)
	o.FilterSharpness = pick(o.FilterSharpness, 0, 3, 7)
	o.FilterType = pick(o.FilterType, 0, 1)
	if rng.Intn(5) == 0 {
		o.QMin, o.QMax = rng.Intn(40), 60+rng.Intn(41)
	}
	switch rng.Intn(8) {
	case 0:
		o.TargetSize = 200 + rng.Intn(6000)
	case 1:
		o.TargetPSNR = float32(25 + rng.Intn(20))
	}
	o.UseSharpYUV = rng.Intn(6) == 0
	if rng.Intn(6) == 0 {
		o.Preprocessing = rng.Intn(4)
	}
	return o
}

func lossyPicture(rng *rand.Rand, w, h int, content string) *image.NRGBA {
	switch content {
	case "noise":
		return noiseNRGBA(rng, w, h, 0)
	case "rare-segment": // uniform texture with a few smooth macroblocks on the left border
		p := noiseNRGBA(rng, w, h, 0)
		for k := 0; k < 1+rng.Intn(2); k++ {
			y0 := 16 * rng.Intn(h/16)
			for y := y0; y < y0+16; y++ {
				for x := 0; x < 16; x++ {
					i := p.PixOffset(x, y)
					p.Pix[i], p.Pix[i+1], p.Pix[i+2] = uint8(100+x), uint8(100+y-y0), 120
				}
			}
		}
		return p
	case "smooth": // slow gradients with faint noise: most macroblocks end up skipped at low and medium quality
		p := image.NewNRGBA(image.Rect(0, 0, w, h))
		for y := 0; y < h; y++ {
			for x := 0; x < w; x++ {
				i := p.PixOffset(x, y)
				p.Pix[i], p.Pix[i+1], p.Pix[i+2], p.Pix[i+3] = uint8((x*255/w+rng.Intn(3))&255), uint8((y*255/h+rng.Intn(3))&255), uint8(((x+y)/2+rng.Intn(3))&255), 255
			}
		}
		return p
	case "edge-ramp":
		p := image.NewNRGBA(image.Rect(0, 0, w, h))
		edge, flat := 2+rng.Intn(12), uint8(rng.Intn(256))
		for y := 0; y < h; y++ {
			for x := 0; x < w; x++ {
				v := uint8((x*2 + y) % 256)
				if x > y+edge {
					v = flat
				}
				i := p.PixOffset(x, y)
				p.Pix[i], p.Pix[i+1], p.Pix[i+2], p.Pix[i+3] = v, v, v, 255
			}
		}
		return p
	case "flat":
		p := image.NewNRGBA(image.Rect(0, 0, w, h))
		for i := 0; i < len(p.Pix); i += 4 {
			p.Pix[i], p.Pix[i+1], p.Pix[i+2], p.Pix[i+3] = 90, 140, 200, 255
		}
		return p
	default: // graded texture: smooth top-left, noisy bottom-right
		p := image.NewNRGBA(image.Rect(0, 0, w, h))
		for y := 0; y < h; y++ {
			amp := 1 + y*y*96/(h*h+1)
			for x := 0; x < w; x++ {
				n := rng.Intn(amp+x*40/(w+1)+1) - amp/2
				i := p.PixOffset(x, y)
				p.Pix[i], p.Pix[i+1], p.Pix[i+2], p.Pix[i+3] = clamp8(60+x*120/w+n), clamp8(90+y*100/h-n), clamp8(128+n/2), 255
			}
		}
		return p
	}
}

// encodeWithRecon runs webp.Encode and captures the encoder's planes at the end of EncodeFrame.
func encodeWithRecon(img image.Image, o *webp.EncoderOptions) ([]byte, *verifhook.Recon, error) {
	verifhook.WantRecon(true)
	defer verifhook.WantRecon(false)
	out, err, pan := safeEncode(img, o)
	if pan != nil {
		return nil, nil, fmt.Errorf("panic: %v", pan)
	}
	return out, verifhook.TakeRecon(), err
}

func checkC06(args []string) {
	run := vx.NewRun("C06", "translation_validation", args)
	activeRun = run
	run.Rule = "lossy option product (Quality, Method 0..6, presets, Segments, Partitions, Pass, SNS, filter strength/sharpness/type, QMin/QMax, TargetSize, TargetPSNR, sharp YUV, dithering; every second case with the intra-mode decisions overridden through a verif hook) x sizes incl. non-multiples of 16 x content classes x serial (GOMAXPROCS 1) and pipelined (GOMAXPROCS 8) encoder; the encoder's planes are captured by a hook when EncodeFrame returns; (a) webp.Decode with in-loop deblocking bypassed by a hook must return exactly those planes, (b) with FilterStrength 0 the plain webp.Decode must, and (c) for pictures up to 48x48 the independent TLA+ reader (spec/Vp8.tla via TVVp8) decodes the stream: its pre-filter planes must equal the hook planes and its filtered planes the real decoder's. distinct = distinct (size class, option set, path) cases"
	run.Assumptions = []string{"the hook copies VP8Encoder.yPlane/uPlane/vPlane when EncodeFrame returns", "opaque pictures (the colour planes do not depend on alpha)"}
	rng := rand.New(rand.NewSource(run.Seed))
	old := runtime.GOMAXPROCS(0)
	defer runtime.GOMAXPROCS(old)
	var lines []vp8Line
	info := map[string]string{}
	n := run.Pick(420, 5000)
	nLarge := run.Pick(8, 60)
	nEdge := run.Pick(16, 120)
	nTLA := 0
	for i := 0; i < n+nLarge+nEdge; i++ {
		var w, h int
		switch rng.Intn(5) {
		case 0:
			w, h = 1+rng.Intn(48), 1+rng.Intn(48)
		case 1:
			w, h = 16*(1+rng.Intn(3)), 16*(1+rng.Intn(3))
		case 2:
			w, h = 64+rng.Intn(140), 64+rng.Intn(110) // >= 4 macroblock rows: pipelined path
		default:
			w, h = 1+rng.Intn(40), 1+rng.Intn(40)
		}
		content := []string{"noise", "graded", "smooth", "flat"}[rng.Intn(4)]
		o := randomLossyOptions(rng)
		if i >= n+nLarge {
			// directed family (after the random cases, so their seeded stream is unchanged): a grey ramp cut by a diagonal
			// edge into a flat area, small, at low quality with the slower methods. Macroblocks on the edge become intra-4x4
			// without residuals (skipped) between intra-16x16 neighbours with a coded DC block, and the frame has so few
			// tokens that the final probability optimisation changes nothing, i.e. the tokens of the main pass are emitted
			w = []int{48, 64, 80, 96}[rng.Intn(4)]
			h = w
			content = "edge-ramp"
			o = *webp.DefaultOptions()
			o.Quality, o.Method = float32([]int{5, 15, 30}[rng.Intn(3)]), 3+rng.Intn(4)
			o.FilterStrength = []int{0, 60}[rng.Intn(2)]
		} else if i >= n {
			// large pictures (more than 510 macroblocks) whose segment map is almost entirely one segment
			w, h = []int{512, 640, 528}[rng.Intn(3)], []int{512, 480, 400}[rng.Intn(3)]
			content = "rare-segment"
			o = *webp.DefaultOptions()
			o.Quality, o.Method, o.Segments = float32([]int{30, 75}[rng.Intn(2)]), []int{2, 4}[rng.Intn(2)], []int{2, 4}[rng.Intn(2)]
		}
		procs := []int{1, 8}[rng.Intn(2)]
		runtime.GOMAXPROCS(procs)
		img := lossyPicture(rng, w, h, content)
		name := fmt.Sprintf("%dx%d %s procs%d %s", w, h, content, procs, lossyOptName(o))
		sig := fmt.Sprintf("m%d|seg%d|part%d|target=%v|sharp=%v|preset%d|pass%d", o.Method, o.Segments, o.Partitions, o.TargetSize > 0 || o.TargetPSNR > 0, o.UseSharpYUV, o.Preset, o.Pass)
		// every second case: the intra-mode decisions are overridden through the Score hook (about one evaluated mode
		// in `period` wins whatever its cost), so that all prediction modes occur at all positions on any content
		if i%2 == 1 && i < n+nLarge { // the directed edge-ramp family runs with the encoder's own decisions
			period := uint64([]int{2, 4, 8}[(i/2)%3])
			verifhook.ForceModes(uint64(run.Seed)*100003+uint64(i)+1, period)
			name += fmt.Sprintf(" forced-modes/%d", period)
			sig += "|forced-modes"
		}
		out, rec, err := encodeWithRecon(img, &o)
		verifhook.ForceModes(0, 1)
		if err != nil {
			run.Violate("encode-fails|"+sig, name+": "+err.Error(), name)
			continue
		}
		if rec == nil {
			vx.Fatal2("%s: the reconstruction hook did not fire", name)
		}
		run.Eval(fmt.Sprintf("%dx%d|%s|procs%d|q%v", (w+15)/16, (h+15)/16, sig, procs, o.Quality))
		ry, ru, rv := cropPlane(rec.Y, rec.YStride, w, h), cropPlane(rec.U, rec.UVStride, (w+1)/2, (h+1)/2), cropPlane(rec.V, rec.UVStride, (w+1)/2, (h+1)/2)
		// (a) decode with the loop filter bypassed
		verifhook.SetNoLoopFilter(true)
		unf, derr := guardedDecode(out)
		verifhook.SetNoLoopFilter(false)
		if derr != nil {
			run.Violate("decode-fails|"+sig, name+": "+derr.Error(), name)
			continue
		}
		if unf.Bounds().Dx() != w || unf.Bounds().Dy() != h {
			run.Violate("size|"+sig, fmt.Sprintf("%s: decoded %v", name, unf.Bounds()), name)
			continue
		}
		uy, uu, uv, ok := ycbcrPlanes(unf)
		if !ok {
			vx.Fatal2("%s: opaque lossy picture decoded to %T", name, unf)
		}
		if d := firstDiff(uy, ry, w); d != "" {
			run.Violate("drift|"+sig, fmt.Sprintf("%s: decoded luma before deblocking differs from the encoder's reconstruction, first at %s", name, d), name)
		} else if d := firstDiff(uu, ru, (w+1)/2); d != "" {
			run.Violate("drift-chroma|"+sig, fmt.Sprintf("%s: decoded Cb before deblocking differs from the encoder's reconstruction, first at %s", name, d), name)
		} else if d := firstDiff(uv, rv, (w+1)/2); d != "" {
			run.Violate("drift-chroma|"+sig, fmt.Sprintf("%s: decoded Cr before deblocking differs from the encoder's reconstruction, first at %s", name, d), name)
		}
		// (b) FilterStrength 0: the plain decode equals the reconstruction
		full, _ := guardedDecode(out)
		fy, fu, fv, _ := ycbcrPlanes(full)
		if o.FilterStrength == 0 {
			if firstDiff(fy, ry, w) != "" || firstDiff(fu, ru, (w+1)/2) != "" || firstDiff(fv, rv, (w+1)/2) != "" {
				run.Violate("drift-unfiltered|"+sig, name+": FilterStrength 0 but the decoded planes differ from the encoder's reconstruction", name)
			}
		}
		// (c) independent reader for small pictures
		if w <= 48 && h <= 48 && nTLA < run.Pick(160, 2500) {
			nTLA++
			id := fmt.Sprintf("d%d", i)
			lines = append(lines, vp8Line{ID: id, Bytes: vx.Ints(findChunk(out, "VP8 ")), W: w, H: h, Y: fy, U: fu, V: fv, RY: ry, RU: ru, RV: rv})
			info[id] = name + "||" + sig
		}
		if i%150 == 0 {
			run.Sample(map[string]any{"case": name, "bytes": len(out)})
		}
	}
	runtime.GOMAXPROCS(old)
	for id, why := range validateVP8(run, lines) {
		parts := bytes.SplitN([]byte(info[id]), []byte("||"), 2)
		run.Violate("independent-reader|"+string(parts[1])+"|"+whyClass(why), string(parts[0])+": "+why, string(parts[0]))
	}
	run.Cov["streams_decoded_by_the_tla_reader"] = len(lines)
	run.Finish()
}

func whyClass(why string) string {
	for _, k := range []string{"rejects", "size", "partition", "decoded planes differ", "unfiltered"} {
		if bytes.Contains([]byte(why), []byte(k)) {
			return k
		}
	}
	return "other"
}

func firstDiff(a, b []int, w int) string {
	if len(a) != len(b) {
		return fmt.Sprintf("length %d vs %d", len(a), len(b))
	}
	for i := range a {
		if a[i] != b[i] {
			return fmt.Sprintf("(%d,%d): %d vs %d", i%w, i/w, a[i], b[i])
		}
	}
	return ""
}
