package main

import (
	"bytes"
	"fmt"
	"image"
	"image/color"
	"time"

	"github.com/deepteams/webp"
	"github.com/deepteams/webp/animation"
)

var _ = webp.Decode

func main() {
	mk := func(k int) *image.NRGBA {
		img := image.NewNRGBA(image.Rect(0, 0, 8, 8))
		for i := 0; i < 64; i++ {
			a := uint8(255)
			if (i+k)%3 == 0 {
				a = 0
			}
			img.SetNRGBA(i%8, i/8, color.NRGBA{uint8(i * 3), uint8(k * 40), 77, a})
		}
		return img
	}
	for _, lossless := range []bool{false, true} {
		var buf bytes.Buffer
		e := animation.NewEncoder(&buf, 8, 8, &animation.EncodeOptions{Quality: 75, Lossless: lossless})
		for k := 0; k < 3; k++ {
			if err := e.AddFrame(mk(k), 100*time.Millisecond); err != nil {
				panic(err)
			}
		}
		if err := e.Close(); err != nil {
			panic(err)
		}
		a, err := animation.DecodeBytes(buf.Bytes())
		if err != nil {
			panic(err)
		}
		if err := a.DecodeFrames(); err != nil {
			panic(err)
		}
		d, err := animation.NewAnimDecoder(a)
		if err != nil {
			panic(err)
		}
		k := 0
		for d.HasNext() {
			fr, _, err := d.NextFrame()
			if err != nil {
				panic(err)
			}
			bad := 0
			src := mk(k)
			for i := 0; i < 64; i++ {
				if fr.NRGBAAt(i%8, i/8).A != src.NRGBAAt(i%8, i/8).A {
					bad++
				}
			}
			fmt.Println("lossless", lossless, "frame", k, "alpha mismatches", bad)
			k++
		}
	}
}
