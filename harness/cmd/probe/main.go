package main

import (
	"bytes"
	"fmt"
	"image"
	"math/rand"
	"time"

	"github.com/deepteams/webp"
)

func main() {
	w, h := 16000, 5200
	img := image.NewNRGBA(image.Rect(0, 0, w, h))
	rng := rand.New(rand.NewSource(1))
	rng.Read(img.Pix)
	for i := 3; i < len(img.Pix); i += 4 {
		img.Pix[i] = 255
	}
	t0 := time.Now()
	var buf bytes.Buffer
	err := webp.Encode(&buf, img, &webp.EncoderOptions{Quality: 100, Method: 3, Segments: 1})
	fmt.Println("encode err:", err, "bytes:", buf.Len(), time.Since(t0))
	if err == nil {
		_, derr := webp.Decode(bytes.NewReader(buf.Bytes()))
		fmt.Println("decode err:", derr)
	}
}
