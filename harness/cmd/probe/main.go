package main

import (
	"bytes"
	"fmt"
	"image"
	"image/color"
	"time"

	_ "github.com/deepteams/webp"
	"github.com/deepteams/webp/animation"
)

func pic(vals ...uint8) *image.NRGBA {
	im := image.NewNRGBA(image.Rect(0, 0, 5, 2))
	for i, v := range vals {
		a := uint8(255)
		if v == 0 {
			a = 0
		}
		im.SetNRGBA(i%5, i/5, color.NRGBA{v, v, v, a})
	}
	return im
}

func main() {
	A := pic(10, 10, 10, 10, 10, 10, 10, 10, 10, 10)
	B := pic(10, 10, 10, 10, 10, 10, 10, 10, 99, 10)
	C := pic(10, 10, 10, 10, 10, 10, 10, 10, 99, 0)
	var buf bytes.Buffer
	e := animation.NewEncoder(&buf, 5, 2, &animation.EncodeOptions{Lossless: true, Quality: 75, Kmin: 3, Kmax: 5})
	for i, p := range []*image.NRGBA{A, A, B, B, C} {
		d := []int{7, 100, 16777214, 7, 16777214}[i]
		if err := e.AddFrame(p, time.Duration(d)*time.Millisecond); err != nil {
			panic(err)
		}
	}
	if err := e.Close(); err != nil {
		panic(err)
	}
	a, err := animation.DecodeBytes(buf.Bytes())
	if err != nil {
		panic(err)
	}
	a.DecodeFrames()
	for i, f := range a.Frames {
		fmt.Println(i, f.OffsetX, f.OffsetY, f.Image.Bounds(), "dur", f.Duration, "blend", f.Blend, "dispose", f.Dispose, f.Image.(*image.NRGBA).Pix)
	}
}
