package main

import (
	"bytes"
	"fmt"
	"image"
	"math/rand"
	"runtime"

	"github.com/deepteams/webp"
)

func main() {
	for _, procs := range []int{1, 8} {
		runtime.GOMAXPROCS(procs)
		for seed := int64(1); seed <= 4; seed++ {
			rng := rand.New(rand.NewSource(seed))
			w, h := 200, 150
			p := image.NewNRGBA(image.Rect(0, 0, w, h))
			for y := 0; y < h; y++ {
				for x := 0; x < w; x++ {
					i := p.PixOffset(x, y)
					p.Pix[i] = uint8((x*255/w + rng.Intn(12)) & 255)
					p.Pix[i+1] = uint8((y*255/h + rng.Intn(12)) & 255)
					p.Pix[i+2] = uint8(((x+y)*2 + rng.Intn(30)) & 255)
					p.Pix[i+3] = 255
				}
			}
			for _, m := range []int{2, 3, 4, 6} {
				for part := 0; part <= 3; part++ {
					var buf bytes.Buffer
					err := webp.Encode(&buf, p, &webp.EncoderOptions{Quality: 40, Method: m, Partitions: part})
					_, derr := webp.Decode(bytes.NewReader(buf.Bytes()))
					if err != nil || derr != nil {
						fmt.Println("procs", procs, "seed", seed, "method", m, "partitions", part, "enc", err, "dec", derr)
					}
				}
			}
		}
	}
	fmt.Println("done")
}
