// mkoverlay writes a `go build -overlay` file that turns /repo into its PORTABLE build on this amd64 machine:
// every file that only builds for a specific architecture (name suffix or //go:build line) is removed, and every file
// whose constraint holds when no architecture-specific path exists (e.g. "!amd64 && !arm64") is included with the
// constraint dropped. Usage: mkoverlay <repo> <outdir>  -> <outdir>/overlay.json
package main

import (
	"encoding/json"
	"fmt"
	"go/build/constraint"
	"os"
	"path/filepath"
	"strings"
)

var archs = map[string]bool{"386": true, "amd64": true, "arm": true, "arm64": true, "loong64": true, "mips": true, "mips64": true, "mips64le": true, "mipsle": true, "ppc64": true, "ppc64le": true, "riscv64": true, "s390x": true, "wasm": true}

func main() {
	repo, out := os.Args[1], os.Args[2]
	replace := map[string]string{}
	n := 0
	filepath.Walk(repo, func(p string, fi os.FileInfo, err error) error {
		if err != nil || fi.IsDir() {
			if fi != nil && fi.IsDir() && (fi.Name() == ".git" || fi.Name() == "testc" || fi.Name() == "out") {
				return filepath.SkipDir
			}
			return nil
		}
		ext := filepath.Ext(p)
		if ext != ".go" && ext != ".s" {
			return nil
		}
		base := strings.TrimSuffix(filepath.Base(p), ext)
		base = strings.TrimSuffix(base, "_test")
		parts := strings.Split(base, "_")
		if archs[parts[len(parts)-1]] {
			replace[p] = "" // architecture-specific by name
			return nil
		}
		if ext == ".s" {
			replace[p] = ""
			return nil
		}
		b, err := os.ReadFile(p)
		if err != nil {
			return nil
		}
		lines := strings.Split(string(b), "\n")
		for i, ln := range lines {
			if strings.HasPrefix(ln, "package ") {
				break
			}
			if !constraint.IsGoBuild(ln) {
				continue
			}
			expr, err := constraint.Parse(ln)
			if err != nil {
				break
			}
			mentionsArch := false
			expr.Eval(func(tag string) bool {
				if archs[tag] {
					mentionsArch = true
				}
				return false
			})
			if !mentionsArch {
				break
			}
			ok := expr.Eval(func(tag string) bool {
				if archs[tag] {
					return false
				}
				return tag == "verif" || tag == "linux" || tag == "gc" || tag == "unix" || strings.HasPrefix(tag, "go1.")
			})
			if !ok {
				replace[p] = ""
				break
			}
			lines[i] = "// portable overlay: was " + strings.TrimPrefix(ln, "//")
			np := filepath.Join(out, fmt.Sprintf("f%d_%s", n, filepath.Base(p)))
			n++
			os.WriteFile(np, []byte(strings.Join(lines, "\n")), 0o644)
			replace[p] = np
			break
		}
		return nil
	})
	js, _ := json.MarshalIndent(map[string]any{"Replace": replace}, "", " ")
	if err := os.WriteFile(filepath.Join(out, "overlay.json"), js, 0o644); err != nil {
		fmt.Fprintln(os.Stderr, err)
		os.Exit(2)
	}
	fmt.Printf("overlay: %d files removed or rewritten\n", len(replace))
}
