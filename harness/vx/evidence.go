package vx

import (
	"encoding/json"
	"fmt"
	"os"
	"path/filepath"
	"sort"
	"strconv"
	"strings"
	"sync"
	"time"
)

// Root of the verification tree.
var Root = "/verif"

// Run is the context of one check run: tier, seed, counters, violations, findings.
type Run struct {
	ID     string
	Tier   string // quick | thorough
	Seed   int64
	Level  string
	Start  time.Time
	Replay string // --replay path, "" for a normal run

	mu          sync.Mutex
	Cov         map[string]any
	Assumptions []string
	samples     []any
	evals       int64
	distinct    map[string]bool
	states      int64
	transitions int64
	traces      int64
	violations  []Violation
	knownHit    map[string]bool
	notes       []string
	findings    []Finding
	Rule        string
}

// Violation is one reproduced contract violation.
type Violation struct {
	Key     string `json:"key"`     // stimulus signature (matched against known findings)
	Message string `json:"message"` // what failed
	Replay  any    `json:"replay"`  // stimulus to re-run
}

// NewRun reads VERIF_SEED / VERIF_TIER and the known findings.
func NewRun(id, level string, args []string) *Run {
	r := &Run{ID: id, Level: level, Start: time.Now(), Cov: map[string]any{}, distinct: map[string]bool{}, knownHit: map[string]bool{}}
	r.Tier = os.Getenv("VERIF_TIER")
	for i := 0; i < len(args); i++ {
		switch args[i] {
		case "quick", "thorough":
			r.Tier = args[i]
		case "--tier":
			if i+1 < len(args) {
				r.Tier = args[i+1]
				i++
			}
		case "--replay":
			if i+1 < len(args) {
				r.Replay = args[i+1]
				i++
			}
		}
	}
	if r.Tier != "thorough" {
		r.Tier = "quick"
	}
	r.Seed = 1
	if s := os.Getenv("VERIF_SEED"); s != "" {
		if v, err := strconv.ParseInt(strings.TrimSpace(s), 10, 64); err == nil {
			r.Seed = v
		}
	}
	r.findings = LoadFindings()
	return r
}

// Thorough reports whether the thorough tier was requested.
func (r *Run) Thorough() bool { return r.Tier == "thorough" }

// Pick returns q in the quick tier and t in the thorough tier.
func (r *Run) Pick(q, t int) int {
	if r.Thorough() {
		return t
	}
	return q
}

// Eval counts one evaluated case; sig (if non-empty) counts towards distinct non-trivial cases.
func (r *Run) Eval(sig string) {
	r.mu.Lock()
	r.evals++
	if sig != "" {
		r.distinct[sig] = true
	}
	r.mu.Unlock()
}

// Sample records up to 6 sample cases.
func (r *Run) Sample(v any) {
	r.mu.Lock()
	if len(r.samples) < 6 {
		r.samples = append(r.samples, v)
	}
	r.mu.Unlock()
}

// AddTLC accumulates model-checking counters.
func (r *Run) AddTLC(t *TLCResult) {
	r.mu.Lock()
	r.states += t.Distinct
	r.transitions += t.Generated
	r.mu.Unlock()
}

// AddTraces counts traces/behaviours validated against the implementation.
func (r *Run) AddTraces(n int) {
	r.mu.Lock()
	r.traces += int64(n)
	r.mu.Unlock()
}

// Note records a remark that goes into the evidence file.
func (r *Run) Note(format string, a ...any) {
	s := fmt.Sprintf(format, a...)
	r.mu.Lock()
	if len(r.notes) < 40 {
		r.notes = append(r.notes, s)
	}
	r.mu.Unlock()
}

// Violate records a contract violation reproduced on the real code. If a known finding
// matches the key it is reported as KNOWN-FINDING instead.
func (r *Run) Violate(key, msg string, replay any) {
	r.mu.Lock()
	defer r.mu.Unlock()
	for _, f := range r.findings {
		if f.Status == "known" && f.Property == r.ID && f.Matches(key) {
			if !r.knownHit[f.Key] {
				r.knownHit[f.Key] = true
				fmt.Printf("KNOWN-FINDING: property=%s %s (%s)\n", r.ID, f.Key, f.What)
			}
			return
		}
	}
	for _, v := range r.violations {
		if v.Key == key {
			return // one report per signature
		}
	}
	r.violations = append(r.violations, Violation{Key: key, Message: msg, Replay: replay})
}

// NumViolations returns the number of distinct unlisted violations so far.
func (r *Run) NumViolations() int {
	r.mu.Lock()
	defer r.mu.Unlock()
	return len(r.violations)
}

// Finish writes the evidence file, prints VIOLATION lines and exits.
func (r *Run) Finish() {
	r.mu.Lock()
	defer r.mu.Unlock()
	wall := time.Since(r.Start).Seconds()
	cov := map[string]any{}
	for k, v := range r.Cov {
		cov[k] = v
	}
	cov["evaluations"] = r.evals
	cov["distinct_nontrivial"] = len(r.distinct)
	cov["rule"] = r.Rule
	if len(r.samples) == 0 {
		r.samples = append(r.samples, "no case was recorded")
	}
	cov["samples"] = r.samples
	if r.states > 0 {
		cov["states"] = r.states
		cov["transitions"] = r.transitions
	}
	cov["traces_validated_against_impl"] = r.traces
	if len(r.notes) > 0 {
		cov["notes"] = r.notes
	}
	var kh []string
	for k := range r.knownHit {
		kh = append(kh, k)
	}
	sort.Strings(kh)
	if len(kh) > 0 {
		cov["known_findings_hit"] = kh
	}
	ev := map[string]any{
		"property_id": r.ID,
		"tier":        r.Tier,
		"seed":        r.Seed,
		"level":       r.Level,
		"coverage":    cov,
		"assumptions": r.Assumptions,
		"wall_s":      wall,
		"violations":  len(r.violations),
	}
	if r.Assumptions == nil {
		ev["assumptions"] = []string{}
	}
	if r.Replay == "" && os.Getenv("VERIF_NO_EVIDENCE") == "" {
		b, _ := json.MarshalIndent(ev, "", " ")
		os.MkdirAll(filepath.Join(Root, "evidence"), 0o755)
		if err := os.WriteFile(filepath.Join(Root, "evidence", r.ID+".json"), append(b, '\n'), 0o644); err != nil {
			Fatal2("write evidence: %v", err)
		}
	}
	if len(r.violations) == 0 {
		fmt.Printf("OK property=%s tier=%s seed=%d evaluations=%d distinct=%d states=%d traces=%d wall=%.1fs\n",
			r.ID, r.Tier, r.Seed, r.evals, len(r.distinct), r.states, r.traces, wall)
		os.Exit(0)
	}
	dir := filepath.Join(Root, "evidence", "replay", r.ID)
	os.MkdirAll(dir, 0o755)
	for i, v := range r.violations {
		p := filepath.Join(dir, fmt.Sprintf("%s-seed%d-%d.json", r.Tier, r.Seed, i))
		b, _ := json.MarshalIndent(v, "", " ")
		os.WriteFile(p, b, 0o644)
		fmt.Printf("DETAIL property=%s key=%s: %s\n", r.ID, v.Key, v.Message)
		fmt.Printf("VIOLATION property=%s replay=%s\n", r.ID, p)
	}
	os.Exit(1)
}

// Finding is one entry of known_findings.json.
type Finding struct {
	Property string `json:"property"`
	Status   string `json:"status"` // known | fixed
	Key      string `json:"key"`    // signature prefix matched against violation keys
	What     string `json:"what"`
	Commit   string `json:"commit,omitempty"`
}

// Matches reports whether a violation key is covered by this finding (exact or prefix up to a '|').
func (f Finding) Matches(key string) bool {
	return key == f.Key || strings.HasPrefix(key, f.Key+"|")
}

// LoadFindings reads /verif/known_findings.json (never written at run time).
func LoadFindings() []Finding {
	b, err := os.ReadFile(filepath.Join(Root, "known_findings.json"))
	if err != nil {
		return nil
	}
	var doc struct {
		Findings []Finding `json:"findings"`
	}
	if err := json.Unmarshal(b, &doc); err != nil {
		Fatal2("known_findings.json: %v", err)
	}
	return doc.Findings
}
