package vx

import (
	"bytes"
	"encoding/json"
	"fmt"
	"time"
)

// Sentinels of the TVFiles module.
var (
	Absent = []int{-1}
	SkipB  = []int{-2}
)

// FrameExp is the expected view of one frame (TVFiles!FrameMismatch). -1 = not compared.
type FrameExp struct {
	X       int   `json:"x"`
	Y       int   `json:"y"`
	W       int   `json:"w"`
	H       int   `json:"h"`
	Dur     int   `json:"dur"`
	Dispose int   `json:"dispose"`
	NoBlend int   `json:"noblend"`
	Img     []int `json:"img"`
	Alph    []int `json:"alph"`
	FAlpha  int   `json:"falpha"`
}

// Expect is one expectation record of a trace line (TVFiles!Mismatch). -1 = not compared.
type Expect struct {
	Src     string     `json:"src"`
	W       int        `json:"w"`
	H       int        `json:"h"`
	Anim    int        `json:"anim"`
	Alpha   int        `json:"alpha"`  // 1: source has a non-opaque pixel (must be announced); 0: opaque lossy source (no ALPH)
	HAlpha  int        `json:"halpha"` // exact alpha feature as reported by a real parser
	Loop    int        `json:"loop"`
	Bg      []int      `json:"bg"`
	ICC     []int      `json:"icc"`
	EXIF    []int      `json:"exif"`
	XMP     []int      `json:"xmp"`
	NFrames int        `json:"nframes"`
	Frames  []FrameExp `json:"frames"`
}

// NewExpect returns an expectation that compares nothing.
func NewExpect(src string) Expect {
	return Expect{Src: src, W: -1, H: -1, Anim: -1, Alpha: -1, HAlpha: -1, Loop: -1, Bg: []int{},
		ICC: SkipB, EXIF: SkipB, XMP: SkipB, NFrames: -1, Frames: []FrameExp{}}
}

// NewFrameExp returns a frame expectation that compares nothing.
func NewFrameExp() FrameExp {
	return FrameExp{X: -1, Y: -1, W: -1, H: -1, Dur: -1, Dispose: -1, NoBlend: -1, Img: SkipB, Alph: SkipB, FAlpha: -1}
}

// FileCase is one line of trace.ndjson for TVFiles.
type FileCase struct {
	ID    string   `json:"id"`
	Must  string   `json:"must"` // "accept" | "reject"
	Bytes []int    `json:"bytes"`
	X     []Expect `json:"x"`
}

// Ints converts bytes to the JSON int array TLC reads.
func Ints(b []byte) []int {
	r := make([]int, len(b))
	for i, v := range b {
		r[i] = int(v)
	}
	return r
}

// MetaInts encodes an optional blob: nil => Absent.
func MetaInts(b []byte, present bool) []int {
	if !present {
		return Absent
	}
	return Ints(b)
}

// BadLine is one rejected trace line.
type BadLine struct {
	ID  string `json:"id"`
	Why string `json:"why"`
}

// NDJSON renders values one per line.
func NDJSON[T any](items []T) []byte {
	var buf bytes.Buffer
	enc := json.NewEncoder(&buf)
	for _, it := range items {
		if err := enc.Encode(it); err != nil {
			Fatal2("ndjson: %v", err)
		}
	}
	return buf.Bytes()
}

// Verdict decodes the VERDICT line of a batch trace validation; the run fails closed (exit 2) if it is missing.
func Verdict(res *TLCResult, want int, what string) []BadLine {
	vs := res.Tagged("VERDICT")
	if len(vs) != 1 {
		tail := res.Out
		if len(tail) > 3000 {
			tail = tail[len(tail)-3000:]
		}
		Fatal2("%s: expected exactly one VERDICT line, got %d\n%s", what, len(vs), tail)
	}
	var v struct {
		N   int       `json:"n"`
		Bad []BadLine `json:"bad"`
	}
	if err := json.Unmarshal(vs[0], &v); err != nil {
		Fatal2("%s: VERDICT line: %v", what, err)
	}
	if v.N != want {
		Fatal2("%s: VERDICT covers %d lines, trace has %d", what, v.N, want)
	}
	return v.Bad
}

// ValidateFiles runs the strict container reader (spec/TVFiles.tla) over the cases.
// It returns the rejected lines. Infrastructure failures exit 2.
func ValidateFiles(run *Run, cases []FileCase) map[string]string {
	bad := map[string]string{}
	if len(cases) == 0 {
		return bad
	}
	// batches keep the JSON parse and the TLC heap small and allow parallel JVMs
	const batch = 4000
	type out struct {
		bl  []BadLine
		res *TLCResult
	}
	n := (len(cases) + batch - 1) / batch
	ch := make(chan out, n)
	sem := make(chan struct{}, 6)
	for i := 0; i < n; i++ {
		lo, hi := i*batch, (i+1)*batch
		if hi > len(cases) {
			hi = len(cases)
		}
		go func(part []FileCase) {
			sem <- struct{}{}
			defer func() { <-sem }()
			res := MustTLC(TLCOpts{Module: "TVFiles", Cfg: "TVFiles.cfg", Workers: 1, Timeout: 20 * time.Minute,
				Files: map[string][]byte{"trace.ndjson": NDJSON(part)}})
			if res.InvViolated != "" {
				Fatal2("TVFiles: unexpected invariant violation %s", res.InvViolated)
			}
			ch <- out{Verdict(res, len(part), "TVFiles"), res}
		}(cases[lo:hi])
	}
	for i := 0; i < n; i++ {
		o := <-ch
		run.AddTLC(o.res)
		for _, b := range o.bl {
			bad[b.ID] = b.Why
		}
	}
	run.AddTraces(len(cases))
	return bad
}

// Sprintf shorthand used by drivers for ids.
func ID(format string, a ...any) string { return fmt.Sprintf(format, a...) }
