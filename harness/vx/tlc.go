// Package vx holds the plumbing shared by all checks: running TLC in a scratch
// directory, decoding what it prints, writing evidence files, known findings.
package vx

import (
	"bytes"
	"context"
	"encoding/json"
	"fmt"
	"os"
	"os/exec"
	"path/filepath"
	"regexp"
	"strconv"
	"strings"
	"time"
)

// SpecDir is where the TLA+ modules live.
var SpecDir = "/verif/spec"

// TLCOpts describes one TLC run.
type TLCOpts struct {
	Module   string            // module name (Module.tla must exist in SpecDir or Files)
	Cfg      string            // cfg file name in SpecDir, or content if it contains a newline
	Workers  int               // default 1
	Simulate string            // e.g. "num=100" -> -simulate num=100
	Depth    int               // -depth
	Seed     int64             // -seed (0 = none)
	Timeout  time.Duration     // outer timeout (default 10 min)
	Files    map[string][]byte // extra files placed in the scratch dir (traces, generated modules)
	Env      map[string]string // extra environment (IOEnv)
	Extra    []string          // extra TLC args
	Deadlock bool              // keep deadlock checking on (default off: -deadlock passed)
	DFS      bool              // use StateDeque (depth first queue)
	KeepDir  *string           // if non-nil, the scratch dir is not removed and its path stored here
	Heap     string            // e.g. "8g"
}

// TLCResult is what a run produced.
type TLCResult struct {
	Out         string
	Generated   int64
	Distinct    int64
	Depth       int
	Wall        time.Duration
	ExitCode    int
	TimedOut    bool
	InvViolated string // name of violated invariant/property, "" if none
	Deadlocked  bool
	ErrText     string            // first "Error:" block that is not an invariant violation
	Files       map[string][]byte // files TLC wrote into the scratch dir (only *.json / *.ndjson / *.out)
}

var (
	reStates  = regexp.MustCompile(`(\d+) states generated, (\d+) distinct states found`)
	reDepth   = regexp.MustCompile(`The depth of the complete state graph search is (\d+)`)
	reInv     = regexp.MustCompile(`Error: Invariant (\S+) is violated`)
	reProp    = regexp.MustCompile(`Error: (?:Temporal properties were violated|Action property (\S+) is violated)`)
	reSimStat = regexp.MustCompile(`The number of states generated: (\d+)`)
)

// RunTLC copies the spec directory into a fresh scratch directory, runs TLC there and parses the output.
func RunTLC(o TLCOpts) (*TLCResult, error) {
	if o.Workers <= 0 {
		o.Workers = 1
	}
	if o.Timeout == 0 {
		o.Timeout = 10 * time.Minute
	}
	dir, err := os.MkdirTemp("", "vx-tlc-")
	if err != nil {
		return nil, err
	}
	if o.KeepDir != nil {
		*o.KeepDir = dir
	} else {
		defer os.RemoveAll(dir)
	}
	ents, err := os.ReadDir(SpecDir)
	if err != nil {
		return nil, err
	}
	for _, e := range ents {
		if e.IsDir() {
			continue
		}
		n := e.Name()
		if !(strings.HasSuffix(n, ".tla") || strings.HasSuffix(n, ".cfg")) {
			continue
		}
		b, err := os.ReadFile(filepath.Join(SpecDir, n))
		if err != nil {
			return nil, err
		}
		if err := os.WriteFile(filepath.Join(dir, n), b, 0o644); err != nil {
			return nil, err
		}
	}
	for n, b := range o.Files {
		if err := os.WriteFile(filepath.Join(dir, n), b, 0o644); err != nil {
			return nil, err
		}
	}
	cfg := o.Cfg
	if strings.Contains(cfg, "\n") {
		cfg = "inline_" + o.Module + ".cfg"
		if err := os.WriteFile(filepath.Join(dir, cfg), []byte(o.Cfg), 0o644); err != nil {
			return nil, err
		}
	}
	args := []string{"-workers", strconv.Itoa(o.Workers), "-metadir", filepath.Join(dir, "meta"), "-config", cfg}
	if !o.Deadlock {
		args = append(args, "-deadlock")
	}
	if o.Simulate != "" {
		args = append(args, "-simulate", o.Simulate)
	}
	if o.Depth > 0 {
		args = append(args, "-depth", strconv.Itoa(o.Depth))
	}
	if o.Seed != 0 {
		args = append(args, "-seed", strconv.FormatInt(o.Seed, 10))
	}
	args = append(args, o.Extra...)
	args = append(args, o.Module)
	ctx, cancel := context.WithTimeout(context.Background(), o.Timeout)
	defer cancel()
	cmd := exec.CommandContext(ctx, "tlc", args...)
	cmd.Dir = dir
	jopts := "-Xss512m"
	if o.DFS {
		jopts += " -Dtlc2.tool.queue.IStateQueue=StateDeque"
	}
	if o.Heap != "" {
		jopts += " -Xmx" + o.Heap
	}
	env := os.Environ()
	env = append(env, "JAVA_TOOL_OPTIONS="+jopts)
	for k, v := range o.Env {
		env = append(env, k+"="+v)
	}
	cmd.Env = env
	var buf bytes.Buffer
	cmd.Stdout = &buf
	cmd.Stderr = &buf
	t0 := time.Now()
	runErr := cmd.Run()
	r := &TLCResult{Out: buf.String(), Wall: time.Since(t0), Files: map[string][]byte{}}
	if ctx.Err() == context.DeadlineExceeded {
		r.TimedOut = true
	}
	if ee, ok := runErr.(*exec.ExitError); ok {
		r.ExitCode = ee.ExitCode()
	} else if runErr != nil {
		return r, runErr
	}
	if ms := reStates.FindAllStringSubmatch(r.Out, -1); len(ms) > 0 {
		m := ms[len(ms)-1]
		r.Generated, _ = strconv.ParseInt(m[1], 10, 64)
		r.Distinct, _ = strconv.ParseInt(m[2], 10, 64)
	} else if m := reSimStat.FindStringSubmatch(r.Out); m != nil {
		r.Generated, _ = strconv.ParseInt(m[1], 10, 64)
		r.Distinct = r.Generated
	}
	if m := reDepth.FindStringSubmatch(r.Out); m != nil {
		r.Depth, _ = strconv.Atoi(m[1])
	}
	if m := reInv.FindStringSubmatch(r.Out); m != nil {
		r.InvViolated = m[1]
	} else if m := reProp.FindStringSubmatch(r.Out); m != nil {
		r.InvViolated = "temporal:" + m[1]
	}
	if strings.Contains(r.Out, "Error: Deadlock reached") {
		r.Deadlocked = true
	}
	if r.InvViolated == "" && !r.Deadlocked {
		if i := strings.Index(r.Out, "Error:"); i >= 0 {
			e := r.Out[i:]
			if len(e) > 1500 {
				e = e[:1500]
			}
			r.ErrText = e
		}
	}
	// collect small output files
	ents2, _ := os.ReadDir(dir)
	for _, e := range ents2 {
		n := e.Name()
		if strings.HasPrefix(n, "out_") {
			b, err := os.ReadFile(filepath.Join(dir, n))
			if err == nil {
				r.Files[n] = b
			}
		}
	}
	return r, nil
}

// OK reports whether the run completed without any error.
func (r *TLCResult) OK() bool {
	return !r.TimedOut && r.InvViolated == "" && !r.Deadlocked && r.ErrText == "" && r.ExitCode == 0
}

var reTagged = regexp.MustCompile(`<<\s*"([A-Z]+)",\s*("(?:[^"\\]|\\.)*")\s*>>`)

// Tagged extracts the JSON payloads of lines printed with PrintT(<<"TAG", ToJson(v)>>).
func (r *TLCResult) Tagged(tag string) []json.RawMessage {
	var out []json.RawMessage
	// TLC may wrap long tuples over several lines; join continuation whitespace.
	txt := r.Out
	for _, m := range reTagged.FindAllStringSubmatch(txt, -1) {
		if m[1] != tag {
			continue
		}
		s, err := strconv.Unquote(m[2])
		if err != nil {
			// TLC prints raw strings with \" and \\ escapes only; try a manual unescape.
			s = strings.ReplaceAll(m[2][1:len(m[2])-1], `\"`, `"`)
			s = strings.ReplaceAll(s, `\\`, `\`)
		}
		out = append(out, json.RawMessage(s))
	}
	return out
}

// Fatal2 prints a message and exits with status 2 (infrastructure problem, never a violation).
func Fatal2(format string, a ...any) {
	fmt.Fprintf(os.Stderr, "INFRA-ERROR: "+format+"\n", a...)
	os.Exit(2)
}

// MustTLC runs TLC and exits 2 if the run itself failed (crash, timeout, spec error).
// A violated invariant is returned to the caller.
func MustTLC(o TLCOpts) *TLCResult {
	r, err := RunTLC(o)
	if err != nil {
		Fatal2("tlc %s/%s: %v", o.Module, o.Cfg, err)
	}
	if r.TimedOut {
		Fatal2("tlc %s/%s timed out after %v", o.Module, cfgName(o), o.Timeout)
	}
	if r.ErrText != "" {
		Fatal2("tlc %s/%s failed:\n%s", o.Module, cfgName(o), r.ErrText)
	}
	if r.InvViolated == "" && !r.Deadlocked && r.ExitCode != 0 {
		tail := r.Out
		if len(tail) > 2000 {
			tail = tail[len(tail)-2000:]
		}
		Fatal2("tlc %s/%s exit %d:\n%s", o.Module, cfgName(o), r.ExitCode, tail)
	}
	return r
}

func cfgName(o TLCOpts) string {
	if strings.Contains(o.Cfg, "\n") {
		return "(inline cfg)"
	}
	return o.Cfg
}
