module github.com/deepteams/webp/verifx

go 1.24.2

require github.com/deepteams/webp v0.0.0

replace github.com/deepteams/webp => /repo
