#!/bin/sh
# usage: tools/trymutant.sh <patch.diff> <check id>... ; applies the patch to /repo, runs the quick checks, reverts.
# Prints one line per check: CAUGHT / MISSED / BROKEN(exit 2)
patch=$1; shift
cd /repo || exit 2
if ! git diff --quiet; then echo "repo dirty"; exit 2; fi
git apply "$patch" 2>/dev/null || patch -p1 -s -F3 --no-backup-if-mismatch < "$patch" || { echo "patch does not apply"; git checkout -- .; exit 2; }
go build ./... || { echo "mutant does not build"; git checkout -- .; exit 2; }
for id in "$@"; do
  out=$(cd /verif && VERIF_NO_EVIDENCE=1 bin/check "$id" ${TIER:-quick} 2>&1); rc=$?
  if [ $rc -eq 1 ]; then echo "CAUGHT $id: $(echo "$out" | grep -m1 '^DETAIL' | cut -c1-220)";
  elif [ $rc -eq 0 ]; then echo "MISSED $id";
  else echo "BROKEN $id rc=$rc: $(echo "$out" | tail -3 | cut -c1-300)"; fi
done
git checkout -- .
