#!/bin/sh
# usage: tools/trymutant.sh <patch.diff> <check id>...
# Applies the patch to a scratch worktree of /repo HEAD (never to /repo itself), runs the given checks against it
# (VERIF_REPO), and removes the worktree. Prints one line per check: CAUGHT / MISSED / BROKEN.
patch=$1; shift
wt=$(mktemp -d /tmp/mutwt.XXXXXX); rmdir "$wt"
git -C /repo worktree add -q --detach "$wt" HEAD || exit 2
cleanup() { git -C /repo worktree remove --force "$wt" >/dev/null 2>&1; rm -rf "$wt"; }
cd "$wt" || exit 2
git apply "$patch" 2>/dev/null || patch -p1 -s -F3 --no-backup-if-mismatch < "$patch" || { echo "patch does not apply"; cleanup; exit 2; }
GOFLAGS=-mod=mod GOPROXY=off go build ./... || { echo "mutant does not build"; cleanup; exit 2; }
for id in "$@"; do
  out=$(cd /verif && VERIF_REPO="$wt" VERIF_NO_EVIDENCE=1 bin/check "$id" ${TIER:-quick} 2>&1); rc=$?
  if [ $rc -eq 1 ]; then echo "CAUGHT $id: $(echo "$out" | grep -m1 '^DETAIL' | cut -c1-220)";
  elif [ $rc -eq 0 ]; then echo "MISSED $id";
  else echo "BROKEN $id rc=$rc: $(echo "$out" | tail -3 | cut -c1-300)"; fi
done
cleanup
