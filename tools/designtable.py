#!/usr/bin/env python3
"""Replaces the seeded-change table of DESIGN.md §12 by the rows of seeded/MATRIX.md (rebuilt by tools/seedmatrix.py)."""
import re, json, os
root = '/verif/seeded'
rows = []
ids = sorted((d for d in os.listdir(root) if re.fullmatch(r'C\d\d-m\d+', d)), key=lambda d: (d[:3], int(d[5:])))
for d in ids:
    mp = os.path.join(root, d, 'meta.json')
    if not os.path.exists(mp):
        continue
    m = json.load(open(mp))
    s = m.get('summary', '').replace('|', '/').replace('\n', ' ')
    s = s[:118] + ('…' if len(s) > 118 else '')
    rows.append('| %s | %s | %s |' % (d, s, ' '.join('%s:%s' % (k, v['result']) for k, v in m.get('checks_run', {}).items())))
p = '/verif/DESIGN.md'
s = open(p).read()
head = '| mutant | what it changes (beginning of the author\'s summary; full text in `seeded/<id>/meta.json`) | quick tier |\n|---|---|---|\n'
i = s.index(head)
j = s.index('\n\n', i)
s = s[:i] + head + '\n'.join(rows) + s[j:]
s = re.sub(r'Final matrix \(all \d+ seeded changes', 'Final matrix (all %d seeded changes' % len(rows), s)
open(p, 'w').write(s)
print(len(rows), 'rows')
