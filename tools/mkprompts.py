#!/usr/bin/env python3
"""usage: tools/mkprompts.py <round dir, e.g. /tmp/mut5> <first mutant number> <second mutant number>
Creates one scratch worktree of /repo HEAD per property under the round directory and writes the prompt each
independent sub-agent gets (property text + summaries of the earlier mutants of that property; nothing from /verif)."""
import json, os, subprocess, sys
rd, k1, k2 = sys.argv[1], int(sys.argv[2]), int(sys.argv[3])
os.makedirs(rd, exist_ok=True)
props = {}
for l in open('/verif/properties.jsonl'):
    p = json.loads(l); props[p['id']] = p
tmpl = '''You are helping to evaluate a verification framework by producing realistic, subtle breakages ("seeded defects") of a Go library. Work ONLY inside the git worktree {rd}/{pid} (a checkout of the Go module github.com/deepteams/webp — a pure-Go WebP encoder/decoder: VP8 lossy, VP8L lossless, alpha, animation, RIFF/VP8X mux/demux). Do not read or touch /verif or /repo, and do not commit anything.

The library is supposed to satisfy this semantic property:

-----
{pid} — {title}

Statement: {statement}

Quantified over: {quant}
-----

Your task: produce TWO different, independent source changes (mutants) to the library, each of which
  1. breaks the property above (on at least one input / history / schedule / configuration it quantifies over),
  2. still compiles (`go build ./...`) and still passes the ENTIRE existing test suite unchanged: run `cd {rd}/{pid} && go test -vet=off -count=1 $(go list ./... | grep -v /out/) 2>&1 | tail -30` (takes ~2 minutes) with your change applied and confirm every package is `ok` (run it twice if a failure looks order- or state-dependent: the suite must pass reliably),
  3. is realistic (the kind of slip a maintainer could make in a refactor or optimisation: an off-by-one, a wrong boundary, a missing reset, a swapped condition, a wrong constant in a rarely used branch, a stale cache, two sites that each look fine alone) — NOT an obviously malicious or random corruption,
  4. needs something SPECIFIC to manifest — a particular interleaving, a crash/fault at a particular point, a multi-step sequence of operations, an unusual input (size class, option combination, content class), or two cooperating sites — and is NOT exposed at once by ordinary use (e.g. must not break every encode/decode of a typical image),
  5. does not edit any *_test.go file, and the two mutants should touch different mechanisms (different functions/files if possible).

Earlier rounds already produced the following mutants for this property; yours must use DIFFERENT mechanisms (different functions, a different kind of slip, and if possible a different clause of the property statement or a different part of what it quantifies over). Look for the places nobody has touched yet:
{taken}

Note: the source tree contains a few guarded instrumentation call sites (package internal/verifhook, build tag `verif`, no-ops in the normal build). Leave them alone and do not base a mutant on them.

For each mutant k in {{{k1},{k2}}} (numbering continues from the earlier rounds) write these files (create the directory):
  {rd}/{pid}/out/m{{k}}/patch.diff   — `git diff -- . ':!out'` of the change relative to the clean worktree (only library source files; must apply with `git apply` to a clean checkout)
  {rd}/{pid}/out/m{{k}}/demo_test.go — a self-contained Go test file (package webp_test, or the package it must live in) that FAILS with the change applied and PASSES on the clean worktree. It must use only the module itself and the standard library. Give it a build tag line `//go:build mutdemo` so that a plain `go test ./...` ignores the copy under out/.
  {rd}/{pid}/out/m{{k}}/meta.json    — {{"property": "{pid}", "summary": "...what was changed and why it breaks the property...", "needs": "...what specific input/sequence/schedule/configuration is needed for it to manifest...", "demo_location": "path (relative to the module root) the demo must be copied to", "demo_cmd": "ONE shell command line, run from the module root, that copies out/mK/demo_test.go to that location, runs it with `go test -tags mutdemo -vet=off -count=1 -run <TestName> <pkg>`, removes the copy and exits non-zero iff the test failed; nothing else (no comments, no parentheses)", "tests_pass": true}}

Procedure: read the relevant code first; make the first mutant (m{k1}); run build + the full test suite; write and run the demo with the change; save the patch; then `git checkout -- .` (keep out/) and confirm the demo passes on the clean tree; repeat for the second mutant (m{k2}). Leave the worktree clean (no source modifications) at the end, with only the out/ directory added.

Environment: no network. Use `export GOFLAGS=-mod=mod GOPROXY=off` before go commands. Go 1.24 toolchain is selected automatically. 16 cores are shared with other jobs, so avoid running the full test suite more often than needed.

In your final answer, report for each mutant: the files changed, a two-line description, what it needs to manifest, and confirmation that (a) the full test suite passed with it, (b) the demo fails with it and passes without it. Keep the answer short.
'''
for i in range(1, 21):
    pid = "C%02d" % i
    pr = props[pid]
    taken = []
    for k in range(1, k1):
        for d in (f"/verif/seeded/{pid}-m{k}", f"/verif/seeded/rejected/{pid}-m{k}"):
            mp = d + "/agent_meta.json"
            if os.path.exists(mp):
                try:
                    taken.append("  - " + json.load(open(mp)).get('summary', '')[:380].replace('\n', ' '))
                except Exception:
                    pass
    txt = tmpl.format(rd=rd, pid=pid, k1=k1, k2=k2, title=pr['title'], statement=pr['statement'], quant=pr['quantifier']['text'], taken="\n".join(taken))
    open(f"{rd}/{pid}.prompt.txt", "w").write(txt)
    if not os.path.exists(f"{rd}/{pid}"):
        subprocess.run(['git', '-C', '/repo', 'worktree', 'add', '-q', '--detach', f"{rd}/{pid}", 'HEAD'], check=True)
print(len(os.listdir(rd)))
