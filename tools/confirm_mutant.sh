#!/bin/sh
# usage: tools/confirm_mutant.sh <agent worktree> <mK> <seeded id>
# Confirms in a fresh scratch worktree of /repo HEAD that the mutant compiles, passes the existing test suite,
# and that its demonstration fails with the change and passes without; then stores it as /verif/seeded/<id>/.
src=$1; mk=$2; id=$3
export GOFLAGS=-mod=mod GOPROXY=off
dst=/verif/seeded/$id
mkdir -p "$dst"
wt=$(mktemp -d /tmp/confirm.XXXXXX); rmdir "$wt"
git -C /repo worktree add -q --detach "$wt" HEAD || exit 2
log="$dst/confirm.log"; : > "$log"
cmd=$(python3 -c "import json,sys;print(json.load(open('$src/out/$mk/meta.json'))['demo_cmd'].split('   (')[0].split('  (equivalently')[0])")
mkdir -p "$wt/out"; cp -r "$src/out/$mk" "$wt/out/$mk"; [ -f "$src/out/go.mod" ] && cp "$src/out/go.mod" "$wt/out/go.mod"
cd "$wt"
echo "== demo on clean tree: $cmd" >> "$log"
( sh -c "$cmd" ) > "$dst/demo_clean.out" 2>&1; clean_rc=$?
grep -q -e '^FAIL' -e '--- FAIL' -e '^panic:' "$dst/demo_clean.out" && clean_rc=1
cat "$dst/demo_clean.out" >> "$log"
git checkout -q -- . 2>/dev/null; git clean -fdq --exclude=out >/dev/null 2>&1
if ! git apply "out/$mk/patch.diff" 2>>"$log" && ! patch -p1 -s -F3 --no-backup-if-mismatch < "out/$mk/patch.diff" >>"$log" 2>&1; then echo "RESULT patch-does-not-apply" >> "$log"; cd /; git -C /repo worktree remove --force "$wt"; exit 1; fi
go build ./... >> "$log" 2>&1; build_rc=$?
echo "== demo with mutant" >> "$log"
( sh -c "$cmd" ) > "$dst/demo_mutant.out" 2>&1; mut_rc=$?
grep -q -e '^FAIL' -e '--- FAIL' -e '^panic:' "$dst/demo_mutant.out" && mut_rc=1
cat "$dst/demo_mutant.out" >> "$log"
git clean -fdq --exclude=out >/dev/null 2>&1   # demo commands may leave their copied test files behind
echo "== test suite with mutant" >> "$log"
pk=$(go list ./... | grep -v '/out/')
go test -vet=off -count=1 $pk > "$dst/tests.log" 2>&1; test_rc=$?
grep -v '^ok' "$dst/tests.log" | head -20 >> "$log"
echo "RESULT build=$build_rc tests=$test_rc demo_clean=$clean_rc demo_mutant=$mut_rc" >> "$log"
cp "out/$mk/patch.diff" "$dst/patch.diff"; cp -r "out/$mk/." "$dst/demo_files/" 2>/dev/null || { mkdir -p "$dst/demo_files"; cp -r out/$mk/* "$dst/demo_files/"; }
cp "$src/out/$mk/meta.json" "$dst/agent_meta.json"
cd /; git -C /repo worktree remove --force "$wt"
tail -1 "$log"
