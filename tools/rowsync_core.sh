#!/bin/sh
# usage: tools/rowsync_core.sh
# Re-runs the design-level checks of spec/RowSyncCore.tla outside the harness (C10's thorough tier runs the same steps):
# TLC width 3 (IndInv, Quiet, liveness), TLC without signal's lock (must violate NoLostWakeup), Apalache inductive invariant.
d=$(mktemp -d /tmp/rowsync-core.XXXXXX); cp /verif/spec/RowSyncCore.tla /verif/spec/MC_RowSyncCore.tla /verif/spec/MC_RowSyncCore*.cfg "$d"/; cd "$d" || exit 2
timeout 1800 tlc -workers 8 -metadir "$d/m1" -config MC_RowSyncCore.cfg MC_RowSyncCore.tla 2>&1 | grep -e 'Error' -e 'states generated' -e 'No error'
timeout 600 tlc -workers 8 -metadir "$d/m2" -config MC_RowSyncCore_nolock.cfg MC_RowSyncCore.tla 2>&1 | grep -e 'is violated' | sed 's/^/expected (no lock): /'
for a in "ConstInit Init IndInv 0" "ConstInit IndInit IndInv 1" "ConstInit IndInit Quiet 0" "ConstInitNoLock IndInit IndInv 1"; do
  set -- $a
  r=$(timeout 600 apalache-mc check --out-dir="$d/out" --cinit=$1 --init=$2 --inv=$3 --length=$4 RowSyncCore.tla 2>&1 | grep EXITCODE)
  echo "apalache cinit=$1 init=$2 inv=$3 length=$4: $r"
done
cd /; rm -rf "$d"
