#!/bin/sh
# usage: tools/round2.sh <Cxx>...   — confirm and try the round-2 mutants (m3, m4) of the given properties
for p in "$@"; do for m in m3 m4; do
  id=$p-$m
  [ -f /tmp/mut2/$p/out/$m/patch.diff ] || { echo "$id: no patch"; continue; }
  [ -f /verif/seeded/$id/confirm.log ] || /verif/tools/confirm_mutant.sh /tmp/mut2/$p $m $id > /dev/null
  echo "$id confirm: $(tail -1 /verif/seeded/$id/confirm.log)"
  echo "$id $(/verif/tools/trymutant.sh /verif/seeded/$id/patch.diff $p | tr '\n' ' ' | cut -c1-400)"
done; done
