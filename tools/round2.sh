#!/bin/sh
# usage: MUTDIR=/tmp/mut3 MS="m5 m6" tools/round2.sh <Cxx>...
# Confirms (tools/confirm_mutant.sh) and tries (tools/trymutant.sh, own property's check) the mutants a sub-agent left
# in $MUTDIR/<Cxx>/out/<mK>; results go to stdout, the mutants to /verif/seeded/<Cxx>-<mK>/.
MUTDIR=${MUTDIR:-/tmp/mut2}; MS=${MS:-"m3 m4"}
for p in "$@"; do for m in $MS; do
  id=$p-$m
  [ -f $MUTDIR/$p/out/$m/patch.diff ] || { echo "$id: no patch"; continue; }
  [ -f /verif/seeded/$id/confirm.log ] || /verif/tools/confirm_mutant.sh $MUTDIR/$p $m $id > /dev/null
  echo "$id confirm: $(tail -1 /verif/seeded/$id/confirm.log)"
  echo "$id $(/verif/tools/trymutant.sh /verif/seeded/$id/patch.diff $p | tr '\n' ' ' | cut -c1-400)"
done; done
