#!/usr/bin/env python3
"""Runs every seeded mutant against the check of its own property (and the extra checks listed) in scratch worktrees,
and writes /verif/seeded/<id>/meta.json plus /verif/seeded/MATRIX.md. Never touches /repo's working tree."""
import json, os, subprocess, sys, re
root = '/verif/seeded'
extra = {'C15-m3': ['C10'], 'C10-m4': ['C12'], 'C15-m2': ['C14'], 'C16-m2': ['C14'], 'C05-m1': ['C03'], 'C02-m1': ['C07'], 'C17-m2': ['C11'], 'C04-m1': ['C11'], 'C18-m2': ['C08'], 'C08-m1': ['C18'], 'C08-m2': ['C18']}
only = sys.argv[1:]
rows = []
for d in sorted(os.listdir(root)):
    p = os.path.join(root, d)
    if not os.path.isdir(p) or not re.fullmatch(r'C\d\d-m\d+', d) or (only and d not in only):
        continue
    prop = d.split('-')[0]
    patch = os.path.join(p, 'patch.rebased.diff') if os.path.exists(os.path.join(p, 'patch.rebased.diff')) else os.path.join(p, 'patch.diff')
    checks = [prop] + extra.get(d, [])
    out = subprocess.run(['/verif/tools/trymutant.sh', patch] + checks, capture_output=True, text=True).stdout
    res = {}
    for line in out.splitlines():
        m = re.match(r'(CAUGHT|MISSED|BROKEN) (C\d+)(.*)', line)
        if m:
            res[m.group(2)] = {'result': m.group(1), 'detail': m.group(3).strip(': ')[:400]}
    am = json.load(open(os.path.join(p, 'agent_meta.json'))) if os.path.exists(os.path.join(p, 'agent_meta.json')) else {}
    confirm = open(os.path.join(p, 'confirm.log')).read().strip().splitlines()[-1] if os.path.exists(os.path.join(p, 'confirm.log')) else ''
    meta = {
        'id': d, 'property': prop,
        'summary': am.get('summary', ''), 'needs_to_manifest': am.get('needs', ''),
        'origin': 'written by an independent sub-agent that saw only the property text and a scratch worktree of /repo',
        'patch': os.path.basename(patch) + (' (rebased onto the tree with the verif hooks; original: patch.diff)' if patch.endswith('rebased.diff') else ''),
        'demonstration': am.get('demo_cmd', ''), 'demonstration_files': 'demo_files/',
        'confirmed': {'how': 'tools/confirm_mutant.sh in a fresh scratch worktree of /repo HEAD: go build, full test suite (excluding the demo), demo on the clean tree, demo with the patch', 'result': confirm},
        'checks_run': {k: v for k, v in res.items()},
    }
    json.dump(meta, open(os.path.join(p, 'meta.json'), 'w'), indent=1)
    rows.append((d, am.get('summary', '')[:110].replace('|', '/'), ' '.join('%s:%s' % (k, v['result']) for k, v in res.items())))
    print(d, res, flush=True)
# MATRIX.md is rebuilt from every meta.json (so partial re-runs keep it complete)
with open(os.path.join(root, 'MATRIX.md'), 'w') as f:
    f.write('| mutant | what it changes | quick-tier result |\n|---|---|---|\n')
    for d in sorted(os.listdir(root)):
        mp = os.path.join(root, d, 'meta.json')
        if not re.fullmatch(r'C\d\d-m\d+', d) or not os.path.exists(mp):
            continue
        m = json.load(open(mp))
        f.write('| %s | %s | %s |\n' % (d, m.get('summary', '')[:110].replace('|', '/').replace('\n', ' '), ' '.join('%s:%s' % (k, v['result']) for k, v in m.get('checks_run', {}).items())))
