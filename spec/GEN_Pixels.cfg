SPECIFICATION Spec
INVARIANTS ViewOK Emit
CHECK_DEADLOCK FALSE
