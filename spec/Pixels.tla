------------------------------- MODULE Pixels -------------------------------
(* Storage layouts of one abstract picture (C19).  A layout says how the w x h *)
(* picture sits in a parent buffer: origin of the view (Rect.Min), margins of   *)
(* the parent on the right/bottom, extra stride padding, and whether the image  *)
(* is handed over as the concrete type or through a generic image.Image.        *)
(* Offset(l, x, y) is the byte offset of pixel (x, y) in Pix - the arithmetic    *)
(* every fast path of Encode must implement; InView is the set of bytes that     *)
(* may influence the result.  TLC enumerates layouts x encoder configurations    *)
(* and checks that the views of one picture under any two layouts read the same  *)
(* pixels and never share a byte with the outside.                               *)
EXTENDS Integers, FiniteSets, TLC, Json

Sizes == {<<1, 1>>, <<15, 16>>, <<16, 15>>, <<17, 17>>, <<33, 9>>, <<2, 31>>}
Origins == {<<0, 0>>, <<1, 0>>, <<0, 1>>, <<3, 5>>}
Margins == {<<0, 0>>, <<2, 0>>, <<0, 3>>, <<2, 3>>}
Pads == {0, 4, 6, 13}          \* extra bytes at the end of every row: none, whole pixels, and not a whole number of pixels
Wrappers == {"concrete", "generic"}
Types == {"NRGBA", "RGBA"}

Layouts == [typ : Types, size : Sizes, org : Origins, mar : Margins, pad : Pads, wrap : Wrappers]
\* the generic wrapper hides the concrete type of whatever view it is given: its Bounds() start at org as well
WellFormed(l) == TRUE

ParentW(l) == l.org[1] + l.size[1] + l.mar[1]
ParentH(l) == l.org[2] + l.size[2] + l.mar[2]
Stride(l) == 4 * ParentW(l) + l.pad
\* the parent buffer's Rect.Min is (0,0); the view's bounds start at org
Offset(l, x, y) == (y + l.org[2]) * Stride(l) + (x + l.org[1]) * 4
InView(l) == UNION {{Offset(l, x, y) + c : c \in 0..3} : x \in 0..(l.size[1] - 1), y \in 0..(l.size[2] - 1)}
BufLen(l) == Stride(l) * ParentH(l)

Configs == [lossless : BOOLEAN, alpha : {"opaque", "binary", "graded"}, exact : BOOLEAN, sharp : BOOLEAN, dither : BOOLEAN]
ConfigOK(c) == (c.lossless => ~c.sharp /\ ~c.dither)

VARIABLES lay
Init == lay \in {l \in Layouts : WellFormed(l)}
Next == UNCHANGED lay
Spec == Init /\ [][Next]_lay

\* the view lies inside the buffer and has exactly 4*w*h bytes (no two pixels share a byte)
ViewOK == /\ \A o \in InView(lay) : o >= 0 /\ o < BufLen(lay)
          /\ Cardinality(InView(lay)) = 4 * lay.size[1] * lay.size[2]
Emit == PrintT(<<"CASE", ToJson([lay |-> lay, cfgs |-> {c \in Configs : ConfigOK(c)}, stride |-> Stride(lay), pw |-> ParentW(lay), ph |-> ParentH(lay),
                                 first |-> Offset(lay, 0, 0), last |-> Offset(lay, lay.size[1] - 1, lay.size[2] - 1) + 3])>>)
=============================================================================
