SPECIFICATION Spec
CONSTANTS
 CW = 4
 CH = 1
 MAXF = 4
 KMAX = 3
 PIXTOKS = {0, 1, 2, 3, 4}
 BLENDRULE = "transparency"
 DIRECTED = ""
 GEN = FALSE
INVARIANTS PlaybackExact RectOK
CHECK_DEADLOCK FALSE
