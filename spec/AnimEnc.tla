------------------------------ MODULE AnimEnc ------------------------------
(* The optimising animation encoder (C08, C18) : code-shaped model of         *)
(* animation.AnimEncoder.addOptimizedFrame / encodeSubFrame / encodeKeyframe  *)
(* over a CW x CH canvas of pixel tokens, checked against the contract        *)
(* "after every AddFrame, playing back the frames emitted so far (container   *)
(* semantics) shows the picture that was added".                              *)
(*                                                                            *)
(* Decisions that depend on compressed size in the code (which dispose        *)
(* candidate wins, whether the >90% key-frame fallback wins) are              *)
(* nondeterministic here: the contract must hold whichever is taken.          *)
(* BLENDRULE selects the blend step: "pinned" = the pinned tree (pixels equal  *)
(* to the canvas may be blended onto it as they are), "transparency" = the     *)
(* repaired encoder (libwebp's IncreaseTransparency: such pixels are made      *)
(* transparent in the sub-frame first), "exact" = a stricter blend test.       *)
EXTENDS Canvas, TLC, Json, SequencesExt

CONSTANTS CW, CH, MAXF, KMAX, PIXTOKS, BLENDRULE, GEN, DIRECTED

\* pixel tokens -> pixel values (the driver uses the same table)
PIX(t) == CASE t = 0 -> <<0, 0, 0, 0>>          \* transparent black
            [] t = 1 -> <<200, 100, 50, 255>>   \* opaque A
            [] t = 2 -> <<60, 60, 250, 255>>    \* opaque B
            [] t = 3 -> <<200, 100, 50, 128>>   \* semi-transparent
            [] t = 4 -> <<9, 8, 7, 0>>          \* transparent with colour
            [] t = 5 -> <<1, 250, 1, 77>>       \* semi-transparent B

Pos == (0..(CW - 1)) \X (0..(CH - 1))
Pictures == [Pos -> PIXTOKS]
Blank == [p \in Pos |-> Transparent]
Val(pic) == [p \in Pos |-> PIX(pic[p])]

VARIABLES nf, target, shown, prevRect, since, lastEmit, hist, ltok, marks
vars == <<nf, target, shown, prevRect, since, lastEmit, hist, ltok, marks>>
\* marks   : (generation only) decision-rich situations the history went through, for coverage-directed selection
\* target  : the picture the caller added last (AnimEncoder.prevCanvas), as pixel values
\* shown   : what the container semantics display after the frames emitted so far
\* prevRect: <<x0, y0, x1, y1>> (half open) of the last emitted frame (AnimEncoder.prevFrameRect)
\* since   : frames since the last key frame (countSinceKeyframe)

FullRect == <<0, 0, CW, CH>>
InR(p, r) == p[1] >= r[1] /\ p[1] < r[3] /\ p[2] >= r[2] /\ p[2] < r[4]

SamePix(a, c) == a = c \/ (a[4] = 0 /\ c[4] = 0)
SamePic(a, c) == \A p \in Pos : SamePix(a[p], c[p])

\* findChangedRect + snapToEven + clip (byte-wise comparison: transparent pixels of different colour differ)
Diff(a, c) == {p \in Pos : a[p] # c[p]}
MinS(S) == CHOOSE x \in S : \A y \in S : x <= y
MaxS(S) == CHOOSE x \in S : \A y \in S : x >= y
SubRect(a, c) ==
  LET d == Diff(a, c) IN
  IF d = {} THEN <<0, 0, 1, 1>>
  ELSE LET x0 == MinS({p[1] : p \in d}) y0 == MinS({p[2] : p \in d})
           x1 == MaxS({p[1] : p \in d}) + 1 y1 == MaxS({p[2] : p \in d}) + 1
       IN <<x0 - (x0 % 2), y0 - (y0 % 2), x1, y1>>

\* isLosslessBlendingPossible(prev canvas the frame is drawn on, target picture, rectangle)
BlendPossible(prev, cur, r) ==
  \A p \in Pos : InR(p, r) =>
     IF BLENDRULE = "exact" THEN cur[p][4] = 255 \/ (prev[p] = cur[p] /\ cur[p][4] = 0)
     ELSE cur[p][4] = 255 \/ prev[p] = cur[p]
\* increaseTransparency: what is put into a blended sub-frame
SubImage(base, cur, blend) ==
  IF blend /\ BLENDRULE = "transparency"
    THEN [p \in Pos |-> IF cur[p][4] # 255 /\ base[p] = cur[p] THEN Transparent ELSE cur[p]]
    ELSE cur

Composite(cv, r, pic, blend) ==
  [p \in Pos |-> IF InR(p, r) THEN (IF blend THEN Blend(pic[p], cv[p]) ELSE pic[p]) ELSE cv[p]]
DisposeBG(cv, r) == [p \in Pos |-> IF InR(p, r) THEN Transparent ELSE cv[p]]

Key(cur) == /\ shown' = cur /\ prevRect' = FullRect /\ since' = 0 /\ lastEmit' = "key"

\* situations in which the two dispose candidates of a sub-frame really differ: the DISPOSE_BACKGROUND candidate has a
\* proper sub-rectangle and (a) another blend mode than the DISPOSE_NONE candidate, (b) another rectangle, (c) a blended
\* sub-image in which an unchanged non-opaque pixel was made transparent
Marks(cur) ==
  IF nf = 0 \/ cur = target \/ since + 1 >= KMAX THEN {}
  ELSE LET rN == SubRect(target, cur)  bN == BlendPossible(target, cur, rN)
           dB == DisposeBG(target, prevRect)
           rB == SubRect(dB, cur)  bB == BlendPossible(dB, cur, rB)
       IN IF rB = FullRect THEN {}
          ELSE (IF bN # bB THEN {"blend-mode-differs"} ELSE {})
               \cup (IF rN # rB THEN {"rectangle-differs"} ELSE {})
               \cup (IF bB /\ SubImage(dB, cur, TRUE) # cur THEN {"transparency-increased"} ELSE {})
               \* the previous frame is a band (as wide as the canvas but not as high, or the other way round) and
               \* something outside it has to survive its disposal
               \cup (IF ((prevRect[3] - prevRect[1] = CW) # (prevRect[4] - prevRect[2] = CH))
                         /\ (\E p \in Pos : ~InR(p, prevRect) /\ target[p][4] # 0)
                     THEN {"dispose-after-band"} \cup
                          (IF (rB[3] - rB[1]) * (rB[4] - rB[2]) < (rN[3] - rN[1]) * (rN[4] - rN[2]) THEN {"dispose-wins-after-band"} ELSE {})
                     ELSE {})
AddFrame(tok) ==
  LET cur == Val(tok) IN
  /\ nf < MAXF
  /\ IF nf = 0 THEN Key(cur)
     ELSE IF cur = target THEN UNCHANGED <<shown, prevRect, since>> /\ lastEmit' = "merged"
     ELSE IF since + 1 >= KMAX THEN Key(cur)
     ELSE \E useBG \in BOOLEAN, fallbackKey \in BOOLEAN :
            \* the encoder diffs against its own idea of the canvas (prevCanvas = target), the player starts from `shown`
            LET encBase == IF useBG THEN DisposeBG(target, prevRect) ELSE target
                playBase == IF useBG THEN DisposeBG(shown, prevRect) ELSE shown
                r == SubRect(encBase, cur)
                blend == BlendPossible(encBase, cur, r)
                area == (r[3] - r[1]) * (r[4] - r[2])
            IN IF fallbackKey /\ 10 * area > 9 * CW * CH
                 THEN Key(cur)
                 ELSE /\ shown' = Composite(playBase, r, SubImage(encBase, cur, blend), blend)
                      /\ prevRect' = r /\ since' = since + 1
                      /\ lastEmit' = IF blend THEN "blend" ELSE "noblend"
  /\ target' = cur
  /\ marks' = IF GEN THEN marks \cup Marks(cur) ELSE marks
  /\ nf' = nf + 1
  /\ hist' = IF GEN THEN Append(hist, tok) ELSE hist
  /\ ltok' = IF GEN THEN tok ELSE ltok

Init == marks = {} /\ nf = 0 /\ target = Blank /\ shown = Blank /\ prevRect = FullRect /\ since = 0 /\ lastEmit = "none" /\ hist = <<>> /\ ltok = [p \in Pos |-> 0]
\* generation alphabet: the next picture is an edit of the previous one (nothing, one pixel, a filled
\* rectangle, everything) - the picture space itself is far too large to enumerate beyond tiny canvases
Rects == {r \in (0..(CW - 1)) \X (0..(CH - 1)) \X (1..CW) \X (1..CH) : r[1] < r[3] /\ r[2] < r[4]}
Edits(prev) ==
  {prev}
  \cup {[prev EXCEPT ![p] = t] : p \in Pos, t \in PIXTOKS}
  \cup {[p \in Pos |-> IF InR(p, r) THEN t ELSE prev[p]] : r \in Rects, t \in PIXTOKS}
  \cup {[p \in Pos |-> IF (p[1] + p[2]) % 2 = 0 THEN t ELSE u] : t \in PIXTOKS, u \in PIXTOKS}
Next == IF GEN THEN \E tok \in Edits(ltok) : AddFrame(tok) ELSE \E tok \in Pictures : AddFrame(tok)
Spec == Init /\ [][Next]_vars

\* the contract (C08)
PlaybackExact == nf > 0 => SamePic(shown, target)
\* the rectangle always lies in the canvas and has even offsets (container: offsets are stored halved)
RectOK == prevRect[1] % 2 = 0 /\ prevRect[2] % 2 = 0 /\ prevRect[1] >= 0 /\ prevRect[3] <= CW /\ prevRect[4] <= CH
          /\ prevRect[1] < prevRect[3] /\ prevRect[2] < prevRect[4]
Emit == (GEN /\ nf = MAXF /\ (DIRECTED = "" \/ DIRECTED \in marks)) => PrintT(<<"CASE", ToJson([cw |-> CW, ch |-> CH, marks |-> SetToSeq(marks), pics |-> [i \in 1..Len(hist) |-> [k \in 1..(CW * CH) |-> hist[i][<<(k - 1) % CW, (k - 1) \div CW>>]]]])>>)
=============================================================================
