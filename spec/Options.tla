------------------------------ MODULE Options ------------------------------
(* EncoderOptions as documented (C20): validity, sentinel resolution,         *)
(* lossy-only and no-effect fields - transcribed from the doc comments of     *)
(* EncoderOptions, not from validateConfig.  TLC enumerates every PAIR of     *)
(* fields over their boundary lists (all other fields at DefaultOptions()),    *)
(* and prints for each option set whether Encode must fail, and the resolved   *)
(* option set that must give byte-identical output.                            *)
(*                                                                             *)
(* Values are integers; special tokens:                                        *)
(*   float fields : 1000001 NaN, 1000002 +Inf, 1000003 -Inf, 1000004 100.0001, *)
(*                  1000005 1e30, 1000006 -0.0, 1000007 0.5, 1000008 99.99     *)
(*   int fields   : 2000000000 MaxInt, -2000000000 MinInt                      *)
EXTENDS Integers, Sequences, FiniteSets, TLC, Json

NaN == 1000001  PInf == 1000002  NInf == 1000003  Over100 == 1000004  Huge == 1000005
NegZero == 1000006  Half == 1000007  Near100 == 1000008
MaxI == 2000000000  MinI == -2000000000

Fields == {"Lossless", "Quality", "Method", "Preset", "UseSharpYUV", "Exact", "TargetSize", "TargetPSNR",
           "Preprocessing", "SNSStrength", "FilterStrength", "FilterSharpness", "FilterType", "Partitions",
           "Segments", "Pass", "EmulateJpegSize", "QMin", "QMax", "AlphaCompression", "AlphaFiltering", "AlphaQuality"}

Bool == {0, 1}
Default == [f \in Fields |->
  CASE f = "Quality" -> 75 [] f = "Method" -> 4
    [] f \in {"SNSStrength", "FilterStrength", "FilterType", "Segments", "Pass", "QMax",
              "AlphaCompression", "AlphaFiltering", "AlphaQuality"} -> -1
    [] OTHER -> 0]

Boundary(f) ==
  CASE f \in {"Lossless", "UseSharpYUV", "Exact", "EmulateJpegSize"} -> Bool
    [] f = "Quality" -> {-1, NegZero, 0, Half, 75, Near100, 100, Over100, 101, Huge, NaN, PInf, NInf}
    [] f = "Method" -> {MinI, -1, 0, 1, 4, 5, 6, 7, MaxI}
    [] f = "Preset" -> {-1, 0, 1, 4, 5, 6, MaxI}
    [] f = "TargetSize" -> {MinI, -1, 0, 1, 600, MaxI}
    [] f = "TargetPSNR" -> {-1, NegZero, 0, Half, 42, Huge, NaN, PInf, NInf}
    [] f = "Preprocessing" -> {MinI, -1, 0, 1, 2, 3, 4, MaxI}
    [] f \in {"SNSStrength", "FilterStrength", "AlphaQuality"} -> {MinI, -2, -1, 0, 1, 50, 99, 100, 101, MaxI}
    [] f = "FilterSharpness" -> {MinI, -1, 0, 1, 6, 7, 8, MaxI}
    [] f = "FilterType" -> {MinI, -1, 0, 1, 2, MaxI}
    [] f = "Partitions" -> {MinI, -1, 0, 1, 2, 3, 4, MaxI}
    [] f = "Segments" -> {MinI, -2, -1, 0, 1, 2, 3, 4, 5, MaxI}
    [] f = "Pass" -> {MinI, -1, 0, 1, 2, 10, 11, MaxI}
    [] f = "QMin" -> {MinI, -1, 0, 1, 50, 100, 101, MaxI}
    [] f = "QMax" -> {MinI, -2, -1, 0, 1, 49, 50, 100, 101, MaxI}
    [] f = "AlphaCompression" -> {MinI, -1, 0, 1, 2, MaxI}
    [] f = "AlphaFiltering" -> {MinI, -1, 0, 1, 2, 3, MaxI}

FiniteFloat(v) == v \notin {NaN, PInf, NInf}
\* numeric value class of a float token, enough for range tests
FloatIn0to100(v) == v \in {NegZero, Half, Near100} \/ (v >= 0 /\ v <= 100)
FloatNonNeg(v) == v \in {NegZero, Half, Near100, Over100, Huge} \/ (v >= 0 /\ v < 1000000)

\* the documented default a sentinel stands for
ResolveField(f, v) ==
  CASE f = "SNSStrength" /\ v < 0 -> 50
    [] f = "FilterStrength" /\ v < 0 -> 60
    [] f = "FilterType" /\ v < 0 -> 1
    [] f = "Segments" /\ v <= 0 -> 4
    [] f = "Pass" /\ v <= 0 -> 1
    [] f = "QMax" /\ v < 0 -> 100
    [] f = "AlphaCompression" /\ v < 0 -> 1
    [] f = "AlphaFiltering" /\ v < 0 -> 1
    [] f = "AlphaQuality" /\ v < 0 -> 100
    [] OTHER -> v
\* TargetPSNR is documented as used only "when set (and TargetSize is 0)": with a target size it stands for "disabled"
Resolve(o) ==
  LET r0 == [f \in Fields |-> ResolveField(f, o[f])]
  IN IF r0["TargetSize"] > 0 /\ FiniteFloat(r0["TargetPSNR"]) /\ FloatNonNeg(r0["TargetPSNR"]) THEN [r0 EXCEPT !["TargetPSNR"] = 0] ELSE r0

Valid(o) ==
  LET r == Resolve(o) IN
  /\ FiniteFloat(o["Quality"]) /\ FloatIn0to100(o["Quality"])
  /\ r["Method"] \in 0..6
  /\ r["Preset"] \in 0..5
  /\ r["TargetSize"] >= 0
  /\ FiniteFloat(o["TargetPSNR"]) /\ FloatNonNeg(o["TargetPSNR"])
  /\ r["Preprocessing"] \in 0..3
  /\ r["SNSStrength"] \in 0..100 /\ r["FilterStrength"] \in 0..100
  /\ r["FilterSharpness"] \in 0..7 /\ r["FilterType"] \in 0..1
  /\ r["Partitions"] \in 0..3 /\ r["Segments"] \in 1..4 /\ r["Pass"] \in 1..10
  /\ r["QMin"] \in 0..100 /\ r["QMax"] \in 0..100 /\ r["QMin"] <= r["QMax"]
  /\ r["AlphaCompression"] \in 0..1 /\ r["AlphaFiltering"] \in 0..2 /\ r["AlphaQuality"] \in 0..100

\* fields documented as lossy-only (must not change lossless output) / as having no effect
LossyOnly == {"Preprocessing", "AlphaCompression", "AlphaFiltering", "AlphaQuality"}
NoEffect == {"EmulateJpegSize"}

VARIABLES f1, f2, opt
vars == <<f1, f2, opt>>
Init == /\ f1 \in Fields /\ f2 \in Fields /\ f1 # f2
        /\ \E v1 \in Boundary(f1), v2 \in Boundary(f2) : opt = [Default EXCEPT ![f1] = v1, ![f2] = v2]
Next == UNCHANGED vars
Spec == Init /\ [][Next]_vars

\* design-level invariants of the contract itself
ResolveIdempotent == Resolve(Resolve(opt)) = Resolve(opt)
ValidStable == Valid(opt) <=> Valid(Resolve(opt))
Emit == PrintT(<<"CASE", ToJson([opt |-> opt, valid |-> Valid(opt), resolved |-> Resolve(opt)])>>)
=============================================================================
