SPECIFICATION Spec
CONSTANTS MAXN = 60
MAXW = 33
INVARIANT IsPartition
CHECK_DEADLOCK FALSE
