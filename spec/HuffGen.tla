------------------------------ MODULE HuffGen ------------------------------
(* Histogram shapes for the writer-side validation of prefix-code            *)
(* descriptions (C01).  The lossless encoder turns a symbol histogram into    *)
(* code lengths and writes their description with a run-length code: runs of  *)
(* zeros are coded 3..10 (code 17) or 11..138 (code 18) at a time, runs of an *)
(* equal non-zero length 3..6 at a time (code 16), and the description may    *)
(* stop early (max_symbol).  A shape is                                       *)
(*     head used symbols, a gap of unused symbols, a run of used symbols with *)
(*     equal counts, a second gap, a tail of used symbols with rising counts  *)
(* over one of the alphabets of the format.  TLC enumerates the shapes with   *)
(* gaps and runs on both sides of every boundary of the run-length code;      *)
(* the driver builds the histogram, runs the real CreateHuffmanTree /         *)
(* StoreHuffmanCode and writes every used symbol once; TVHuff reads it back.  *)
EXTENDS Integers, Sequences, TLC, Json
Alphabets == {40, 256, 280, 344}                \* distance, literal, green, green with a 6-bit cache
Gaps == {0, 1, 2, 3, 4, 9, 10, 11, 12, 137, 138, 139, 140, 149, 276, 277}
Runs == {1, 2, 3, 4, 6, 7, 8, 9, 10, 12, 13, 24, 70}
Tails == {0, 1, 5}
Heads == {1, 2}
VARIABLES a, head, gap1, run, gap2, tail
vars == <<a, head, gap1, run, gap2, tail>>
Fits == head + gap1 + run + gap2 + tail <= a
Init == /\ a \in Alphabets /\ head \in Heads /\ gap1 \in Gaps /\ run \in Runs /\ gap2 \in {0, 3, 11, 139} /\ tail \in Tails
        /\ Fits
Next == UNCHANGED vars
Spec == Init /\ [][Next]_vars
Emit == PrintT(<<"CASE", ToJson([a |-> a, head |-> head, gap1 |-> gap1, run |-> run, gap2 |-> gap2, tail |-> tail])>>)
=============================================================================
