SPECIFICATION Spec
CONSTANTS
  WIDTH = 3
  SIGLOCK = TRUE
  NeedDom <- MCNeedDom
INVARIANTS IndInv Quiet
PROPERTIES WaitReturns PubEnds
CHECK_DEADLOCK FALSE
