----------------------------- MODULE TVKernels -----------------------------
(* Trace validation of decoder kernels (C13): every line is one recorded call *)
(* [id, k, in, out] of a kernel reached through the dispatch table of one     *)
(* build (AVX2, SSE2 or portable Go):                                         *)
(*   k = "wht"  : inverse Walsh-Hadamard transform, in = 16 coefficients,     *)
(*                out = the 16 DC values it produced;                         *)
(*   k = "idct" : inverse DCT of one 4x4 block added to a flat prediction of  *)
(*                128, in = 16 coefficients, out = the 16 reconstructed       *)
(*                samples.                                                    *)
(* The operators of the format specification (Vp8!WHT, Vp8!IDCT) must give    *)
(* the recorded output: so two paths that agree with each other but are both  *)
(* wrong are caught as well.                                                  *)
EXTENDS Vp8, Json, IOUtils
Trace == ndJsonDeserialize("trace.ndjson")
VARIABLES l, bad
Expected(r) == IF r.k = "wht" THEN WHT(r.in)
               ELSE LET res == IDCT(r.in) IN [i \in 1..16 |-> Clip8(128 + res[i])]
Init == l = 1 /\ bad = <<>>
Next == /\ l <= Len(Trace)
        /\ bad' = IF Expected(Trace[l]) = Trace[l].out THEN bad
                  ELSE Append(bad, [id |-> Trace[l].id, why |-> Trace[l].k \o " output differs from the format's arithmetic"])
        /\ l' = l + 1
Spec == Init /\ [][Next]_<<l, bad>>
Verdict == l <= Len(Trace) \/ PrintT(<<"VERDICT", ToJson([n |-> Len(Trace), bad |-> bad])>>)
=============================================================================
