SPECIFICATION Spec
CONSTANTS
 CW = 2
 CH = 2
 MAXLEN = 5
 PIXVALS <- MC_PIXVALS_GEN
 OXS = {0, 1}
 OYS = {0, 1}
 WS = {1, 2, 3}
 HS = {1, 2, 3}
 ASSUME_WF = TRUE
 GEN = TRUE
 UNIFORM = FALSE
INVARIANTS ShortcutIsReference Emit
CHECK_DEADLOCK FALSE
