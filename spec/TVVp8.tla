------------------------------- MODULE TVVp8 -------------------------------
(* Trace validation of VP8 key frames written by the real encoder (C02, C06)  *)
(* or by other encoders (C04 fixtures).  Line: [id, bytes ("VP8 " payload),   *)
(* w, h, y, u, v : the planes webp.Decode returned (visible area),            *)
(* ry, ru, rv : the encoder's own reconstruction planes (or <<>>)].           *)
(*  - the independent reader accepts the stream, with the declared size and    *)
(*    without reading past a token partition;                                  *)
(*  - its planes after the loop filter equal the real decoder's;               *)
(*  - its planes BEFORE the loop filter equal the encoder's reconstruction     *)
(*    (no drift), when given.                                                  *)
EXTENDS Vp8, Json, IOUtils
Trace == ndJsonDeserialize("trace.ndjson")
VARIABLES l, cur, bad
vars == <<l, cur, bad>>

NDiff(a, c) == IF Len(a) # Len(c) THEN -1 ELSE Cardinality({i \in 1..Len(a) : a[i] # c[i]})
Judge(r, d) ==
  IF ~d.ok THEN "independent reader rejects the stream: " \o d.why
  ELSE IF d.w # r.w \/ d.h # r.h THEN "size in the frame header differs from the picture"
  ELSE IF ~d.inpart THEN "a token partition is read past its end"
  ELSE IF r.y # <<>> /\ (d.Y # r.y \/ d.U # r.u \/ d.V # r.v)
    THEN "decoded planes differ from the format's (Y " \o ToString(NDiff(d.Y, r.y)) \o " U " \o ToString(NDiff(d.U, r.u)) \o " V " \o ToString(NDiff(d.V, r.v)) \o " samples)"
  ELSE IF r.ry # <<>> /\ (d.PY # r.ry \/ d.PU # r.ru \/ d.PV # r.rv)
    THEN "unfiltered decoded planes differ from the encoder's reconstruction (Y " \o ToString(NDiff(d.PY, r.ry)) \o " U " \o ToString(NDiff(d.PU, r.ru)) \o " V " \o ToString(NDiff(d.PV, r.rv)) \o " samples)"
  ELSE ""

Init == l = 1 /\ cur = [ok |-> FALSE, why |-> "init"] /\ bad = <<>>
ParseLine == /\ l <= Len(Trace) /\ cur.why = "init"
             /\ cur' = DecodeVP8(Trace[l].bytes) /\ UNCHANGED <<l, bad>>
JudgeLine == /\ l <= Len(Trace) /\ cur.why # "init"
             /\ LET j == Judge(Trace[l], cur)
                IN bad' = IF j = "" THEN bad ELSE Append(bad, [id |-> Trace[l].id, why |-> j])
             /\ cur' = [ok |-> FALSE, why |-> "init"] /\ l' = l + 1
Next == ParseLine \/ JudgeLine
Spec == Init /\ [][Next]_vars
Verdict == l <= Len(Trace) \/ PrintT(<<"VERDICT", ToJson([n |-> Len(Trace), bad |-> bad])>>)
=============================================================================
