SPECIFICATION Spec
CONSTANTS
 CW = 4
 CH = 2
 MAXF = 5
 KMAX = 3
 PIXTOKS = {0, 1, 3, 4, 5}
 BLENDRULE = "transparency"
 DIRECTED = ""
 GEN = TRUE
INVARIANTS PlaybackExact RectOK Emit
CHECK_DEADLOCK FALSE
