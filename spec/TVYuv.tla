------------------------------- MODULE TVYuv -------------------------------
(* Trace validation of the lossy-with-alpha output path (C04): each line is   *)
(* [id, w, h, y, u, v (decoded planes), a (alpha plane), rgba (flat NRGBA     *)
(* pixels webp.Decode returned)]; the reference upsampler and YUV->RGB        *)
(* conversion applied to the planes must give exactly those pixels.           *)
EXTENDS Yuv, TLC, Json, IOUtils, FiniteSets
Trace == ndJsonDeserialize("trace.ndjson")
VARIABLES l, bad
Judge(r) ==
  LET e == ToNRGBA(r.y, r.u, r.v, r.a, r.w, r.h)
  IN IF Len(e) # Len(r.rgba) THEN "pixel count"
     ELSE LET wrong == {i \in 1..Len(e) : e[i] # r.rgba[i]}
          IN IF wrong = {} THEN ""
             ELSE LET i == CHOOSE i \in wrong : \A j \in wrong : i <= j
                  IN "sample " \o ToString(i - 1) \o " (pixel " \o ToString((i - 1) \div 4) \o " channel " \o ToString((i - 1) % 4) \o "): format defines " \o ToString(e[i]) \o ", decoder returned " \o ToString(r.rgba[i]) \o " (" \o ToString(Cardinality(wrong)) \o " samples differ)"
Init == l = 1 /\ bad = <<>>
Next == /\ l <= Len(Trace)
        /\ LET j == Judge(Trace[l]) IN bad' = IF j = "" THEN bad ELSE Append(bad, [id |-> Trace[l].id, why |-> j])
        /\ l' = l + 1
Spec == Init /\ [][Next]_<<l, bad>>
Verdict == l <= Len(Trace) \/ PrintT(<<"VERDICT", ToJson([n |-> Len(Trace), bad |-> bad])>>)
=============================================================================
