SPECIFICATION Spec
CONSTANTS
 CW = 2
 CH = 2
 MAXLEN = 2
 PIXVALS <- MC_PIXVALS
 OXS = {0, 1}
 OYS = {0, 1}
 WS = {1, 2, 3}
 HS = {1, 2}
 ASSUME_WF = TRUE
 GEN = FALSE
 UNIFORM = FALSE
INVARIANT ShortcutIsReference
CHECK_DEADLOCK FALSE
