----------------------------- MODULE TVAnimEnc -----------------------------
(* Trace validation of the animation ENCODER (C08, C18).                      *)
(* One trace line = one use of the real AnimEncoder:                          *)
(*   inputs  : the pictures that were added, [pix (row-major <<r,g,b,a>>), dur]*)
(*   frames  : the frame list found in the file it wrote (container fields    *)
(*             from the demuxer, pixels from the frame decoder), or, for a    *)
(*             file stored as a still, one full-canvas frame with dur = -1    *)
(*   cw, ch  : canvas given to NewEncoder;  fcw, fch : canvas in the file     *)
(*   loop_in : loop count given (already clamped as documented), loop_out     *)
(*   mode    : "exact" (lossless: every channel) | "alpha" (C18: alpha plane) *)
(* The SPEC plays the frame list with the container semantics (Canvas!Blend)  *)
(* and compares with the inputs: Canon(playback) = Canon(inputs) where Canon  *)
(* merges consecutive equal pictures and adds their display times.            *)
EXTENDS Canvas, SequencesExt, TLC, Json, IOUtils

Trace == ndJsonDeserialize("trace.ndjson")
VARIABLES l, bad
vars == <<l, bad>>

Cells(t) == [k \in 1..(t.cw * t.ch) |-> <<(k - 1) % t.cw, (k - 1) \div t.cw>>]

\* one playback step on a row-major canvas (sequence of pixels)
Draw(t, cv, f) ==
  [k \in 1..(t.cw * t.ch) |->
     LET x == (k - 1) % t.cw y == (k - 1) \div t.cw
     IN IF InRect(x, y, f.ox, f.oy, f.w, f.h)
          THEN LET s == f.pix[(y - f.oy) * f.w + (x - f.ox) + 1]
               IN IF f.blend = 1 THEN Blend(s, cv[k]) ELSE s
          ELSE cv[k]]
Disp(t, cv, f) ==
  [k \in 1..(t.cw * t.ch) |->
     IF f.dispose = 1 /\ InRect((k - 1) % t.cw, (k - 1) \div t.cw, f.ox, f.oy, f.w, f.h) THEN Transparent ELSE cv[k]]

\* playback: sequence of [pix, dur] shown, via a fold carrying the disposed canvas
Playback(t) ==
  LET step(acc, f) == LET shown == Draw(t, acc.cv, f)
                      IN [cv |-> Disp(t, shown, f), out |-> Append(acc.out, [pix |-> shown, dur |-> f.dur])]
  IN FoldLeft(step, [cv |-> [k \in 1..(t.cw * t.ch) |-> Transparent], out |-> <<>>], t.frames).out

SamePixE(a, c) == a = c \/ (a[4] = 0 /\ c[4] = 0)
SamePixA(a, c) == a[4] = c[4]
SamePic(mode, a, c) == \A k \in 1..Len(a) : IF mode = "alpha" THEN SamePixA(a[k], c[k]) ELSE SamePixE(a[k], c[k])

Canon(mode, s) ==
  FoldLeft(LAMBDA acc, e : IF acc # <<>> /\ SamePic(mode, acc[Len(acc)].pix, e.pix)
                              THEN [acc EXCEPT ![Len(acc)].dur = @ + e.dur]
                              ELSE Append(acc, e), <<>>, s)

Judge(t) ==
  IF t.fcw # t.cw \/ t.fch # t.ch THEN "canvas size not preserved"
  ELSE LET ci == Canon(t.mode, t.inputs)
           po == Playback(t)
           co == Canon(t.mode, po)
       IN IF \E f \in {t.frames[i] : i \in 1..Len(t.frames)} : f.ox + f.w > t.cw \/ f.oy + f.h > t.ch \/ f.ox < 0 \/ f.oy < 0
            THEN "frame outside the canvas"
          ELSE IF Len(ci) # Len(co) THEN "playback shows " \o ToString(Len(co)) \o " distinct pictures, " \o ToString(Len(ci)) \o " were added"
          ELSE LET wrong == {i \in 1..Len(ci) : ~SamePic(t.mode, ci[i].pix, co[i].pix)}
               IN IF wrong # {} THEN "picture " \o ToString(CHOOSE i \in wrong : \A j \in wrong : i <= j) \o " is not reproduced"
                  ELSE IF Len(ci) >= 2 /\ (\E i \in 1..Len(ci) : ci[i].dur # co[i].dur) THEN "display time of a picture not preserved"
                  ELSE IF Len(ci) >= 2 /\ t.loop_in # t.loop_out THEN "loop count not preserved"
                  ELSE ""

Init == l = 1 /\ bad = <<>>
Next == /\ l <= Len(Trace)
        /\ LET j == Judge(Trace[l])
           IN bad' = IF j = "" THEN bad ELSE Append(bad, [id |-> Trace[l].id, why |-> j])
        /\ l' = l + 1
Spec == Init /\ [][Next]_vars
Verdict == l <= Len(Trace) \/ PrintT(<<"VERDICT", ToJson([n |-> Len(Trace), bad |-> bad])>>)
=============================================================================
