SPECIFICATION Spec
CONSTANTS
 W = 3
 H = 3
 NW = 2
 WAITAHEAD = 1
 SIGLOCK = TRUE
INVARIANT Safe
PROPERTY Termination
