----------------------------- MODULE TVWorkers -----------------------------
(* Trace validation of the static work partitions at the GOMAXPROCS sites     *)
(* (C12).  Each line is one parallel section observed in the real code        *)
(* through the verif hook verifhook.Range:                                    *)
(*   [id, site, base, end, nw, ranges : <<lo, hi>>...]                        *)
(* worker k was handed the items lo..hi-1 of base..end-1.  Workers.tla proves *)
(* that the three arithmetic schemes are partitions for all n, w; this module *)
(* checks that what the code actually handed out IS a partition (every item   *)
(* to exactly one worker, nothing outside), whatever scheme the site uses.    *)
EXTENDS Integers, Sequences, TLC, Json, IOUtils
Trace == ndJsonDeserialize("trace.ndjson")
VARIABLES l, bad
Judge(r) ==
  LET ne == SelectSeq(r.ranges, LAMBDA x : x[1] < x[2])          \* workers that got at least one item
      s == SortSeq(ne, LAMBDA a, b : a[1] < b[1])
      n == Len(s)
  IN IF r.base >= r.end THEN (IF n = 0 THEN "" ELSE "items handed out of an empty item range")
     ELSE IF n = 0 THEN "no worker was handed any item"
     ELSE IF s[1][1] < r.base THEN "item " \o ToString(s[1][1]) \o " lies before the item range"
     ELSE IF s[1][1] > r.base THEN "items " \o ToString(r.base) \o ".." \o ToString(s[1][1] - 1) \o " are handed to no worker"
     ELSE LET brk == {i \in 1..(n - 1) : s[i + 1][1] # s[i][2]}
          IN IF brk # {} THEN
               LET i == CHOOSE i \in brk : \A j \in brk : i <= j
               IN IF s[i + 1][1] > s[i][2]
                  THEN "items " \o ToString(s[i][2]) \o ".." \o ToString(s[i + 1][1] - 1) \o " are handed to no worker"
                  ELSE "items " \o ToString(s[i + 1][1]) \o ".." \o ToString((IF s[i][2] < s[i + 1][2] THEN s[i][2] ELSE s[i + 1][2]) - 1) \o " are handed to two workers"
             ELSE IF s[n][2] < r.end THEN "items " \o ToString(s[n][2]) \o ".." \o ToString(r.end - 1) \o " are handed to no worker"
             ELSE IF s[n][2] > r.end THEN "item " \o ToString(s[n][2] - 1) \o " lies beyond the item range"
             ELSE ""
Init == l = 1 /\ bad = <<>>
Next == /\ l <= Len(Trace)
        /\ LET j == Judge(Trace[l]) IN bad' = IF j = "" THEN bad ELSE Append(bad, [id |-> Trace[l].id, why |-> Trace[l].site \o ": " \o j])
        /\ l' = l + 1
Spec == Init /\ [][Next]_<<l, bad>>
Verdict == l <= Len(Trace) \/ PrintT(<<"VERDICT", ToJson([n |-> Len(Trace), bad |-> bad])>>)
=============================================================================
