------------------------------ MODULE Vp8lGen ------------------------------
(* A VP8L WRITER explored by TLC (C03, binding direction spec -> code).        *)
(* Every image (main image and every transform's sub-image) is coded with      *)
(* "8-bit literal" prefix codes (a normal code whose 256 symbols all have      *)
(* length 8, described through a two-symbol code-length code; single-symbol    *)
(* simple code for distances), so any ARGB content and any transform data is   *)
(* expressible.  The state machine grows the transform list (Grow: append a    *)
(* transform of a type not yet used - predictor, cross-colour, subtract-green, *)
(* or a palette with 2 / 4 / 13 / 40 colours, i.e. 8x, 4x, 2x packing and no   *)
(* packing), then Write (the bit stream becomes a state variable), then Read   *)
(* (the reader spec decodes it; the expected pixels become a state variable).  *)
(* BFS therefore enumerates EVERY ordered list of distinct transforms.         *)
(* ReaderAccepts is the generation-time writer/reader consistency invariant;   *)
(* Emit prints one CASE per decoded state for replay on the real decoder.      *)
EXTENDS Vp8l, Json
CONSTANTS W, H, SEED, MAXT
VARIABLES ts, phase, vbytes, vpix
vars == <<ts, phase, vbytes, vpix>>

Rnd(k) == ((SEED * 7919 + k * 104729 + ((k * k) % 9973) * 31) % 65521) % 256
NumLSB(v, nb) == [i \in 1..nb |-> (v \div (2 ^ (i - 1))) % 2]          \* bit fields: LSB first
CodeMSB(v, nb) == [i \in 1..nb |-> (v \div (2 ^ (nb - i))) % 2]        \* prefix codes: MSB first
Cat(ss) == FoldLeft(LAMBDA acc, x : acc \o x, <<>>, ss)
\* a normal prefix-code description: `nlit` symbols of length 8 followed by `nzero` unused symbols
\* code-length code: symbols 0 and 8 with length 1 (order index 2 and 11 => 12 entries)
NormalCode8(nlit, nzero) ==
  <<0>> \o NumLSB(8, 4) \o Cat([i \in 1..12 |-> NumLSB(IF i = 3 \/ i = 12 THEN 1 ELSE 0, 3)]) \o <<0>>
  \o [i \in 1..nlit |-> 1] \o [i \in 1..nzero |-> 0]
SimpleOne0 == <<1, 0, 0, 0>>                                          \* simple code, one symbol, value 0
Codes == NormalCode8(256, 24) \o NormalCode8(256, 0) \o NormalCode8(256, 0) \o NormalCode8(256, 0) \o SimpleOne0
PixBits(px) == CodeMSB(px[3], 8) \o CodeMSB(px[2], 8) \o CodeMSB(px[4], 8) \o CodeMSB(px[1], 8)   \* green, red, blue, alpha
\* image stream: [no cache] [no meta, main only] codes pixels
WImage(pix, isMain) == <<0>> \o (IF isMain THEN <<0>> ELSE <<>>) \o Codes \o Cat([i \in 1..Len(pix) |-> PixBits(pix[i])])

RndPix(base, cnt) == [i \in 1..cnt |-> <<Rnd(base + 4 * i), Rnd(base + 4 * i + 1), Rnd(base + 4 * i + 2), Rnd(base + 4 * i + 3)>>]
\* transform list tl: sequence of [type, bits, nc]; returns bits of all transforms and the final working width
WTransforms(tl, w, h) ==
  FoldLeft(LAMBDA st, j :
     LET t == tl[j] IN
     IF t.type \in {0, 1}
     THEN LET sw == CeilDiv(st.xs, t.bits)  sh == CeilDiv(h, t.bits)
              data == IF t.type = 0 THEN [i \in 1..(sw * sh) |-> <<255, 0, Rnd(1000 * j + i) % 14, 0>>]
                      ELSE RndPix(2000 * j, sw * sh)
          IN [xs |-> st.xs, bits |-> st.bits \o <<1>> \o NumLSB(t.type, 2) \o NumLSB(t.bits - 2, 3) \o WImage(data, FALSE)]
     ELSE IF t.type = 2 THEN [xs |-> st.xs, bits |-> st.bits \o <<1>> \o NumLSB(2, 2)]
     ELSE LET xb == IF t.nc > 16 THEN 0 ELSE IF t.nc > 4 THEN 1 ELSE IF t.nc > 2 THEN 2 ELSE 3
          IN [xs |-> CeilDiv(st.xs, xb),
              bits |-> st.bits \o <<1>> \o NumLSB(3, 2) \o NumLSB(t.nc - 1, 8) \o WImage(RndPix(3000 * j, t.nc), FALSE)],
     [xs |-> w, bits |-> <<>>], [j \in 1..Len(tl) |-> j])
ToBytes(bits) == LET nb == (Len(bits) + 7) \div 8 IN
  [k \in 1..nb |-> FoldLeft(LAMBDA acc, i : acc + (IF 8 * (k - 1) + i <= Len(bits) THEN bits[8 * (k - 1) + i] ELSE 0) * (2 ^ (i - 1)), 0, <<1,2,3,4,5,6,7,8>>)]
Stream(tl, w, h) ==
  LET tr == WTransforms(tl, w, h)
      hasPal == \E j \in 1..Len(tl) : tl[j].type = 3
      main == RndPix(9000, tr.xs * h)
  IN ToBytes(NumLSB(47, 8) \o NumLSB(w - 1, 14) \o NumLSB(h - 1, 14) \o <<1>> \o NumLSB(0, 3)
             \o tr.bits \o <<0>> \o WImage(main, TRUE))


TChoices == {[type |-> 0, bits |-> 2, nc |-> 0], [type |-> 1, bits |-> 2, nc |-> 0], [type |-> 2, bits |-> 0, nc |-> 0],
            [type |-> 3, bits |-> 0, nc |-> 2], [type |-> 3, bits |-> 0, nc |-> 4], [type |-> 3, bits |-> 0, nc |-> 13], [type |-> 3, bits |-> 0, nc |-> 40]}
Init == ts = <<>> /\ phase = "grow" /\ vbytes = <<>> /\ vpix = <<>>
Grow == /\ phase = "grow" /\ Len(ts) < MAXT
        /\ \E c \in TChoices : /\ \A j \in 1..Len(ts) : ts[j].type # c.type
                               /\ ts' = Append(ts, c)
        /\ UNCHANGED <<phase, vbytes, vpix>>
Write == /\ phase = "grow"
         /\ vbytes' = Stream(ts, W, H) /\ phase' = "written" /\ UNCHANGED <<ts, vpix>>
Read == /\ phase = "written"
        /\ LET d == DecodeVP8L(vbytes) IN vpix' = IF d.ok /\ d.w = W /\ d.h = H THEN d.pix ELSE <<"REJECT">>
        /\ phase' = "decoded" /\ UNCHANGED <<ts, vbytes>>
Next == Grow \/ Write \/ Read
Spec == Init /\ [][Next]_vars
\* generation-time invariant: the reader accepts what the writer wrote
ReaderAccepts == phase = "decoded" => vpix # <<"REJECT">>
Emit == phase = "decoded" =>
          PrintT(<<"CASE", ToJson([ts |-> [j \in 1..Len(ts) |-> <<ts[j].type, ts[j].nc>>], w |-> W, h |-> H, bytes |-> vbytes,
                                   pix |-> FoldLeft(LAMBDA acc, p : acc \o p, <<>>, vpix)])>>)
=============================================================================
