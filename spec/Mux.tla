-------------------------------- MODULE Mux --------------------------------
(* The Muxer API as a state machine over call histories (C14, C15).          *)
(* State = what a history of setter calls has accumulated; Assemble projects *)
(* it to the container the file must hold (Expected) or to "must be an       *)
(* error" when the state is not representable as a WebP container.           *)
(* TLC enumerates histories (BFS, or -simulate for long ones); every         *)
(* Assemble step prints one CASE line (history + expected projection) that   *)
(* the Go driver replays on the real mux.Muxer; the bytes the real Muxer     *)
(* writes are then validated by the strict reader (TVFiles).                 *)
EXTENDS Integers, Sequences, SequencesExt, FiniteSets, TLC, Json

CONSTANTS MAXLEN,     \* maximal number of calls before the final Assemble
          FULL        \* TRUE: full alphabet, FALSE: reduced alphabet

(* payload tokens: the driver binds each to a real bitstream of that shape *)
Payloads == 1..5
PW(t) == CASE t = 1 -> 4 [] t = 2 -> 4 [] t = 3 -> 6 [] t = 4 -> 4 [] t = 5 -> 3
PH(t) == CASE t = 1 -> 4 [] t = 2 -> 4 [] t = 3 -> 2 [] t = 4 -> 4 [] t = 5 -> 5
PAlph(t)     == t \in {4, 5}          \* ALPH-prefixed VP8
PLossless(t) == t \in {2, 3}
PAlphaBit(t) == t = 3                 \* VP8L alpha_is_used
PAlpha(t)    == PAlph(t) \/ PAlphaBit(t)

MAXDUR == 16777215
MAXCANVAS == 16777216

(* frame option kinds: [dur, x, y, noblend, dispose]; kind 0 = nil options *)
OptKinds == IF FULL THEN 0..7 ELSE {0, 1, 2}
Opt(k) == CASE k = 0 -> [dur |-> 0, x |-> 0, y |-> 0, noblend |-> 0, dispose |-> 0]
            [] k = 1 -> [dur |-> 1, x |-> 0, y |-> 0, noblend |-> 0, dispose |-> 0]
            [] k = 2 -> [dur |-> 70001, x |-> 2, y |-> 2, noblend |-> 1, dispose |-> 1]   \* duration uses all 3 bytes
            [] k = 3 -> [dur |-> 16777221, x |-> 3, y |-> 1, noblend |-> 0, dispose |-> 1]
            [] k = 4 -> [dur |-> -5, x |-> 0, y |-> 0, noblend |-> 1, dispose |-> 0]
            [] k = 5 -> [dur |-> 0, x |-> 0, y |-> 0, noblend |-> 1, dispose |-> 1]
            [] k = 6 -> [dur |-> 258, x |-> 131588, y |-> 2, noblend |-> 0, dispose |-> 0]  \* offset fields use all 3 bytes
            [] k = 7 -> [dur |-> 3, x |-> 0, y |-> 197640, noblend |-> 1, dispose |-> 0]
Clamp(d) == IF d < 0 THEN 0 ELSE IF d > MAXDUR THEN MAXDUR ELSE d

Blobs == 0..3            \* 0 nil, 1 empty non-nil, 2 one byte, 3 two bytes
\* canvases whose 24-bit fields use their top byte are included in both alphabets; areas stay below the
\* documented 2^30-pixel cap of the decoding side (larger canvases are legal containers the package refuses to read)
Canvases == IF FULL THEN {<<0, 0>>, <<8, 8>>, <<4, 4>>, <<3, 3>>, <<16777217, 5>>, <<6, 0>>, <<8, 70001>>, <<197637, 515>>}
            ELSE {<<8, 8>>, <<3, 3>>, <<8, 70001>>, <<66000, 258>>}
Loops == IF FULL THEN {-1, 0, 3, 258, 65535, 65536} ELSE {258, 65536}
ClampLoop(n) == IF n < 0 THEN 0 ELSE IF n > 65535 THEN 65535 ELSE n
Bgs == {1, 2}            \* tokens for two ARGB colours (0x11223344, 0xFFFFFFFF)

VARIABLES frames, icc, exif, xmp, bg, loop, cw, ch, hist, nasm
vars == <<frames, icc, exif, xmp, bg, loop, cw, ch, hist, nasm>>

Init == /\ frames = <<>> /\ icc = 0 /\ exif = 0 /\ xmp = 0 /\ bg = 0 /\ loop = 0
        /\ cw = 0 /\ ch = 0 /\ hist = <<>> /\ nasm = 0

Call(op, a, b, c) == [op |-> op, a |-> a, b |-> b, c |-> c]
Log(cl) == hist' = Append(hist, cl)

AddFrame(t, k) ==
  /\ frames' = Append(frames, [tok |-> t, dur |-> Clamp(Opt(k).dur), x |-> Opt(k).x, y |-> Opt(k).y,
                               noblend |-> Opt(k).noblend, dispose |-> Opt(k).dispose])
  /\ Log(Call("AddFrame", t, k, 0))
  /\ UNCHANGED <<icc, exif, xmp, bg, loop, cw, ch, nasm>>

SetDispose(i, m) ==
  /\ frames' = IF i + 1 \in DOMAIN frames THEN [frames EXCEPT ![i + 1].dispose = m] ELSE frames
  /\ Log(Call("SetFrameDisposeMode", i, m, 0))
  /\ UNCHANGED <<icc, exif, xmp, bg, loop, cw, ch, nasm>>

SetDuration(i, d) ==
  /\ frames' = IF i + 1 \in DOMAIN frames THEN [frames EXCEPT ![i + 1].dur = Clamp(d)] ELSE frames
  /\ Log(Call("SetFrameDuration", i, d, 0))
  /\ UNCHANGED <<icc, exif, xmp, bg, loop, cw, ch, nasm>>

SetCanvas(w, h) ==
  /\ cw' = IF w > MAXCANVAS THEN MAXCANVAS ELSE w
  /\ ch' = IF h > MAXCANVAS THEN MAXCANVAS ELSE h
  /\ Log(Call("SetCanvasSize", w, h, 0))
  /\ UNCHANGED <<frames, icc, exif, xmp, bg, loop, nasm>>

SetLoop(n) == /\ loop' = ClampLoop(n) /\ Log(Call("SetLoopCount", n, 0, 0))
              /\ UNCHANGED <<frames, icc, exif, xmp, bg, cw, ch, nasm>>
SetBg(c)   == /\ bg' = c /\ Log(Call("SetBackgroundColor", c, 0, 0))
              /\ UNCHANGED <<frames, icc, exif, xmp, loop, cw, ch, nasm>>
\* which: 1 ICC, 2 EXIF, 3 XMP; via: 0 = Set*, 1 = AddChunk
SetMeta(which, b, via) ==
  /\ icc'  = IF which = 1 THEN b ELSE icc
  /\ exif' = IF which = 2 THEN b ELSE exif
  /\ xmp'  = IF which = 3 THEN b ELSE xmp
  /\ Log(Call(IF via = 0 THEN "SetMeta" ELSE "AddChunk", which, b, 0))
  /\ UNCHANGED <<frames, bg, loop, cw, ch, nasm>>

(* ---------------- the contract: what Assemble must produce ---------------- *)
Animated == Len(frames) > 1 \/ \E i \in DOMAIN frames : frames[i].dur > 0
MaxOf(S) == IF S = {} THEN 0 ELSE CHOOSE m \in S : \A o \in S : o <= m
Canvas == IF cw > 0 /\ ch > 0 THEN <<cw, ch>>
          ELSE <<MaxOf({frames[i].x + PW(frames[i].tok) : i \in DOMAIN frames}),
                 MaxOf({frames[i].y + PH(frames[i].tok) : i \in DOMAIN frames})>>
FramesFit == \A i \in DOMAIN frames : /\ frames[i].x + PW(frames[i].tok) <= Canvas[1]
                                      /\ frames[i].y + PH(frames[i].tok) <= Canvas[2]
\* a still has no place for an offset or a canvas other than the picture
StillOK == Animated \/ (Canvas = <<PW(frames[1].tok), PH(frames[1].tok)>> /\ frames[1].x = 0 /\ frames[1].y = 0)
Representable == Len(frames) >= 1 /\ FramesFit /\ StillOK

\* the decoding side documents a cap of 2^30 canvas pixels; beyond it the contract says nothing
AreaOK == Canvas[2] = 0 \/ Canvas[1] <= 1073741823 \div Canvas[2]
Expected ==
  IF Len(frames) >= 1 /\ ~AreaOK THEN [err |-> TRUE, reason |-> "skip: canvas beyond the documented 2^30-pixel cap"]
  ELSE IF ~Representable THEN [err |-> TRUE,
                          reason |-> IF Len(frames) = 0 THEN "no frames"
                                     ELSE IF ~FramesFit THEN "frame outside the canvas"
                                     ELSE IF frames[1].x # 0 \/ frames[1].y # 0 THEN "still with a frame offset"
                                     ELSE "still whose canvas differs from the picture"]
  ELSE [err |-> FALSE, reason |-> "", anim |-> Animated, cw |-> Canvas[1], ch |-> Canvas[2],
        loop |-> loop, bg |-> bg, icc |-> icc, exif |-> exif, xmp |-> xmp,
        alpha |-> \E i \in DOMAIN frames : PAlpha(frames[i].tok),
        frames |-> [i \in DOMAIN frames |->
                      [tok |-> frames[i].tok,
                       x |-> IF Animated THEN 2 * (frames[i].x \div 2) ELSE 0,
                       y |-> IF Animated THEN 2 * (frames[i].y \div 2) ELSE 0,
                       dur |-> IF Animated THEN frames[i].dur ELSE 0,
                       noblend |-> IF Animated THEN frames[i].noblend ELSE 0,
                       dispose |-> IF Animated THEN frames[i].dispose ELSE 0]]]

Assemble ==
  /\ nasm' = nasm + 1
  /\ Log(Call("Assemble", 0, 0, 0))
  /\ PrintT(<<"CASE", ToJson([hist |-> Append(hist, Call("Assemble", 0, 0, 0)), expect |-> Expected])>>)
  /\ UNCHANGED <<frames, icc, exif, xmp, bg, loop, cw, ch>>

Idx == IF FULL THEN {0, 1, 5} ELSE {0, 1}
Setter ==
  \/ \E t \in Payloads, k \in OptKinds : AddFrame(t, k)
  \/ \E i \in Idx, m \in {0, 1} : SetDispose(i, m)
  \/ \E i \in Idx, d \in (IF FULL THEN {0, 7, 16777216} ELSE {0, 7}) : SetDuration(i, d)
  \/ \E c \in Canvases : SetCanvas(c[1], c[2])
  \/ \E n \in Loops : SetLoop(n)
  \/ \E c \in Bgs : SetBg(c)
  \/ \E w \in 1..3, b \in Blobs, via \in {0, 1} : SetMeta(w, b, via)

LastIsAsm == IF Len(hist) = 0 THEN FALSE ELSE hist[Len(hist)].op = "Assemble"
\* a history is: setters (at most MAXLEN), Assemble allowed at any point, at most two Assembles
Next == \/ (Len(hist) - nasm < MAXLEN /\ nasm < 2 /\ Setter)
        \/ (nasm < 2 /\ ~LastIsAsm /\ Assemble)
Spec == Init /\ [][Next]_vars

(* design-level invariants of the contract itself *)
TypeOK == /\ \A i \in DOMAIN frames : frames[i].dur \in 0..MAXDUR
          /\ loop \in 0..65535 /\ cw \in 0..MAXCANVAS /\ ch \in 0..MAXCANVAS
\* what is representable always fits the container's field widths
FieldsFit == Representable =>
               /\ Canvas[1] <= MAXCANVAS /\ Canvas[2] <= MAXCANVAS
               /\ \A i \in DOMAIN frames : frames[i].x \div 2 < MAXCANVAS /\ frames[i].dur <= MAXDUR
=============================================================================
