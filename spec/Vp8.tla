-------------------------------- MODULE Vp8 --------------------------------
(* The VP8 key-frame bitstream as a READER, written from RFC 6386: boolean    *)
(* decoder, frame tag and picture header, segment / filter / quantiser        *)
(* headers, 1-8 token partitions, coefficient probability updates, skip flag, *)
(* intra-mode trees with top/left contexts, the coefficient token reader with *)
(* band/context switching and all DCT_CAT extra-bit tables, per-segment       *)
(* dequantisation, inverse WHT and DCT, all 16x16 / chroma / 4x4 predictors   *)
(* with the 127/129 border conventions and top-right replication, and both    *)
(* loop filters with sharpness, segment strengths and lf-deltas.              *)
(* It is the independent decoder for C02, C04, C06 (pre-filter planes) and    *)
(* C13.  Planes are row-major sequences of samples.  All loops are folds.     *)
EXTENDS Integers, Sequences, SequencesExt, TLC, FiniteSets, Vp8Tables
Clip8(v) == IF v < 0 THEN 0 ELSE IF v > 255 THEN 255 ELSE v
ClampI(v, lo, hi) == IF v < lo THEN lo ELSE IF v > hi THEN hi ELSE v
Abs(v) == IF v < 0 THEN -v ELSE v
Rep(n, v) == [i \in 1..n |-> v]

\* ---------------- boolean decoder (RFC 6386 section 7) ----------------
\* a partition is [off, len] into the byte sequence b; reads beyond the end yield zero bytes
PByte(b, pt, i) == IF i < pt.len THEN b[pt.off + i + 1] ELSE 0
BInit(b, pt) == [v |-> PByte(b, pt, 0) * 256 + PByte(b, pt, 1), r |-> 255, bc |-> 0, pos |-> 2]
GB(b, pt, d, prob) ==
  LET split == 1 + (((d.r - 1) * prob) \div 256)
      S == split * 256
      bit == IF d.v >= S THEN 1 ELSE 0
      Norm(st, k) ==
        IF st.r >= 128 THEN st
        ELSE IF st.bc = 7 THEN [v |-> st.v * 2 + PByte(b, pt, st.pos), r |-> st.r * 2, bc |-> 0, pos |-> st.pos + 1]
        ELSE [v |-> st.v * 2, r |-> st.r * 2, bc |-> st.bc + 1, pos |-> st.pos]
  IN [bit |-> bit,
      d |-> FoldLeft(Norm, [v |-> IF bit = 1 THEN d.v - S ELSE d.v, r |-> IF bit = 1 THEN d.r - split ELSE split,
                            bc |-> d.bc, pos |-> d.pos], <<1,2,3,4,5,6,7>>)]
Lit(b, pt, d, n) ==
  FoldLeft(LAMBDA st, k : LET g == GB(b, pt, st.d, 128) IN [v |-> st.v * 2 + g.bit, d |-> g.d],
           [v |-> 0, d |-> d], [k \in 1..n |-> k])
SLit(b, pt, d, n) == LET m == Lit(b, pt, d, n)  s == GB(b, pt, m.d, 128)
                     IN [v |-> IF s.bit = 1 THEN -m.v ELSE m.v, d |-> s.d]
OptSLit(b, pt, d, n) == LET f == GB(b, pt, d, 128) IN IF f.bit = 1 THEN SLit(b, pt, f.d, n) ELSE [v |-> 0, d |-> f.d]
\* k optional signed values of n bits
OptSeq(b, pt, d, k, n) ==
  FoldLeft(LAMBDA st, j : LET o == OptSLit(b, pt, st.d, n) IN [d |-> o.d, vs |-> Append(st.vs, o.v)],
           [d |-> d, vs |-> <<>>], [j \in 1..k |-> j])

\* ---------------- frame header (RFC 6386 section 9) ----------------
ReadSeg(b, pt, d) ==
  LET use == GB(b, pt, d, 128) IN
  IF use.bit = 0
  THEN [d |-> use.d, use |-> FALSE, upd |-> FALSE, abs |-> TRUE, quant |-> <<0,0,0,0>>, fstr |-> <<0,0,0,0>>, probs |-> <<255,255,255>>]
  ELSE LET um == GB(b, pt, use.d, 128)
           ud == GB(b, pt, um.d, 128)
           ab == GB(b, pt, ud.d, 128)
           qs == OptSeq(b, pt, ab.d, 4, 7)
           fs == OptSeq(b, pt, qs.d, 4, 6)
           d1 == IF ud.bit = 1 THEN fs.d ELSE ud.d
           pb == IF um.bit = 1
                 THEN FoldLeft(LAMBDA st, j : LET f == GB(b, pt, st.d, 128) IN
                                  IF f.bit = 1 THEN LET v == Lit(b, pt, f.d, 8) IN [d |-> v.d, vs |-> Append(st.vs, v.v)]
                                  ELSE [d |-> f.d, vs |-> Append(st.vs, 255)],
                               [d |-> d1, vs |-> <<>>], <<1,2,3>>)
                 ELSE [d |-> d1, vs |-> <<255,255,255>>]
       IN [d |-> pb.d, use |-> TRUE, upd |-> um.bit = 1,
           abs |-> IF ud.bit = 1 THEN ab.bit = 1 ELSE TRUE,
           quant |-> IF ud.bit = 1 THEN qs.vs ELSE <<0,0,0,0>>,
           fstr |-> IF ud.bit = 1 THEN fs.vs ELSE <<0,0,0,0>>, probs |-> pb.vs]

ReadFilt(b, pt, d) ==
  LET si == GB(b, pt, d, 128)
      lv == Lit(b, pt, si.d, 6)
      sh == Lit(b, pt, lv.d, 3)
      ul == GB(b, pt, sh.d, 128)
      up == GB(b, pt, ul.d, 128)
      rf == OptSeq(b, pt, up.d, 4, 6)
      md == OptSeq(b, pt, rf.d, 4, 6)
      upd == ul.bit = 1 /\ up.bit = 1
  IN [d |-> IF ul.bit = 0 THEN ul.d ELSE IF up.bit = 0 THEN up.d ELSE md.d,
      simple |-> si.bit = 1, level |-> lv.v, sharp |-> sh.v, useDelta |-> ul.bit = 1,
      ref |-> IF upd THEN rf.vs ELSE <<0,0,0,0>>, mode |-> IF upd THEN md.vs ELSE <<0,0,0,0>>]

PIdx(t, band, ctx, k) == ((t * 8 + band) * 3 + ctx) * 11 + k + 1
ReadProba(b, pt, d) ==
  FoldLeft(LAMBDA st, i :
             LET t == (i - 1) \div 264  bd == ((i - 1) \div 33) % 8  c == ((i - 1) \div 11) % 3  k == (i - 1) % 11
                 g == GB(b, pt, st.d, CoeffsUpdateProba[t + 1][bd + 1][c + 1][k + 1])
             IN IF g.bit = 1 THEN LET v == Lit(b, pt, g.d, 8) IN [d |-> v.d, p |-> Append(st.p, v.v)]
                ELSE [d |-> g.d, p |-> Append(st.p, CoeffsProba0[t + 1][bd + 1][c + 1][k + 1])],
           [d |-> d, p |-> <<>>], [i \in 1..1056 |-> i])

ParseHeader(b) ==
  LET tag == b[1] + 256 * b[2] + 65536 * b[3]
      p0len == tag \div 32
      pt == [off |-> 10, len |-> p0len]
      cs == GB(b, pt, BInit(b, pt), 128)
      cl == GB(b, pt, cs.d, 128)
      sg == ReadSeg(b, pt, cl.d)
      fl == ReadFilt(b, pt, sg.d)
      np == Lit(b, pt, fl.d, 2)
      bq == Lit(b, pt, np.d, 7)
      dq == OptSeq(b, pt, bq.d, 5, 4)         \* y1dc, y2dc, y2ac, uvdc, uvac
      rf == GB(b, pt, dq.d, 128)
      pr == ReadProba(b, pt, rf.d)
      sk == GB(b, pt, pr.d, 128)
      skp == IF sk.bit = 1 THEN Lit(b, pt, sk.d, 8) ELSE [v |-> 0, d |-> sk.d]
  IN [ok |-> Len(b) >= 10 /\ tag % 2 = 0 /\ (tag \div 16) % 2 = 1 /\ b[4] = 157 /\ b[5] = 1 /\ b[6] = 42 /\ 10 + p0len <= Len(b),
      w |-> (b[7] + 256 * b[8]) % 16384, h |-> (b[9] + 256 * b[10]) % 16384,
      pt |-> pt, seg |-> sg, filt |-> fl, nparts |-> 2 ^ np.v, baseq |-> bq.v, dq |-> dq.vs,
      proba |-> pr.p, useSkip |-> sk.bit = 1, skipP |-> skp.v, d |-> skp.d]

\* token partitions following partition 0
Partitions(b, h) ==
  LET n == h.nparts
      tbl == 10 + h.pt.len
      start == tbl + 3 * (n - 1)
      sz(i) == b[tbl + 3 * (i - 1) + 1] + 256 * b[tbl + 3 * (i - 1) + 2] + 65536 * b[tbl + 3 * (i - 1) + 3]
  IN FoldLeft(LAMBDA st, i : LET len == IF i < n THEN sz(i) ELSE Len(b) - st.off
                             IN [off |-> st.off + len, ok |-> st.ok /\ len >= 0 /\ st.off + len <= Len(b),
                                 pts |-> Append(st.pts, [off |-> st.off, len |-> len])],
              [off |-> start, ok |-> start <= Len(b), pts |-> <<>>], [i \in 1..n |-> i])

\* ---------------- per-macroblock modes (partition 0) ----------------
\* mode numbers: 0 DC, 1 TM, 2 VE, 3 HE, 4 RD, 5 VR, 6 LD, 7 VL, 8 HD, 9 HU
SetAt(s, i, v) == [s EXCEPT ![i] = v]
ParseModes(b, h, mbw, mbh) ==
  LET pt == h.pt
      OneMB(st, i) ==
        LET mx == (i - 1) % mbw
            left0 == IF mx = 0 THEN <<0,0,0,0>> ELSE st.left
            top0 == SubSeq(st.top, 4 * mx + 1, 4 * mx + 4)
            sg == IF h.seg.upd
                  THEN LET g1 == GB(b, pt, st.d, h.seg.probs[1]) IN
                       IF g1.bit = 0 THEN LET g2 == GB(b, pt, g1.d, h.seg.probs[2]) IN [v |-> g2.bit, d |-> g2.d]
                       ELSE LET g3 == GB(b, pt, g1.d, h.seg.probs[3]) IN [v |-> 2 + g3.bit, d |-> g3.d]
                  ELSE [v |-> 0, d |-> st.d]
            sk == IF h.useSkip THEN GB(b, pt, sg.d, h.skipP) ELSE [bit |-> 0, d |-> sg.d]
            i4 == GB(b, pt, sk.d, 145)
            y16 == LET a == GB(b, pt, i4.d, 156) IN
                   IF a.bit = 1 THEN LET c == GB(b, pt, a.d, 128) IN [v |-> IF c.bit = 1 THEN 1 ELSE 3, d |-> c.d]
                   ELSE LET c == GB(b, pt, a.d, 163) IN [v |-> IF c.bit = 1 THEN 2 ELSE 0, d |-> c.d]
            Blk(bs, k) ==
              LET y == k \div 4  x == k % 4
                  prob == KBModesProba[bs.top[x + 1] + 1][bs.left[y + 1] + 1]
                  g0 == GB(b, pt, bs.d, prob[1])
                  Walk(ws, j) == IF ws.i <= 0 THEN ws
                                 ELSE LET g == GB(b, pt, ws.d, prob[ws.i + 1]) IN [i |-> KYModesIntra4[2 * ws.i + g.bit + 1], d |-> g.d]
                  wk == FoldLeft(Walk, [i |-> KYModesIntra4[g0.bit + 1], d |-> g0.d], <<1,2,3,4,5,6,7,8,9>>)
                  m == -wk.i
              IN [d |-> wk.d, top |-> SetAt(bs.top, x + 1, m), left |-> SetAt(bs.left, y + 1, m), modes |-> Append(bs.modes, m)]
            b4 == FoldLeft(Blk, [d |-> i4.d, top |-> top0, left |-> left0, modes |-> <<>>], [k \in 1..16 |-> k - 1])
            is4 == i4.bit = 0
            dy == IF is4 THEN b4.d ELSE y16.d
            uv == LET g == GB(b, pt, dy, 142) IN
                  IF g.bit = 0 THEN [v |-> 0, d |-> g.d]
                  ELSE LET g2 == GB(b, pt, g.d, 114) IN
                       IF g2.bit = 0 THEN [v |-> 2, d |-> g2.d]
                       ELSE LET g3 == GB(b, pt, g2.d, 183) IN [v |-> IF g3.bit = 1 THEN 1 ELSE 3, d |-> g3.d]
            ntop == IF is4 THEN b4.top ELSE Rep(4, y16.v)
            nleft == IF is4 THEN b4.left ELSE Rep(4, y16.v)
        IN [d |-> uv.d,
            top |-> [j \in 1..(4 * mbw) |-> IF j > 4 * mx /\ j <= 4 * mx + 4 THEN ntop[j - 4 * mx] ELSE st.top[j]],
            left |-> nleft,
            mbs |-> Append(st.mbs, [seg |-> sg.v, skip |-> sk.bit = 1, is4 |-> is4,
                                    modes |-> IF is4 THEN b4.modes ELSE Rep(16, y16.v), uv |-> uv.v])]
  IN FoldLeft(OneMB, [d |-> h.d, top |-> Rep(4 * mbw, 0), left |-> <<0,0,0,0>>, mbs |-> <<>>], [i \in 1..(mbw * mbh) |-> i])

\* ---------------- dequantisation factors per segment ----------------
QFor(h, s) ==
  LET q == IF h.seg.use THEN (IF h.seg.abs THEN h.seg.quant[s + 1] ELSE h.baseq + h.seg.quant[s + 1]) ELSE h.baseq
      y2ac == (KAcTable[ClampI(q + h.dq[3], 0, 127) + 1] * 101581) \div 65536
  IN [y1 |-> <<KDcTable[ClampI(q + h.dq[1], 0, 127) + 1], KAcTable[ClampI(q, 0, 127) + 1]>>,
      y2 |-> <<KDcTable[ClampI(q + h.dq[2], 0, 127) + 1] * 2, IF y2ac < 8 THEN 8 ELSE y2ac>>,
      uv |-> <<KDcTable[ClampI(q + h.dq[4], 0, 117) + 1], KAcTable[ClampI(q + h.dq[5], 0, 127) + 1]>>]

\* ---------------- coefficient tokens (RFC 6386 section 13) ----------------
Cat3 == <<173, 148, 140>>  Cat4 == <<176, 155, 140, 135>>  Cat5 == <<180, 157, 141, 134, 130>>
Cat6 == <<254, 254, 243, 230, 196, 177, 153, 140, 133, 130, 129>>
ExtraBits(b, pt, d, tab) ==
  FoldLeft(LAMBDA st, j : LET g == GB(b, pt, st.d, tab[j]) IN [v |-> st.v * 2 + g.bit, d |-> g.d],
           [v |-> 0, d |-> d], [j \in 1..Len(tab) |-> j])
\* p(k) gives probability k of the current band/context
LargeValue(b, pt, d, P(_)) ==
  LET g3 == GB(b, pt, d, P(3)) IN
  IF g3.bit = 0
  THEN LET g4 == GB(b, pt, g3.d, P(4)) IN
       IF g4.bit = 0 THEN [v |-> 2, d |-> g4.d]
       ELSE LET g5 == GB(b, pt, g4.d, P(5)) IN [v |-> 3 + g5.bit, d |-> g5.d]
  ELSE LET g6 == GB(b, pt, g3.d, P(6)) IN
       IF g6.bit = 0
       THEN LET g7 == GB(b, pt, g6.d, P(7)) IN
            IF g7.bit = 0 THEN LET e == GB(b, pt, g7.d, 159) IN [v |-> 5 + e.bit, d |-> e.d]
            ELSE LET e1 == GB(b, pt, g7.d, 165)  e2 == GB(b, pt, e1.d, 145) IN [v |-> 7 + 2 * e1.bit + e2.bit, d |-> e2.d]
       ELSE LET b1 == GB(b, pt, g6.d, P(8))
                b0 == GB(b, pt, b1.d, P(9 + b1.bit))
                cat == 2 * b1.bit + b0.bit
                tab == CASE cat = 0 -> Cat3 [] cat = 1 -> Cat4 [] cat = 2 -> Cat5 [] OTHER -> Cat6
                e == ExtraBits(b, pt, b0.d, tab)
            IN [v |-> e.v + 3 + 8 * (2 ^ cat), d |-> e.d]

\* returns [d, nz (position after last non-zero coefficient), out (16 dequantised coefficients, raster order)]
GetCoeffs(b, pt, d, proba, t, ctx0, dq, first) ==
  LET Step(st, j) ==
        IF st.done THEN st
        ELSE LET P(k) == proba[PIdx(t, KBands[st.n + 1], st.ctx, k)]
                 g0 == IF st.eob THEN GB(b, pt, st.d, P(0)) ELSE [bit |-> 1, d |-> st.d]
             IN IF g0.bit = 0 THEN [st EXCEPT !.done = TRUE, !.nz = st.n, !.d = g0.d]
                ELSE LET g1 == GB(b, pt, g0.d, P(1)) IN
                     IF g1.bit = 0
                     THEN IF st.n + 1 = 16 THEN [st EXCEPT !.done = TRUE, !.nz = 16, !.d = g1.d]
                          ELSE [st EXCEPT !.n = st.n + 1, !.ctx = 0, !.eob = FALSE, !.d = g1.d]
                     ELSE LET g2 == GB(b, pt, g1.d, P(2))
                              lv == IF g2.bit = 0 THEN [v |-> 1, d |-> g2.d] ELSE LargeValue(b, pt, g2.d, P)
                              sg == GB(b, pt, lv.d, 128)
                              val == (IF sg.bit = 1 THEN -lv.v ELSE lv.v) * (IF st.n > 0 THEN dq[2] ELSE dq[1])
                              out2 == SetAt(st.out, KZigzag[st.n + 1] + 1, val)
                          IN IF st.n + 1 = 16 THEN [st EXCEPT !.done = TRUE, !.nz = 16, !.d = sg.d, !.out = out2]
                             ELSE [st EXCEPT !.n = st.n + 1, !.ctx = IF g2.bit = 0 THEN 1 ELSE 2, !.eob = TRUE, !.d = sg.d, !.out = out2]
  IN FoldLeft(Step, [done |-> FALSE, n |-> first, ctx |-> ctx0, eob |-> TRUE, d |-> d, nz |-> 0, out |-> Rep(16, 0)],
              [j \in 1..17 |-> j])

\* ---------------- inverse transforms ----------------
Mul1(a) == ((a * 20091) \div 65536) + a
Mul2(a) == (a * 17734) \div 32768          \* = (a * 35468) >> 16 without leaving 31 bits
\* c: 16 coefficients raster (index row*4+col+1); result: 16 residuals raster, already >> 3
IDCT(c) ==
  LET V(col) == LET i0 == c[col + 1]  i1 == c[4 + col + 1]  i2 == c[8 + col + 1]  i3 == c[12 + col + 1]
                    a == i0 + i2  bb == i0 - i2
                    cc == Mul2(i1) - Mul1(i3)  dd == Mul1(i1) + Mul2(i3)
                IN <<a + dd, bb + cc, bb - cc, a - dd>>
      T == <<V(0), V(1), V(2), V(3)>>
      Hrow(i) == LET dc == T[1][i + 1] + 4
                     a == dc + T[3][i + 1]  bb == dc - T[3][i + 1]
                     cc == Mul2(T[2][i + 1]) - Mul1(T[4][i + 1])  dd == Mul1(T[2][i + 1]) + Mul2(T[4][i + 1])
                 IN <<(a + dd) \div 8, (bb + cc) \div 8, (bb - cc) \div 8, (a - dd) \div 8>>
  IN Hrow(0) \o Hrow(1) \o Hrow(2) \o Hrow(3)
\* in: 16 Y2 coefficients raster; result: 16 DC values, block order
WHT(c) ==
  LET tmp == [k \in 0..15 |->
                LET i == k % 4  r == k \div 4
                    a0 == c[i + 1] + c[12 + i + 1]  a1 == c[4 + i + 1] + c[8 + i + 1]
                    a2 == c[4 + i + 1] - c[8 + i + 1]  a3 == c[i + 1] - c[12 + i + 1]
                IN CASE r = 0 -> a0 + a1 [] r = 2 -> a0 - a1 [] r = 1 -> a3 + a2 [] OTHER -> a3 - a2]
      Row(i) == LET dc == tmp[i * 4] + 3
                    a0 == dc + tmp[3 + i * 4]  a1 == tmp[1 + i * 4] + tmp[2 + i * 4]
                    a2 == tmp[1 + i * 4] - tmp[2 + i * 4]  a3 == dc - tmp[3 + i * 4]
                IN <<(a0 + a1) \div 8, (a3 + a2) \div 8, (a0 - a1) \div 8, (a3 - a2) \div 8>>
  IN Row(0) \o Row(1) \o Row(2) \o Row(3)

\* ---------------- intra prediction ----------------
\* plane access with the frame-border conventions (127 above, 129 to the left)
PAt(P, S, x, y) == IF y < 0 THEN 127 ELSE IF x < 0 THEN 129 ELSE P[y * S + x + 1]
Avg2(a, c) == (a + c + 1) \div 2
Avg3(a, m, c) == (a + 2 * m + c + 2) \div 4
SumTo(n, F(_)) == FoldLeft(LAMBDA acc, k : acc + F(k), 0, [k \in 1..n |-> k - 1])

\* size n (16 luma / 8 chroma) block at plane origin (X0, Y0); returns function (dx, dy) -> value via operator
PredBig(P, S, X0, Y0, n, mode, x, y) ==
  LET top(k) == PAt(P, S, X0 + k, Y0 - 1)
      left(k) == PAt(P, S, X0 - 1, Y0 + k)
      sh == IF n = 16 THEN 32 ELSE 16
  IN CASE mode = 0 -> (IF X0 > 0 /\ Y0 > 0 THEN (SumTo(n, top) + SumTo(n, left) + n) \div sh
                       ELSE IF X0 > 0 THEN (2 * SumTo(n, left) + n) \div sh
                       ELSE IF Y0 > 0 THEN (2 * SumTo(n, top) + n) \div sh
                       ELSE 128)
       [] mode = 1 -> Clip8(top(x) + left(y) - PAt(P, S, X0 - 1, Y0 - 1))
       [] mode = 2 -> top(x)
       [] OTHER -> left(y)

\* 4x4 luma block; tr(k), k in 4..7, supplies the top-right samples
Pred4(P, S, X0, Y0, mode, TR(_), x, y) ==
  LET T(k) == IF k < 4 THEN PAt(P, S, X0 + k, Y0 - 1) ELSE TR(k)
      L(k) == PAt(P, S, X0 - 1, Y0 + k)
      X == PAt(P, S, X0 - 1, Y0 - 1)
      A == T(0) B == T(1) C == T(2) D == T(3) E == T(4) F == T(5) G == T(6) H == T(7)
      I == L(0) J == L(1) K == L(2) LL == L(3)
  IN CASE mode = 0 -> (A + B + C + D + I + J + K + LL + 4) \div 8
       [] mode = 1 -> Clip8(T(x) + L(y) - X)
       [] mode = 2 -> (CASE x = 0 -> Avg3(X, A, B) [] x = 1 -> Avg3(A, B, C) [] x = 2 -> Avg3(B, C, D) [] OTHER -> Avg3(C, D, E))
       [] mode = 3 -> (CASE y = 0 -> Avg3(X, I, J) [] y = 1 -> Avg3(I, J, K) [] y = 2 -> Avg3(J, K, LL) [] OTHER -> Avg3(K, LL, LL))
       [] mode = 4 -> (LET dd == x - y IN     \* RD4: diagonal down-right
                       CASE dd = -3 -> Avg3(J, K, LL) [] dd = -2 -> Avg3(I, J, K) [] dd = -1 -> Avg3(X, I, J)
                         [] dd = 0 -> Avg3(A, X, I) [] dd = 1 -> Avg3(B, A, X) [] dd = 2 -> Avg3(C, B, A) [] OTHER -> Avg3(D, C, B))
       [] mode = 5 -> (LET z == 2 * x - y IN  \* VR4
                       CASE z = 0 -> Avg2(X, A) [] z = 2 -> Avg2(A, B) [] z = 4 -> Avg2(B, C) [] z = 6 -> Avg2(C, D)
                         [] z = -1 -> Avg3(I, X, A) [] z = 1 -> Avg3(X, A, B) [] z = 3 -> Avg3(A, B, C) [] z = 5 -> Avg3(B, C, D)
                         [] z = -2 -> Avg3(J, I, X) [] OTHER -> Avg3(K, J, I))
       [] mode = 6 -> (LET s == x + y IN      \* LD4
                       CASE s = 0 -> Avg3(A, B, C) [] s = 1 -> Avg3(B, C, D) [] s = 2 -> Avg3(C, D, E) [] s = 3 -> Avg3(D, E, F)
                         [] s = 4 -> Avg3(E, F, G) [] s = 5 -> Avg3(F, G, H) [] OTHER -> Avg3(G, H, H))
       [] mode = 7 -> (CASE y = 0 -> (CASE x = 0 -> Avg2(A, B) [] x = 1 -> Avg2(B, C) [] x = 2 -> Avg2(C, D) [] OTHER -> Avg2(D, E))
                         [] y = 1 -> (CASE x = 0 -> Avg3(A, B, C) [] x = 1 -> Avg3(B, C, D) [] x = 2 -> Avg3(C, D, E) [] OTHER -> Avg3(D, E, F))
                         [] y = 2 -> (CASE x = 0 -> Avg2(B, C) [] x = 1 -> Avg2(C, D) [] x = 2 -> Avg2(D, E) [] OTHER -> Avg3(E, F, G))
                         [] OTHER -> (CASE x = 0 -> Avg3(B, C, D) [] x = 1 -> Avg3(C, D, E) [] x = 2 -> Avg3(D, E, F) [] OTHER -> Avg3(F, G, H)))
       [] mode = 8 -> (LET z == 2 * y - x IN  \* HD4
                       CASE z = 0 -> Avg2(I, X) [] z = 2 -> Avg2(J, I) [] z = 4 -> Avg2(K, J) [] z = 6 -> Avg2(LL, K)
                         [] z = -1 -> Avg3(I, X, A) [] z = 1 -> Avg3(J, I, X) [] z = 3 -> Avg3(K, J, I) [] z = 5 -> Avg3(LL, K, J)
                         [] z = -2 -> Avg3(X, A, B) [] OTHER -> Avg3(A, B, C))
       [] OTHER -> (LET z == x + 2 * y IN     \* HU4
                    CASE z = 0 -> Avg2(I, J) [] z = 1 -> Avg3(I, J, K) [] z = 2 -> Avg2(J, K) [] z = 3 -> Avg3(J, K, LL)
                      [] z = 4 -> Avg2(K, LL) [] z = 5 -> Avg3(K, LL, LL) [] OTHER -> LL)

\* write an n x n block given by F(x, y) at (X0, Y0) into plane P of stride S
Blit(P, S, X0, Y0, n, F(_, _)) ==
  [i \in 1..Len(P) |-> LET x == (i - 1) % S  y == (i - 1) \div S
                       IN IF x >= X0 /\ x < X0 + n /\ y >= Y0 /\ y < Y0 + n THEN F(x - X0, y - Y0) ELSE P[i]]

\* ---------------- macroblock loop: tokens + reconstruction ----------------
DecodeMBs(b, h, pts, mbw, mbh, mbs) ==
  LET SY == 16 * mbw  SC == 8 * mbw
      ZeroNz == [y |-> <<0,0,0,0>>, u |-> <<0,0>>, v |-> <<0,0>>, dc |-> 0]
      OneMB(st, i) ==
        LET mx == (i - 1) % mbw  my == (i - 1) \div mbw
            mb == mbs[i]
            pi == (my % h.nparts) + 1
            pt == pts[pi]
            q == QFor(h, mb.seg)
            tnz0 == st.top[mx + 1]
            lnz0 == IF mx = 0 THEN ZeroNz ELSE st.left
            d0 == st.ds[pi]
            \* --- residual parsing ---
            y2 == IF mb.is4 THEN [d |-> d0, nz |-> 0, out |-> Rep(16, 0)]
                  ELSE GetCoeffs(b, pt, d0, h.proba, 1, tnz0.dc + lnz0.dc, q.y2, 0)
            first == IF mb.is4 THEN 0 ELSE 1
            ytype == IF mb.is4 THEN 3 ELSE 0
            YBlk(bs, k) ==
              LET y == k \div 4  x == k % 4
                  r == GetCoeffs(b, pt, bs.d, h.proba, ytype, bs.t[x + 1] + bs.l[y + 1], q.y1, first)
                  f == IF r.nz > first THEN 1 ELSE 0
              IN [d |-> r.d, t |-> SetAt(bs.t, x + 1, f), l |-> SetAt(bs.l, y + 1, f), blocks |-> Append(bs.blocks, r.out)]
            yb == FoldLeft(YBlk, [d |-> y2.d, t |-> tnz0.y, l |-> lnz0.y, blocks |-> <<>>], [k \in 1..16 |-> k - 1])
            CBlk(bs, k) ==
              LET y == k \div 2  x == k % 2
                  r == GetCoeffs(b, pt, bs.d, h.proba, 2, bs.t[x + 1] + bs.l[y + 1], q.uv, 0)
                  f == IF r.nz > 0 THEN 1 ELSE 0
              IN [d |-> r.d, t |-> SetAt(bs.t, x + 1, f), l |-> SetAt(bs.l, y + 1, f), blocks |-> Append(bs.blocks, r.out)]
            ub == FoldLeft(CBlk, [d |-> yb.d, t |-> tnz0.u, l |-> lnz0.u, blocks |-> <<>>], <<0,1,2,3>>)
            vb == FoldLeft(CBlk, [d |-> ub.d, t |-> tnz0.v, l |-> lnz0.v, blocks |-> <<>>], <<0,1,2,3>>)
            coded == ~mb.skip
            dcs == IF mb.is4 \/ ~coded THEN Rep(16, 0) ELSE WHT(y2.out)
            YB(k) == IF ~coded THEN Rep(16, 0)
                     ELSE IF mb.is4 THEN yb.blocks[k + 1] ELSE SetAt(yb.blocks[k + 1], 1, dcs[k + 1])
            UB(k) == IF coded THEN ub.blocks[k + 1] ELSE Rep(16, 0)
            VB(k) == IF coded THEN vb.blocks[k + 1] ELSE Rep(16, 0)
            ntop == IF coded THEN [y |-> yb.t, u |-> ub.t, v |-> vb.t, dc |-> IF mb.is4 THEN tnz0.dc ELSE (IF y2.nz > 0 THEN 1 ELSE 0)]
                    ELSE [y |-> <<0,0,0,0>>, u |-> <<0,0>>, v |-> <<0,0>>, dc |-> IF mb.is4 THEN tnz0.dc ELSE 0]
            nleft == IF coded THEN [y |-> yb.l, u |-> ub.l, v |-> vb.l, dc |-> IF mb.is4 THEN lnz0.dc ELSE (IF y2.nz > 0 THEN 1 ELSE 0)]
                     ELSE [y |-> <<0,0,0,0>>, u |-> <<0,0>>, v |-> <<0,0>>, dc |-> IF mb.is4 THEN lnz0.dc ELSE 0]
            \* --- reconstruction ---
            X0 == 16 * mx  Y0 == 16 * my
            TRfor(P, bx, by, k) ==      \* top-right samples k = 4..7 of sub-block (bx, by)
              IF bx < 3 THEN PAt(P, SY, X0 + 4 * bx + k, Y0 + 4 * by - 1)
              ELSE IF my = 0 THEN 127
              ELSE IF mx = mbw - 1 THEN P[(Y0 - 1) * SY + X0 + 15 + 1]
              ELSE P[(Y0 - 1) * SY + X0 + 16 + (k - 4) + 1]
            Luma4(P, k) ==
              LET bx == k % 4  by == k \div 4
                  res == IDCT(YB(k))
                  TR(kk) == TRfor(P, bx, by, kk)
              IN Blit(P, SY, X0 + 4 * bx, Y0 + 4 * by, 4,
                      LAMBDA x, y : Clip8(Pred4(P, SY, X0 + 4 * bx, Y0 + 4 * by, mb.modes[k + 1], TR, x, y) + res[4 * y + x + 1]))
            Y1 == IF mb.is4 THEN FoldLeft(Luma4, st.Y, [k \in 1..16 |-> k - 1])
                  ELSE LET res == [k \in 0..15 |-> IDCT(YB(k))]
                       IN Blit(st.Y, SY, X0, Y0, 16,
                               LAMBDA x, y : Clip8(PredBig(st.Y, SY, X0, Y0, 16, mb.modes[1], x, y)
                                                   + res[(y \div 4) * 4 + (x \div 4)][4 * (y % 4) + (x % 4) + 1]))
            Chroma(P, Bk(_)) ==
              LET res == [k \in 0..3 |-> IDCT(Bk(k))]
              IN Blit(P, SC, 8 * mx, 8 * my, 8,
                      LAMBDA x, y : Clip8(PredBig(P, SC, 8 * mx, 8 * my, 8, mb.uv, x, y)
                                          + res[(y \div 4) * 2 + (x \div 4)][4 * (y % 4) + (x % 4) + 1]))
            anyNz == coded /\ ((\E k \in 0..15 : YB(k) # Rep(16, 0)) \/ (\E k \in 0..3 : (UB(k) # Rep(16, 0)) \/ (VB(k) # Rep(16, 0))))
        IN [ds |-> IF coded THEN SetAt(st.ds, pi, vb.d) ELSE st.ds,
            top |-> SetAt(st.top, mx + 1, ntop), left |-> nleft,
            Y |-> Y1, U |-> Chroma(st.U, UB), V |-> Chroma(st.V, VB),
            info |-> Append(st.info, [inner |-> mb.is4 \/ anyNz, is4 |-> mb.is4, seg |-> mb.seg])]
  IN FoldLeft(OneMB,
              [ds |-> [p \in 1..Len(pts) |-> BInit(b, pts[p])], top |-> Rep(mbw, ZeroNz), left |-> ZeroNz,
               Y |-> Rep(SY * 16 * mbh, 0), U |-> Rep(SC * 8 * mbh, 0), V |-> Rep(SC * 8 * mbh, 0), info |-> <<>>],
              [i \in 1..(mbw * mbh) |-> i])


\* ---------------- loop filter (RFC 6386 section 15; libwebp arithmetic) ----------------
SC1(v) == ClampI(v, -128, 127)
SC2(v) == ClampI(v, -16, 15)
\* new value at offset k (-3..2) of one filtered line; p3..q3 are the eight samples across the edge
\* kind: 0 simple, 1 macroblock edge (normal), 2 inner edge (normal)
NewVal(k, p3, p2, p1, p0, q0, q1, q2, q3, kind, t2, it, hevT) ==
  LET old == CASE k = -3 -> p2 [] k = -2 -> p1 [] k = -1 -> p0 [] k = 0 -> q0 [] k = 1 -> q1 [] OTHER -> q2
      base == 4 * Abs(p0 - q0) + Abs(p1 - q1) <= t2
      inner == Abs(p3 - p2) <= it /\ Abs(p2 - p1) <= it /\ Abs(p1 - p0) <= it
               /\ Abs(q3 - q2) <= it /\ Abs(q2 - q1) <= it /\ Abs(q1 - q0) <= it
      hev == Abs(p1 - p0) > hevT \/ Abs(q1 - q0) > hevT
      \* DoFilter2
      a2f == 3 * (q0 - p0) + SC1(p1 - q1)
      f2a1 == SC2((a2f + 4) \div 8)  f2a2 == SC2((a2f + 3) \div 8)
      F2 == CASE k = -1 -> Clip8(p0 + f2a2) [] k = 0 -> Clip8(q0 - f2a1) [] OTHER -> old
      \* DoFilter4
      a4 == 3 * (q0 - p0)
      f4a1 == SC2((a4 + 4) \div 8)  f4a2 == SC2((a4 + 3) \div 8)  f4a3 == (f4a1 + 1) \div 2
      F4 == CASE k = -2 -> Clip8(p1 + f4a3) [] k = -1 -> Clip8(p0 + f4a2) [] k = 0 -> Clip8(q0 - f4a1)
              [] k = 1 -> Clip8(q1 - f4a3) [] OTHER -> old
      \* DoFilter6
      a6 == SC1(3 * (q0 - p0) + SC1(p1 - q1))
      f6a1 == (27 * a6 + 63) \div 128  f6a2 == (18 * a6 + 63) \div 128  f6a3 == (9 * a6 + 63) \div 128
      F6 == CASE k = -3 -> Clip8(p2 + f6a3) [] k = -2 -> Clip8(p1 + f6a2) [] k = -1 -> Clip8(p0 + f6a1)
              [] k = 0 -> Clip8(q0 - f6a1) [] k = 1 -> Clip8(q1 - f6a2) [] OTHER -> Clip8(q2 - f6a3)
  IN IF kind = 0 THEN (IF base THEN F2 ELSE old)
     ELSE IF ~(base /\ inner) THEN old
     ELSE IF hev THEN F2
     ELSE IF kind = 1 THEN F6 ELSE F4

\* filter one edge of `size` lines starting at (ex, ey); vert = TRUE: vertical edge (samples along x)
FilterEdge(P, S, ex, ey, size, vert, kind, thresh, it, hevT) ==
  LET t2 == 2 * thresh + 1
      At(x, y) == P[y * S + x + 1]
  IN [i \in 1..Len(P) |->
        LET x == (i - 1) % S  y == (i - 1) \div S
            k == IF vert THEN x - ex ELSE y - ey
            along == IF vert THEN y - ey ELSE x - ex
        IN IF k < (IF kind = 0 THEN -1 ELSE -3) \/ k > (IF kind = 0 THEN 0 ELSE 2) \/ along < 0 \/ along >= size THEN P[i]
           ELSE LET G(j) == IF vert THEN At(ex + j, y) ELSE At(x, ey + j)
                IN NewVal(k, IF kind = 0 THEN 0 ELSE G(-4), IF kind = 0 THEN 0 ELSE G(-3), G(-2), G(-1), G(0), G(1),
                          IF kind = 0 THEN 0 ELSE G(2), IF kind = 0 THEN 0 ELSE G(3), kind, t2, it, hevT)]

FStrength(h, seg, is4) ==
  LET base == IF h.seg.use THEN (IF h.seg.abs THEN h.seg.fstr[seg + 1] ELSE h.filt.level + h.seg.fstr[seg + 1]) ELSE h.filt.level
      lv0 == IF h.filt.useDelta THEN base + h.filt.ref[1] + (IF is4 THEN h.filt.mode[1] ELSE 0) ELSE base
      level == ClampI(lv0, 0, 63)
      sh == h.filt.sharp
      il0 == IF sh > 0 THEN (LET s1 == IF sh > 4 THEN level \div 4 ELSE level \div 2 IN IF s1 > 9 - sh THEN 9 - sh ELSE s1) ELSE level
      ilevel == IF il0 < 1 THEN 1 ELSE il0
  IN [limit |-> IF level > 0 THEN 2 * level + ilevel ELSE 0, ilevel |-> ilevel,
      hev |-> IF level >= 40 THEN 2 ELSE IF level >= 15 THEN 1 ELSE 0]

FilterFrame(h, fr, mbw, mbh) ==
  LET SY == 16 * mbw  SC == 8 * mbw
      simple == h.filt.simple
      OneMB(st, i) ==
        LET mx == (i - 1) % mbw  my == (i - 1) \div mbw
            nf == fr.info[i]
            f == FStrength(h, nf.seg, nf.is4)
            X0 == 16 * mx  Y0 == 16 * my  CX == 8 * mx  CY == 8 * my
            kE == IF simple THEN 0 ELSE 1
            kI == IF simple THEN 0 ELSE 2
            \* luma
            y1 == IF mx > 0 THEN FilterEdge(st.Y, SY, X0, Y0, 16, TRUE, kE, f.limit + 4, f.ilevel, f.hev) ELSE st.Y
            y2 == IF nf.inner THEN FoldLeft(LAMBDA P, e : FilterEdge(P, SY, X0 + 4 * e, Y0, 16, TRUE, kI, f.limit, f.ilevel, f.hev), y1, <<1,2,3>>) ELSE y1
            y3 == IF my > 0 THEN FilterEdge(y2, SY, X0, Y0, 16, FALSE, kE, f.limit + 4, f.ilevel, f.hev) ELSE y2
            y4 == IF nf.inner THEN FoldLeft(LAMBDA P, e : FilterEdge(P, SY, X0, Y0 + 4 * e, 16, FALSE, kI, f.limit, f.ilevel, f.hev), y3, <<1,2,3>>) ELSE y3
            Ch(P) ==
              LET c1 == IF mx > 0 THEN FilterEdge(P, SC, CX, CY, 8, TRUE, 1, f.limit + 4, f.ilevel, f.hev) ELSE P
                  c2 == IF nf.inner THEN FilterEdge(c1, SC, CX + 4, CY, 8, TRUE, 2, f.limit, f.ilevel, f.hev) ELSE c1
                  c3 == IF my > 0 THEN FilterEdge(c2, SC, CX, CY, 8, FALSE, 1, f.limit + 4, f.ilevel, f.hev) ELSE c2
              IN IF nf.inner THEN FilterEdge(c3, SC, CX, CY + 4, 8, FALSE, 2, f.limit, f.ilevel, f.hev) ELSE c3
        IN IF f.limit = 0 THEN st
           ELSE [Y |-> y4, U |-> IF simple THEN st.U ELSE Ch(st.U), V |-> IF simple THEN st.V ELSE Ch(st.V)]
  IN IF h.filt.level = 0 THEN [Y |-> fr.Y, U |-> fr.U, V |-> fr.V]
     ELSE FoldLeft(OneMB, [Y |-> fr.Y, U |-> fr.U, V |-> fr.V], [i \in 1..(mbw * mbh) |-> i])

Crop(P, S, w, h) == [i \in 1..(w * h) |-> P[((i - 1) \div w) * S + ((i - 1) % w) + 1]]

\* Decode the payload of a "VP8 " chunk. Result: [ok, why, w, h, Y, U, V (after the loop filter), PY, PU, PV (before it),
\* filt (level, simple), nparts, segs]
DecodeVP8(b) ==
  LET h == ParseHeader(b)
  IN IF ~h.ok THEN [ok |-> FALSE, why |-> "header"]
     ELSE LET mbw == (h.w + 15) \div 16  mbh == (h.h + 15) \div 16
              ps == Partitions(b, h)
          IN IF ~ps.ok THEN [ok |-> FALSE, why |-> "partitions"]
             ELSE LET md == ParseModes(b, h, mbw, mbh)
                      fr0 == DecodeMBs(b, h, ps.pts, mbw, mbh, md.mbs)
                      fr == FilterFrame(h, fr0, mbw, mbh)
                  IN [ok |-> TRUE, why |-> "", w |-> h.w, h |-> h.h,
                      level |-> h.filt.level, simple |-> h.filt.simple, nparts |-> h.nparts, segs |-> h.seg.use,
                      Y |-> Crop(fr.Y, 16 * mbw, h.w, h.h),
                      U |-> Crop(fr.U, 8 * mbw, (h.w + 1) \div 2, (h.h + 1) \div 2),
                      V |-> Crop(fr.V, 8 * mbw, (h.w + 1) \div 2, (h.h + 1) \div 2),
                      PY |-> Crop(fr0.Y, 16 * mbw, h.w, h.h),
                      PU |-> Crop(fr0.U, 8 * mbw, (h.w + 1) \div 2, (h.h + 1) \div 2),
                      PV |-> Crop(fr0.V, 8 * mbw, (h.w + 1) \div 2, (h.h + 1) \div 2),
                      \* every token partition was read to a position inside it (plus the 2-byte look-ahead of the decoder)
                      inpart |-> \A p \in 1..Len(ps.pts) : fr0.ds[p].pos <= ps.pts[p].len + 2]

=============================================================================
