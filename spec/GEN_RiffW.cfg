SPECIFICATION Spec
CONSTANT MAXFRAMES = 1
INVARIANTS RoundTrip SizeStrict Emit
CHECK_DEADLOCK FALSE
