SPECIFICATION Spec
CONSTANTS W = 7
H = 5
SEED = 7
MAXT = 4
INVARIANTS ReaderAccepts Emit
CHECK_DEADLOCK FALSE
