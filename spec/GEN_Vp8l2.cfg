SPECIFICATION Spec
CONSTANTS SEEDS = {1}
WIDTHS = {5, 8}
H = 6
INVARIANTS ReaderAccepts Emit
CHECK_DEADLOCK FALSE
