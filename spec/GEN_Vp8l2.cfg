SPECIFICATION Spec
CONSTANTS SEEDS = {1}
WIDTHS = {5, 8}
H = 6
INVARIANTS ReaderAccepts Emit EmitHostile
CHECK_DEADLOCK FALSE
