------------------------------- MODULE Canvas -------------------------------
(* Pixels, non-premultiplied blending and rectangles for animation playback  *)
(* (container specification, "Assembling the canvas from frames"; integer     *)
(* arithmetic of libwebp's BlendPixelNonPremult where the specification's     *)
(* formula leaves rounding open).  A pixel is <<r, g, b, a>>.                  *)
EXTENDS Integers, Sequences, FiniteSets

Transparent == <<0, 0, 0, 0>>

\* libwebp: dst_factor_a = (dst_a * (256 - src_a)) >> 8 ; blend_a = src_a + dst_factor_a ;
\* scale = (1 << 24) / blend_a ; channel = ((src_c * src_a + dst_c * dst_factor_a) * scale) >> 24
\* The product is split so that every intermediate fits TLC's 32-bit integers (un < 2^16, scale <= 2^24).
MulShift24(un, scale) ==
  LET hi == scale \div 4096  lo == scale % 4096
  IN (un * hi + (un * lo) \div 4096) \div 4096
BlendChannel(sc, dc, sa, df, scale) ==
  LET v == MulShift24(sc * sa + dc * df, scale) IN IF v > 255 THEN 255 ELSE v

\* the integer blend, defined for src alpha > 0
BlendInt(src, dst) ==
  LET sa == src[4] da == dst[4]
      df == (da * (256 - sa)) \div 256
      ba == sa + df
      scale == 16777216 \div ba
  IN <<BlendChannel(src[1], dst[1], sa, df, scale), BlendChannel(src[2], dst[2], sa, df, scale),
       BlendChannel(src[3], dst[3], sa, df, scale), ba>>

\* deterministic blend used to build reference canvases: the exact cases of the container formula first
Blend(src, dst) ==
  IF src[4] = 0 THEN dst
  ELSE IF src[4] = 255 \/ dst[4] = 0 THEN src
  ELSE BlendInt(src, dst)

\* acceptance of an observed blend result: where the container formula is exact (src alpha 0 or 255, dst alpha 0)
\* it must be met exactly, except that for dst alpha 0 libwebp's integer rounding is accepted as well
BlendOK(src, dst, got) ==
  IF src[4] = 0 THEN got = dst
  ELSE IF src[4] = 255 THEN got = src
  ELSE IF dst[4] = 0 THEN got = src \/ got = BlendInt(src, dst)
  ELSE got = BlendInt(src, dst)

InRect(x, y, ox, oy, w, h) == x >= ox /\ x < ox + w /\ y >= oy /\ y < oy + h
=============================================================================
