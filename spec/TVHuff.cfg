SPECIFICATION Spec
INVARIANT Verdict
CHECK_DEADLOCK FALSE
