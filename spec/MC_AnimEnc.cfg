SPECIFICATION Spec
CONSTANTS
 CW = 3
 CH = 2
 MAXF = 3
 KMAX = 3
 PIXTOKS = {0, 1, 3}
 BLENDRULE = "transparency"
 DIRECTED = ""
 GEN = FALSE
INVARIANTS PlaybackExact RectOK
CHECK_DEADLOCK FALSE
