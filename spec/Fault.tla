-------------------------------- MODULE Fault --------------------------------
(* Fault sequences on a valid file (C05): a fault sets one FIELD of the file   *)
(* (a size, dimension, offset, count, flag or tag - the driver derives the     *)
(* field list of each base file from the layout map of spec/Riff.tla) to one   *)
(* VALUE CLASS, or applies a structural operation to one chunk.  TLC           *)
(* enumerates all fault sequences up to MAXFAULTS over NFIELDS abstract field  *)
(* slots; the driver instantiates every sequence on every base file (slot      *)
(* modulo the file's field count).  The contract of C05 for every resulting    *)
(* byte string: each entry point returns an error or a well-formed result,     *)
(* without panic or hang, within a budget proportional to input length plus    *)
(* declared picture area.                                                      *)
EXTENDS Integers, Sequences, FiniteSets, TLC, Json

CONSTANTS NFIELDS, MAXFAULTS

\* value classes for a field whose true value is t and whose width is b bits
Values == {"0", "1", "2", "3", "4", "7", "8", "t-1", "t+1", "t+2", "2^16-1", "2^24-1", "2^31-1", "2^31",
           "max-9", "max-1", "max", "t*2", "t/2", "flip-low-bit", "flip-high-bit",
           \* for length fields: the largest value whose region still ends inside its container, and just around it
           "limit-1", "limit", "limit+1", "limit+5", "limit+10"}
\* structural operations on the chunk that contains the field
\* the "-resized" variants keep the file consistent: the size field of the enclosing ANMF chunk (for a sub-chunk of a
\* frame) and the RIFF size follow the change, so the result is a well-sized container with an unexpected chunk sequence
StructOps == {"truncate-here", "delete-chunk", "duplicate-chunk", "swap-with-next", "zero-length", "drop-pad", "splice-foreign",
              "duplicate-chunk-resized", "delete-chunk-resized", "zero-length-resized"}

Faults == [slot : 0..(NFIELDS - 1), kind : {"set"}, arg : Values] \cup [slot : 0..(NFIELDS - 1), kind : {"struct"}, arg : StructOps]

VARIABLE seq
Init == seq = <<>>
Add(f) == Len(seq) < MAXFAULTS /\ seq' = Append(seq, f)
          /\ PrintT(<<"CASE", ToJson([faults |-> seq'])>>)
Next == \E f \in Faults : Add(f)
Spec == Init /\ [][Next]_seq
=============================================================================
