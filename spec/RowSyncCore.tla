---------------------------- MODULE RowSyncCore ----------------------------
(* The wait/signal core of one row of the pipelined lossy encoder            *)
(* (internal/lossy/encode_parallel.go: rowSync.waitFor / rowSync.signal),    *)
(* cut out of RowSync.tla: ONE row object, ONE publisher (the worker that     *)
(* owns the row, process 0) and NWAIT waiters (the worker of the next row and *)
(* the recorder), the row WIDTH being an unbounded integer parameter.         *)
(* The actions are the same atomic steps as in RowSync (same labels).         *)
(*                                                                            *)
(* Purpose: an INDUCTIVE invariant (IndInv) of "no wake-up is lost", checked  *)
(* by Apalache for every width and every need value (Init => IndInv,          *)
(* IndInv /\ Next => IndInv'), where TLC can only enumerate small W x H x NW. *)
(* SIGLOCK = FALSE removes the Lock/Unlock pair of signal(): the invariant is *)
(* then not inductive and NoLostWakeup is violated (the non-vacuity run).     *)
EXTENDS Integers, FiniteSets

CONSTANTS
  \* @type: Int;
  WIDTH,
  \* @type: Bool;
  SIGLOCK

NWAIT == 3
NeedDom == Int          \* TLC: overridden by a finite range (MC_RowSyncCore)
Pub == 0
Waiters == 1..NWAIT
Procs == 0..NWAIT
InWait == {"wlock", "wcheck", "wpark", "asleep", "wrelock", "wdec"}
WaiterPcs == {"idle", "wfast", "go"} \cup InWait
PubPcs == {"sstore", "scheck", "slock", "sunlock", "bcast", "next", "exit"}

VARIABLES
  \* @type: Int;
  done,
  \* @type: Int;
  waiters,
  \* @type: Int;
  mu,
  \* @type: Set(Int);
  sleeping,
  \* @type: Int -> Str;
  pc,
  \* @type: Int -> Int;
  need,
  \* @type: Int;
  scol

vars == <<done, waiters, mu, sleeping, pc, need, scol>>

ConstInit == WIDTH \in Int /\ WIDTH >= 1 /\ SIGLOCK = TRUE          \* the code
ConstInitNoLock == WIDTH \in Int /\ WIDTH >= 1 /\ SIGLOCK = FALSE   \* signal() without Lock/Unlock

Init ==
  /\ done = 0 /\ waiters = 0 /\ mu = -1 /\ sleeping = {}
  /\ pc = [p \in Procs |-> IF p = Pub THEN "sstore" ELSE "idle"]
  /\ need = [p \in Procs |-> 1]
  /\ scol = 0

Goto(p, l) == pc' = [pc EXCEPT ![p] = l]

\* ---- waiter: waitFor(need) ----
Pick(p) == /\ pc[p] = "idle"
           /\ \E n \in NeedDom : n >= 1 /\ n <= WIDTH /\ need' = [need EXCEPT ![p] = n]
           /\ Goto(p, "wfast")
           /\ UNCHANGED <<done, waiters, mu, sleeping, scol>>
WFast(p) == /\ pc[p] = "wfast"
            /\ IF done >= need[p] THEN Goto(p, "go") ELSE Goto(p, "winc")
            /\ UNCHANGED <<done, waiters, mu, sleeping, need, scol>>
WInc(p) == /\ pc[p] = "winc"
           /\ waiters' = waiters + 1
           /\ Goto(p, "wlock")
           /\ UNCHANGED <<done, mu, sleeping, need, scol>>
WLock(p) == /\ pc[p] \in {"wlock", "wrelock"}
            /\ mu = -1
            /\ mu' = p
            /\ Goto(p, "wcheck")
            /\ UNCHANGED <<done, waiters, sleeping, need, scol>>
WCheck(p) == /\ pc[p] = "wcheck"
             /\ IF done >= need[p]
                  THEN mu' = -1 /\ Goto(p, "wdec")
                  ELSE mu' = mu /\ Goto(p, "wpark")
             /\ UNCHANGED <<done, waiters, sleeping, need, scol>>
WPark(p) == /\ pc[p] = "wpark"
            /\ mu' = -1
            /\ sleeping' = sleeping \cup {p}
            /\ Goto(p, "asleep")
            /\ UNCHANGED <<done, waiters, need, scol>>
Wake(p) == /\ pc[p] = "asleep"
           /\ p \notin sleeping
           /\ Goto(p, "wrelock")
           /\ UNCHANGED <<done, waiters, mu, sleeping, need, scol>>
WDec(p) == /\ pc[p] = "wdec"
           /\ waiters' = waiters - 1
           /\ Goto(p, "go")
           /\ UNCHANGED <<done, mu, sleeping, need, scol>>
Again(p) == /\ pc[p] = "go"
            /\ Goto(p, "idle")
            /\ UNCHANGED <<done, waiters, mu, sleeping, need, scol>>

\* ---- publisher: signal(x+1) for x = 0 .. WIDTH-1 ----
SStore == /\ pc[Pub] = "sstore"
          /\ done' = scol + 1
          /\ Goto(Pub, "scheck")
          /\ UNCHANGED <<waiters, mu, sleeping, need, scol>>
SCheck == /\ pc[Pub] = "scheck"
          /\ IF waiters > 0 THEN Goto(Pub, IF SIGLOCK THEN "slock" ELSE "bcast") ELSE Goto(Pub, "next")
          /\ UNCHANGED <<done, waiters, mu, sleeping, need, scol>>
SLock == /\ pc[Pub] = "slock" /\ mu = -1
         /\ mu' = Pub /\ Goto(Pub, "sunlock")
         /\ UNCHANGED <<done, waiters, sleeping, need, scol>>
SUnlock == /\ pc[Pub] = "sunlock"
           /\ mu' = -1 /\ Goto(Pub, "bcast")
           /\ UNCHANGED <<done, waiters, sleeping, need, scol>>
BCast == /\ pc[Pub] = "bcast"
         /\ sleeping' = {} /\ Goto(Pub, "next")
         /\ UNCHANGED <<done, waiters, mu, need, scol>>
NextMB == /\ pc[Pub] = "next"
          /\ scol' = scol + 1
          /\ IF scol + 1 >= WIDTH THEN Goto(Pub, "exit") ELSE Goto(Pub, "sstore")
          /\ UNCHANGED <<done, waiters, mu, sleeping, need>>

WaiterStep(p) == Pick(p) \/ WFast(p) \/ WInc(p) \/ WLock(p) \/ WCheck(p) \/ WPark(p) \/ Wake(p) \/ WDec(p) \/ Again(p)
PubStep == SStore \/ SCheck \/ SLock \/ SUnlock \/ BCast \/ NextMB
Next == (\E p \in Waiters : WaiterStep(p)) \/ PubStep
Spec == Init /\ [][Next]_vars /\ WF_vars(PubStep) /\ \A p \in Waiters : WF_vars(WaiterStep(p))

\* ---- the property ----
\* A waiter that sleeps on the condition although its predicate already holds has a broadcast still coming.
BroadcastComing == pc[Pub] \in {"scheck", "slock", "sunlock", "bcast"}
NoLostWakeup == \A p \in Waiters : pc[p] = "asleep" /\ p \in sleeping /\ done >= need[p] => BroadcastComing

\* ---- inductive invariant ----
TypeOK ==
  /\ done \in Int /\ waiters \in Int /\ scol \in Int
  /\ mu \in -1..NWAIT
  /\ sleeping \in SUBSET Waiters
  /\ pc \in [Procs -> WaiterPcs \cup PubPcs \cup {"winc"}]
  /\ pc[Pub] \in PubPcs
  /\ \A p \in Waiters : pc[p] \in WaiterPcs \cup {"winc"}
  /\ need \in [Procs -> Int]
  /\ \A p \in Procs : need[p] >= 1 /\ need[p] <= WIDTH

Counted == waiters = Cardinality({p \in Waiters : pc[p] \in InWait})
MutexOwner ==
  /\ \A p \in Waiters : (mu = p) <=> (pc[p] \in {"wcheck", "wpark"})
  /\ (mu = Pub) <=> (pc[Pub] = "sunlock")
SleepersSleep == \A p \in sleeping : pc[p] = "asleep"
PubProgress ==
  /\ scol >= 0 /\ done >= 0
  /\ pc[Pub] = "sstore" => done = scol /\ scol < WIDTH
  /\ pc[Pub] \in {"scheck", "slock", "sunlock", "bcast", "next"} => done = scol + 1 /\ scol < WIDTH
  /\ pc[Pub] = "exit" => done = scol /\ scol >= WIDTH
\* the heart: between the failed check under the mutex and the enqueueing inside cond.Wait the publisher cannot get
\* past its own Lock, so a store that makes the predicate true in that window is still followed by a broadcast
ParkWindow == \A p \in Waiters : pc[p] = "wpark" /\ done >= need[p] => pc[Pub] \in {"scheck", "slock"}

IndInv == TypeOK /\ Counted /\ MutexOwner /\ SleepersSleep /\ PubProgress /\ ParkWindow /\ NoLostWakeup
IndInit == IndInv

\* consequence used by C10: when the publisher has left the row, nobody sleeps with a true predicate
Quiet == pc[Pub] = "exit" => \A p \in Waiters : ~(pc[p] = "asleep" /\ p \in sleeping)
\* (true because need <= WIDTH = done at exit)
\* liveness (TLC, small WIDTH): every wait returns
WaitReturns == \A p \in Waiters : (pc[p] = "winc") ~> (pc[p] = "go")
PubEnds == <>(pc[Pub] = "exit")
=============================================================================
