SPECIFICATION Spec
CONSTANTS MAXLEN = 2
FULL = FALSE
INVARIANTS TypeOK FieldsFit
CHECK_DEADLOCK FALSE
