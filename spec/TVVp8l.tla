------------------------------ MODULE TVVp8l ------------------------------
(* Trace validation of VP8L streams: each line of trace.ndjson carries a VP8L *)
(* payload written by the real encoder (or produced by Vp8lGen) and the       *)
(* pixels it must decode to ([id, bytes, w, h, pix: flat a,r,g,b list,        *)
(* tzero: 1 when fully transparent pixels may come back as transparent        *)
(* black]).  The independent reader (Vp8l.tla) must accept the stream, report *)
(* the same size and reproduce the pixels.                                    *)
EXTENDS Vp8l, Json, IOUtils
Trace == ndJsonDeserialize("trace.ndjson")
VARIABLES l, cur, bad
vars == <<l, cur, bad>>

PixEq(got, r, i) ==
  LET e == <<r.pix[4*i-3], r.pix[4*i-2], r.pix[4*i-1], r.pix[4*i]>>
  IN got = e \/ (r.tzero = 1 /\ e[1] = 0 /\ got = <<0, 0, 0, 0>>)

Judge(r, d) ==
  IF r.w = -1 THEN (IF d.ok THEN "real decoder rejects a stream the specification accepts" ELSE "independent reader rejects the stream: " \o d.why)
  ELSE IF ~d.ok THEN "independent reader rejects the stream: " \o d.why
  ELSE IF d.w # r.w \/ d.h # r.h THEN "size in the VP8L header differs from the picture"
  ELSE IF Len(d.pix) # r.w * r.h THEN "wrong pixel count"
  ELSE LET wrong == {i \in 1..(r.w * r.h) : ~PixEq(d.pix[i], r, i)}
       IN IF wrong = {} THEN ""
          ELSE "pixel " \o ToString((CHOOSE i \in wrong : \A j \in wrong : i <= j) - 1) \o " differs (" \o ToString(Cardinality(wrong)) \o " wrong)"

Init == l = 1 /\ cur = [ok |-> FALSE, why |-> "init"] /\ bad = <<>>
ParseLine == /\ l <= Len(Trace) /\ cur.why = "init"
             /\ cur' = DecodeVP8L(Trace[l].bytes) /\ UNCHANGED <<l, bad>>
JudgeLine == /\ l <= Len(Trace) /\ cur.why # "init"
             /\ LET j == Judge(Trace[l], cur)
                IN bad' = IF j = "" THEN bad ELSE Append(bad, [id |-> Trace[l].id, why |-> j])
             /\ cur' = [ok |-> FALSE, why |-> "init"] /\ l' = l + 1
Next == ParseLine \/ JudgeLine
Spec == Init /\ [][Next]_vars
Verdict == l <= Len(Trace) \/ PrintT(<<"VERDICT", ToJson([n |-> Len(Trace), bad |-> bad])>>)
=============================================================================
