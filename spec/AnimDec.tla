------------------------------ MODULE AnimDec ------------------------------
(* Canvas reconstruction of an animation (C09).                              *)
(*   contract layer  : `ref`  - the container semantics: the canvas is never *)
(*                     cleared except by the previous frame's disposal.       *)
(*   code-shaped layer: `curr`/`prevDisp` with the key-frame shortcut of      *)
(*                     animation.AnimDecoder.NextFrame / isKeyFrame,          *)
(*                     transcribed literally (one Step per NextFrame call,    *)
(*                     Reset as its own action).                              *)
(* Model checking: the shortcut machine shows and keeps the same canvases as  *)
(* the reference on every frame list of the bounded domain.  Generation:      *)
(* -simulate runs print the frame list (`hist`) for replay on the real code.  *)
EXTENDS Canvas, TLC, Json

CONSTANTS CW, CH, MAXLEN,
          PIXVALS,          \* pixel values a frame may be filled with
          OXS, OYS, WS, HS, \* frame rectangle alphabet
          ASSUME_WF,        \* TRUE: HasAlpha = FALSE => all frame pixels opaque (the flag comes from the bitstream)
          GEN,              \* TRUE: keep the history and print it (simulation), FALSE: model checking
          UNIFORM           \* TRUE: frames are filled with one pixel value (smaller alphabet for deeper exhaustive runs)

Pos == (0..(CW - 1)) \X (0..(CH - 1))
Canvas0 == [p \in Pos |-> Transparent]

VARIABLES n, ref, shown, curr, prevDisp, prevKey, prevDispose, prevRect, hist
vars == <<n, ref, shown, curr, prevDisp, prevKey, prevDispose, prevRect, hist>>

\* a frame filled with px1, except its top-left pixel which is px2 (so frames are not uniform)
Frames == [ox : OXS, oy : OYS, w : WS, h : HS, blend : BOOLEAN, dispose : BOOLEAN,
           hasAlpha : BOOLEAN, px1 : PIXVALS, px2 : PIXVALS]
Allowed(f) == UNIFORM => f.px1 = f.px2
WellFormed(f) == f.hasAlpha \/ (f.px1[4] = 255 /\ f.px2[4] = 255)
PixAt(f, p) == IF p[1] = f.ox /\ p[2] = f.oy THEN f.px2 ELSE f.px1

In(p, f) == InRect(p[1], p[2], f.ox, f.oy, f.w, f.h)
Composite(cv, f) == [p \in Pos |-> IF In(p, f) THEN (IF f.blend THEN Blend(PixAt(f, p), cv[p]) ELSE PixAt(f, p)) ELSE cv[p]]
Dispose(cv, f) == [p \in Pos |-> IF f.dispose /\ In(p, f) THEN Transparent ELSE cv[p]]

Full(r) == r[1] = 0 /\ r[2] = 0 /\ r[3] = CW /\ r[4] = CH
\* animation.AnimDecoder.isKeyFrame
IsKey(f) ==
  \/ n = 0
  \/ Full(<<f.ox, f.oy, f.w, f.h>>) /\ (~f.hasAlpha \/ ~f.blend)
  \/ prevDispose /\ (Full(prevRect) \/ prevKey)

Init == /\ n = 0 /\ ref = Canvas0 /\ shown = Canvas0 /\ curr = Canvas0 /\ prevDisp = Canvas0
        /\ prevKey = FALSE /\ prevDispose = FALSE /\ prevRect = <<0, 0, 0, 0>> /\ hist = <<>>

Step(f) ==
  /\ n < MAXLEN
  /\ (ASSUME_WF => WellFormed(f)) /\ Allowed(f)
  /\ LET key == IsKey(f)
         base == IF key THEN Canvas0 ELSE prevDisp
         c2 == Composite(base, f)
         r2 == Composite(ref, f)       \* ref holds the disposed reference canvas
     IN /\ curr' = c2 /\ prevDisp' = Dispose(c2, f)
        /\ shown' = r2 /\ ref' = Dispose(r2, f)
        /\ prevKey' = key
  /\ prevDispose' = f.dispose
  /\ prevRect' = <<f.ox, f.oy, f.w, f.h>>
  /\ n' = n + 1
  /\ hist' = IF GEN THEN Append(hist, f) ELSE hist

\* AnimDecoder.Reset: rewind; playing again must give the same pictures (the driver checks the replay)
Reset ==
  /\ n > 0 /\ ~GEN
  /\ n' = 0 /\ ref' = Canvas0 /\ shown' = Canvas0 /\ curr' = Canvas0 /\ prevDisp' = Canvas0
  /\ prevKey' = FALSE /\ prevDispose' = FALSE /\ prevRect' = <<0, 0, 0, 0>> /\ UNCHANGED hist

Next == (\E f \in Frames : Step(f)) \/ Reset
Spec == Init /\ [][Next]_vars

\* the contract: what NextFrame returns (curr) is the container's canvas (shown), and the canvas kept for the
\* next frame (prevDisp) is the container's disposed canvas (ref)
ShortcutIsReference == curr = shown /\ prevDisp = ref

\* generation: print the history when it is complete
Emit == (GEN /\ n = MAXLEN) => PrintT(<<"CASE", ToJson([cw |-> CW, ch |-> CH, frames |-> hist])>>)
=============================================================================
