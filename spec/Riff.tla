------------------------------- MODULE Riff -------------------------------
(* The WebP container (RIFF / VP8X / ANIM / ANMF / ALPH / metadata) as a     *)
(* STRICT reader over a byte sequence, written from the container            *)
(* specification.  It is the independent implementation used to validate     *)
(* every file the package writes (C02 C08 C14 C15 C16 C18 C20) and it is      *)
(* the reference the two real parsers are compared with.                     *)
(*                                                                           *)
(* Bytes are 1-indexed TLA+ sequences of 0..255.  Offsets kept in records    *)
(* are 0-based file offsets (as a Go slice index).  All loops are folds      *)
(* (TLC evaluates FoldLeft eagerly; deep RECURSIVE chains are slow).         *)
EXTENDS Integers, Sequences, SequencesExt, FiniteSets, TLC

B(bs, off)    == bs[off + 1]                       \* byte at 0-based offset
LE16(bs, off) == B(bs, off) + 256 * B(bs, off + 1)
LE24(bs, off) == LE16(bs, off) + 65536 * B(bs, off + 2)
\* 32-bit fields: TLC integers are 32-bit signed; anything >= 2^31 is reported as -1
LE32(bs, off) == IF B(bs, off + 3) >= 128 THEN -1
                 ELSE LE24(bs, off) + 16777216 * B(bs, off + 3)
Tag(bs, off)  == <<B(bs, off), B(bs, off + 1), B(bs, off + 2), B(bs, off + 3)>>

T_RIFF == <<82, 73, 70, 70>>
T_WEBP == <<87, 69, 66, 80>>
T_VP8  == <<86, 80, 56, 32>>
T_VP8L == <<86, 80, 56, 76>>
T_VP8X == <<86, 80, 56, 88>>
T_ALPH == <<65, 76, 80, 72>>
T_ANIM == <<65, 78, 73, 77>>
T_ANMF == <<65, 78, 77, 70>>
T_ICCP == <<73, 67, 67, 80>>
T_EXIF == <<69, 88, 73, 70>>
T_XMP  == <<88, 77, 80, 32>>

TagName(t) == CASE t = T_VP8  -> "VP8 "  [] t = T_VP8L -> "VP8L" [] t = T_VP8X -> "VP8X"
                [] t = T_ALPH -> "ALPH"  [] t = T_ANIM -> "ANIM" [] t = T_ANMF -> "ANMF"
                [] t = T_ICCP -> "ICCP"  [] t = T_EXIF -> "EXIF" [] t = T_XMP  -> "XMP "
                [] OTHER -> "????"

FLAG_ANIM == 2
FLAG_XMP  == 4
FLAG_EXIF == 8
FLAG_ALPHA == 16
FLAG_ICC  == 32
HasBit(v, bit) == (v \div bit) % 2 = 1

Fail(why) == [ok |-> FALSE, why |-> why]

(* ------------------------------------------------------------------------ *)
(* Chunk walk over the byte range [from, to) : a fold with a step budget.    *)
(* Result: [ok, why, list] where list is a sequence of                       *)
(*   [tag, off (of the payload), size, pad (0/1)]                            *)
(* Strict: every chunk header and padded payload lies inside the range, the  *)
(* pad byte is zero, and the walk ends exactly at `to`.                      *)
(* ------------------------------------------------------------------------ *)
WalkStep(bs, to, st, i) ==
    IF ~st.ok \/ st.pos = to THEN st
    ELSE IF st.pos + 8 > to THEN [st EXCEPT !.ok = FALSE, !.why = "chunk header crosses the end"]
    ELSE LET sz == LE32(bs, st.pos + 4)
             pad == IF sz >= 0 THEN sz % 2 ELSE 0
         IN IF sz < 0 THEN [st EXCEPT !.ok = FALSE, !.why = "chunk size >= 2^31"]
            ELSE IF sz > to - st.pos - 8 \/ sz + pad > to - st.pos - 8
                   THEN [st EXCEPT !.ok = FALSE, !.why = "chunk payload crosses the end"]
            ELSE IF pad = 1 /\ B(bs, st.pos + 8 + sz) # 0
                   THEN [st EXCEPT !.ok = FALSE, !.why = "non-zero pad byte"]
            ELSE [st EXCEPT !.pos = st.pos + 8 + sz + pad,
                            !.list = Append(st.list, [tag |-> Tag(bs, st.pos), off |-> st.pos + 8,
                                                      size |-> sz, pad |-> pad])]

Walk(bs, from, to) ==
  LET budget == ((to - from) \div 8) + 1
      r == FoldLeft(LAMBDA st, i : WalkStep(bs, to, st, i), [ok |-> TRUE, why |-> "", pos |-> from, list |-> <<>>], [i \in 1..budget |-> i])
  IN IF r.ok /\ r.pos # to THEN [r EXCEPT !.ok = FALSE, !.why = "walk did not end at the range end"] ELSE r

(* ------------------------------------------------------------------------ *)
(* Bitstream headers                                                         *)
(* ------------------------------------------------------------------------ *)
\* VP8 key-frame header: 3-byte frame tag, start code 9d 01 2a, 14-bit width/height (+2 scale bits)
Vp8Hdr(bs, off, size) ==
  IF size < 10 THEN Fail("VP8 payload shorter than 10 bytes")
  ELSE LET t == LE24(bs, off)
           key == t % 2 = 0
           show == HasBit(t, 16)
           p0 == t \div 32
       IN IF ~key THEN Fail("VP8: not a key frame")
          ELSE IF ~(B(bs, off + 3) = 157 /\ B(bs, off + 4) = 1 /\ B(bs, off + 5) = 42) THEN Fail("VP8: bad start code")
          ELSE IF p0 > size - 10 THEN Fail("VP8: partition 0 longer than the chunk")
          ELSE LET w == LE16(bs, off + 6) % 16384
                   h == LE16(bs, off + 8) % 16384
               IN IF w = 0 \/ h = 0 THEN Fail("VP8: zero dimension")
                  ELSE [ok |-> TRUE, why |-> "", w |-> w, h |-> h, alpha |-> FALSE, show |-> show, p0 |-> p0,
                        profile |-> (t \div 2) % 8]

\* VP8L header: 0x2f, 14 bits width-1, 14 bits height-1, alpha bit, 3-bit version (= 0)
Vp8lHdr(bs, off, size) ==
  IF size < 5 THEN Fail("VP8L payload shorter than 5 bytes")
  ELSE IF B(bs, off) # 47 THEN Fail("VP8L: bad signature")
  ELSE LET b1 == B(bs, off + 1) b2 == B(bs, off + 2) b3 == B(bs, off + 3) b4 == B(bs, off + 4)
           w == (b1 + 256 * (b2 % 64)) + 1
           h == ((b2 \div 64) + 4 * b3 + 1024 * (b4 % 16)) + 1
           alpha == HasBit(b4, 16)
           version == b4 \div 32
       IN IF version # 0 THEN Fail("VP8L: version not 0")
          ELSE [ok |-> TRUE, why |-> "", w |-> w, h |-> h, alpha |-> alpha, show |-> TRUE, p0 |-> 0, profile |-> 0]

\* ALPH header byte: bits 0-1 compression (0 raw, 1 lossless), 2-3 filter, 4-5 pre-processing, 6-7 reserved 0
AlphHdrOK(bs, off, size) ==
  /\ size >= 1
  /\ LET h == B(bs, off) IN (h % 4) \in {0, 1} /\ ((h \div 16) % 4) \in {0, 1} /\ h \div 64 = 0

(* An "image" = optional ALPH + VP8 | VP8L taken from a chunk list starting at index k.        *)
(* Returns [ok, why, next, alph, img, lossless, w, h, alpha] ; alph = <<off,size>> or <<0,-1>> *)
ReadImage(bs, list, k) ==
  IF k > Len(list) THEN Fail("image chunk missing")
  ELSE LET c == list[k] IN
    IF c.tag = T_ALPH THEN
         IF k + 1 > Len(list) \/ list[k + 1].tag # T_VP8 THEN Fail("ALPH not followed by VP8")
         ELSE IF ~AlphHdrOK(bs, c.off, c.size) THEN Fail("bad ALPH header byte")
         ELSE LET hd == Vp8Hdr(bs, list[k + 1].off, list[k + 1].size)
              IN IF ~hd.ok THEN hd
                 ELSE [ok |-> TRUE, why |-> "", next |-> k + 2, alph |-> <<c.off, c.size>>,
                       img |-> <<list[k + 1].off, list[k + 1].size>>, lossless |-> FALSE,
                       w |-> hd.w, h |-> hd.h, alpha |-> TRUE]
    ELSE IF c.tag = T_VP8 THEN
         LET hd == Vp8Hdr(bs, c.off, c.size)
         IN IF ~hd.ok THEN hd
            ELSE [ok |-> TRUE, why |-> "", next |-> k + 1, alph |-> <<0, -1>>, img |-> <<c.off, c.size>>,
                  lossless |-> FALSE, w |-> hd.w, h |-> hd.h, alpha |-> FALSE]
    ELSE IF c.tag = T_VP8L THEN
         LET hd == Vp8lHdr(bs, c.off, c.size)
         IN IF ~hd.ok THEN hd
            ELSE [ok |-> TRUE, why |-> "", next |-> k + 1, alph |-> <<0, -1>>, img |-> <<c.off, c.size>>,
                  lossless |-> TRUE, w |-> hd.w, h |-> hd.h, alpha |-> hd.alpha]
    ELSE Fail("expected ALPH/VP8/VP8L, found " \o TagName(c.tag))

NoMeta == <<0, -1>>

(* One ANMF chunk -> frame record *)
ReadANMF(bs, c, cw, ch) ==
  IF c.size < 16 THEN Fail("ANMF shorter than 16 bytes")
  ELSE LET x == 2 * LE24(bs, c.off)
           y == 2 * LE24(bs, c.off + 3)
           w == LE24(bs, c.off + 6) + 1
           h == LE24(bs, c.off + 9) + 1
           dur == LE24(bs, c.off + 12)
           fl == B(bs, c.off + 15)
           sub == Walk(bs, c.off + 16, c.off + c.size)
       IN IF fl \div 4 # 0 THEN Fail("ANMF reserved bits set")
          ELSE IF x + w > cw \/ y + h > ch THEN Fail("frame outside the canvas")
          ELSE IF ~sub.ok THEN Fail("ANMF sub-chunks: " \o sub.why)
          ELSE LET im == ReadImage(bs, sub.list, 1)
               IN IF ~im.ok THEN im
                  ELSE IF im.next # Len(sub.list) + 1 THEN Fail("unexpected chunk after the frame image")
                  ELSE IF im.w # w \/ im.h # h THEN Fail("ANMF size differs from bitstream size")
                  ELSE [ok |-> TRUE, why |-> "",
                        fr |-> [x |-> x, y |-> y, w |-> w, h |-> h, dur |-> dur,
                                dispose |-> fl % 2, noblend |-> (fl \div 2) % 2,
                                alph |-> im.alph, img |-> im.img, lossless |-> im.lossless, alpha |-> im.alpha]]

StillFrame(im) == [x |-> 0, y |-> 0, w |-> im.w, h |-> im.h, dur |-> 0, dispose |-> 0, noblend |-> 0,
                   alph |-> im.alph, img |-> im.img, lossless |-> im.lossless, alpha |-> im.alpha]

(* Extended file body, after the VP8X chunk: [ICCP] [ANIM ANMF+ | image] [EXIF] [XMP] *)
ParseExt(bs, list) ==
  LET x == list[1] IN
  IF x.size # 10 THEN Fail("VP8X size is not 10")
  ELSE LET flags == B(bs, x.off)
           cw == LE24(bs, x.off + 4) + 1
           ch == LE24(bs, x.off + 7) + 1
           anim == HasBit(flags, FLAG_ANIM)
           k1 == 2
           hasIcc == k1 <= Len(list) /\ list[k1].tag = T_ICCP
           k2 == IF hasIcc THEN k1 + 1 ELSE k1
       IN IF flags % 2 # 0 \/ flags \div 64 # 0 THEN Fail("VP8X reserved flag bits set")
          ELSE IF B(bs, x.off + 1) # 0 \/ B(bs, x.off + 2) # 0 \/ B(bs, x.off + 3) # 0 THEN Fail("VP8X reserved bytes set")
          ELSE IF hasIcc # HasBit(flags, FLAG_ICC) THEN Fail("ICC flag does not match the ICCP chunk")
          ELSE IF k2 > Len(list) THEN Fail("no image data")
          ELSE
            LET body ==
              IF anim THEN
                IF list[k2].tag # T_ANIM THEN Fail("animation flag set but ANIM chunk missing")
                ELSE IF list[k2].size # 6 THEN Fail("ANIM size is not 6")
                ELSE LET isF(i) == i <= Len(list) /\ list[i].tag = T_ANMF
                         nfr == Cardinality({i \in (k2 + 1)..Len(list) : \A j \in (k2 + 1)..i : isF(j)})
                         frs == [i \in 1..nfr |-> ReadANMF(bs, list[k2 + i], cw, ch)]
                         bad == {i \in 1..nfr : ~frs[i].ok}
                     IN IF nfr = 0 THEN Fail("animation without frames")
                        ELSE IF bad # {} THEN Fail("frame: " \o frs[CHOOSE i \in bad : TRUE].why)
                        ELSE [ok |-> TRUE, why |-> "", next |-> k2 + 1 + nfr,
                              frames |-> [i \in 1..nfr |-> frs[i].fr],
                              bg |-> <<B(bs, list[k2].off), B(bs, list[k2].off + 1), B(bs, list[k2].off + 2), B(bs, list[k2].off + 3)>>,
                              loop |-> LE16(bs, list[k2].off + 4)]
              ELSE
                LET im == ReadImage(bs, list, k2)
                IN IF ~im.ok THEN im
                   ELSE IF im.w # cw \/ im.h # ch THEN Fail("still image size differs from the canvas")
                   ELSE [ok |-> TRUE, why |-> "", next |-> im.next, frames |-> <<StillFrame(im)>>,
                         bg |-> <<0, 0, 0, 0>>, loop |-> 0]
            IN IF ~body.ok THEN body
               ELSE LET k3 == body.next
                        hasExif == k3 <= Len(list) /\ list[k3].tag = T_EXIF
                        k4 == IF hasExif THEN k3 + 1 ELSE k3
                        hasXmp == k4 <= Len(list) /\ list[k4].tag = T_XMP
                        k5 == IF hasXmp THEN k4 + 1 ELSE k4
                        anyAlpha == \E i \in 1..Len(body.frames) : body.frames[i].alpha
                    IN IF k5 # Len(list) + 1 THEN Fail("unexpected chunk " \o TagName(list[k5].tag) \o " (order/duplicate)")
                       ELSE IF hasExif # HasBit(flags, FLAG_EXIF) THEN Fail("EXIF flag does not match")
                       ELSE IF hasXmp # HasBit(flags, FLAG_XMP) THEN Fail("XMP flag does not match")
                       ELSE IF anyAlpha # HasBit(flags, FLAG_ALPHA) THEN Fail("alpha flag does not match the frames")
                       ELSE [ok |-> TRUE, why |-> "", fmt |-> "VP8X", cw |-> cw, ch |-> ch, flags |-> flags,
                             anim |-> anim, frames |-> body.frames, bg |-> body.bg, loop |-> body.loop,
                             icc |-> IF hasIcc THEN <<list[k1].off, list[k1].size>> ELSE NoMeta,
                             exif |-> IF hasExif THEN <<list[k3].off, list[k3].size>> ELSE NoMeta,
                             xmp |-> IF hasXmp THEN <<list[k4].off, list[k4].size>> ELSE NoMeta,
                             nchunks |-> Len(list)]

(* The strict reader. *)
StrictParse(bs) ==
  LET n == Len(bs) IN
  IF n < 20 THEN Fail("shorter than a RIFF header and one chunk header")
  ELSE IF Tag(bs, 0) # T_RIFF THEN Fail("no RIFF tag")
  ELSE IF Tag(bs, 8) # T_WEBP THEN Fail("no WEBP tag")
  ELSE IF LE32(bs, 4) # n - 8 THEN Fail("RIFF size is not file length - 8")
  ELSE LET wk == Walk(bs, 12, n) IN
    IF ~wk.ok THEN Fail(wk.why)
    ELSE LET list == wk.list first == list[1].tag IN
      IF first = T_VP8X THEN ParseExt(bs, list)
      ELSE IF first \in {T_VP8, T_VP8L} THEN
        IF Len(list) # 1 THEN Fail("simple file with more than one chunk")
        ELSE LET im == ReadImage(bs, list, 1)
             IN IF ~im.ok THEN im
                ELSE [ok |-> TRUE, why |-> "", fmt |-> TagName(first), cw |-> im.w, ch |-> im.h, flags |-> 0,
                      anim |-> FALSE, frames |-> <<StillFrame(im)>>, bg |-> <<0, 0, 0, 0>>, loop |-> 0,
                      icc |-> NoMeta, exif |-> NoMeta, xmp |-> NoMeta, nchunks |-> 1]
      ELSE Fail("first chunk is " \o TagName(first))

(* ------------------------------------------------------------------------ *)
(* Layout map: the byte extent of every syntax element of a (valid) file,    *)
(* used to classify fault positions (C17 truncation points, C05 mutations).  *)
(* Elements are [name, from, to) with 0-based offsets.                       *)
(* ------------------------------------------------------------------------ *)
El(name, from, to) == [name |-> name, from |-> from, to |-> to]
ChunkEls(bs, c, prefix) ==
  LET nm == prefix \o TagName(c.tag)
      body == IF c.tag = T_VP8 /\ c.size >= 10 THEN
                 LET p0 == LE24(bs, c.off) \div 32
                     e0 == IF c.off + 10 + p0 < c.off + c.size THEN c.off + 10 + p0 ELSE c.off + c.size
                 IN <<El(nm \o ":frame-header", c.off, c.off + 10), El(nm \o ":partition0", c.off + 10, e0)>>
                    \o (IF e0 < c.off + c.size THEN <<El(nm \o ":token-partitions", e0, c.off + c.size)>> ELSE <<>>)
              ELSE IF c.tag = T_VP8L /\ c.size >= 5 THEN
                 <<El(nm \o ":header", c.off, c.off + 5)>>
                 \o (IF c.size > 5 THEN <<El(nm \o ":data", c.off + 5, c.off + c.size)>> ELSE <<>>)
              ELSE IF c.tag = T_ALPH /\ c.size >= 1 THEN
                 <<El(nm \o ":header", c.off, c.off + 1)>>
                 \o (IF c.size > 1 THEN <<El(nm \o ":data", c.off + 1, c.off + c.size)>> ELSE <<>>)
              ELSE IF c.size > 0 THEN <<El(nm \o ":payload", c.off, c.off + c.size)>> ELSE <<>>
  IN <<El(nm \o ":chunk-header", c.off - 8, c.off)>> \o body
     \o (IF c.pad = 1 THEN <<El(nm \o ":pad", c.off + c.size, c.off + c.size + 1)>> ELSE <<>>)

LayoutMap(bs) ==
  LET wk == Walk(bs, 12, Len(bs))
      one(c) == IF c.tag = T_ANMF /\ c.size >= 16
                  THEN LET sub == Walk(bs, c.off + 16, c.off + c.size)
                       IN <<El("ANMF:chunk-header", c.off - 8, c.off), El("ANMF:frame-header", c.off, c.off + 16)>>
                          \o (IF sub.ok THEN FoldLeft(LAMBDA acc, sc : acc \o ChunkEls(bs, sc, "ANMF/"), <<>>, sub.list)
                               ELSE <<El("ANMF:payload", c.off + 16, c.off + c.size)>>)
                  ELSE ChunkEls(bs, c, "")
  IN IF ~wk.ok THEN <<>>
     ELSE <<El("RIFF:header", 0, 12)>> \o FoldLeft(LAMBDA acc, c : acc \o one(c), <<>>, wk.list)

Slice(bs, od) == IF od[2] <= 0 THEN <<>> ELSE SubSeq(bs, od[1] + 1, od[1] + od[2])
=============================================================================
