------------------------------- MODULE RiffW -------------------------------
(* A container WRITER in TLA+: Layout(d) turns an abstract container           *)
(* description into bytes (RIFF size, chunk headers, padding, VP8X flags and   *)
(* canvas, ANIM, ANMF headers with halved offsets, ALPH + VP8 / VP8L           *)
(* sub-chunks, metadata in the prescribed order).  Model-checked: the strict   *)
(* reader applied to the writer's output accepts it and returns exactly the    *)
(* description (reader o writer = identity) for every description of the       *)
(* bounded domain, and rejects every file whose RIFF size field is off by      *)
(* one.  The written files are also replayed on the real parsers (C14).        *)
EXTENDS Riff, Json

CONSTANTS MAXFRAMES

LE(v, n) == [i \in 1..n |-> (v \div (256 ^ (i - 1))) % 256]
Pad(n) == IF n % 2 = 1 THEN <<0>> ELSE <<>>
Chunk(tag, payload) == tag \o LE(Len(payload), 4) \o payload \o Pad(Len(payload))

\* minimal bitstream payloads with valid headers (the strict reader checks headers only)
Vp8Payload(w, h, extra) ==
  LET p0 == Len(extra)                      \* partition 0 = the extra bytes
      tag == 16 + 32 * p0                   \* key frame, show_frame
  IN <<tag % 256, (tag \div 256) % 256, tag \div 65536, 157, 1, 42, w % 256, w \div 256, h % 256, h \div 256>> \o extra
Vp8lPayload(w, h, alpha, extra) ==
  LET v1 == (w - 1) + 16384 * ((h - 1) % 4)            \* low 16 bits: 14 bits width-1, 2 low bits of height-1
      hi == (h - 1) \div 4                              \* remaining 12 bits of height-1
      b3 == hi % 256
      b4 == (hi \div 256) + 16 * (IF alpha THEN 1 ELSE 0)
  IN <<47, v1 % 256, v1 \div 256, b3, b4>> \o extra

\* frame description: [lossless, alpha (VP8L alpha bit), alph (<<>> = none, else ALPH payload), w, h, x, y (even), dur, dispose, noblend, extra]
FramePayload(f) == IF f.lossless THEN Vp8lPayload(f.w, f.h, f.alpha, f.extra) ELSE Vp8Payload(f.w, f.h, f.extra)
ImageChunks(f) ==
  (IF ~f.lossless /\ f.alph # <<>> THEN Chunk(T_ALPH, f.alph) ELSE <<>>)
  \o Chunk(IF f.lossless THEN T_VP8L ELSE T_VP8, FramePayload(f))
FrameAlpha(f) == IF f.lossless THEN f.alpha ELSE f.alph # <<>>

\* container description: [anim, cw, ch, loop, bg (4 bytes), icc, exif, xmp (<<-1>> = absent), frames]
AbsentB == <<-1>>
NeedsX(d) == d.anim \/ d.icc # AbsentB \/ d.exif # AbsentB \/ d.xmp # AbsentB \/ (\E i \in 1..Len(d.frames) : ~d.frames[i].lossless /\ d.frames[i].alph # <<>>)
Bit(c, v) == IF c THEN v ELSE 0
Layout(d) ==
  LET body ==
        IF ~NeedsX(d) THEN ImageChunks(d.frames[1])
        ELSE LET flags == Bit(d.anim, 2) + Bit(d.xmp # AbsentB, 4) + Bit(d.exif # AbsentB, 8)
                          + Bit(\E i \in 1..Len(d.frames) : FrameAlpha(d.frames[i]), 16) + Bit(d.icc # AbsentB, 32)
                 anmf(f) == Chunk(T_ANMF, LE(f.x \div 2, 3) \o LE(f.y \div 2, 3) \o LE(f.w - 1, 3) \o LE(f.h - 1, 3) \o LE(f.dur, 3)
                                          \o <<f.dispose + 2 * f.noblend>> \o ImageChunks(f))
             IN Chunk(T_VP8X, <<flags, 0, 0, 0>> \o LE(d.cw - 1, 3) \o LE(d.ch - 1, 3))
                \o (IF d.icc # AbsentB THEN Chunk(T_ICCP, d.icc) ELSE <<>>)
                \o (IF d.anim THEN Chunk(T_ANIM, d.bg \o LE(d.loop, 2))
                                   \o FoldLeft(LAMBDA acc, f : acc \o anmf(f), <<>>, d.frames)
                    ELSE ImageChunks(d.frames[1]))
                \o (IF d.exif # AbsentB THEN Chunk(T_EXIF, d.exif) ELSE <<>>)
                \o (IF d.xmp # AbsentB THEN Chunk(T_XMP, d.xmp) ELSE <<>>)
  IN T_RIFF \o LE(4 + Len(body), 4) \o T_WEBP \o body

(* ---------------- bounded domain of descriptions ---------------- *)
Extras == {<<>>, <<9>>, <<7, 8>>}                      \* odd / even payload lengths
Alphs == {<<>>, <<0, 200>>, <<0, 1, 2>>}               \* none, even, odd (header byte 0 = raw, no filter)
Metas == {AbsentB, <<>>, <<5>>, <<1, 2>>}
StillFrames == [lossless : BOOLEAN, alpha : BOOLEAN, alph : Alphs, w : {1, 300}, h : {1, 4465},
                x : {0}, y : {0}, dur : {0}, dispose : {0}, noblend : {0}, extra : Extras]
AnimFrames == [lossless : BOOLEAN, alpha : BOOLEAN, alph : Alphs, w : {2, 5}, h : {3},
               x : {0, 2}, y : {0, 4}, dur : {0, 70001}, dispose : {0, 1}, noblend : {0, 1}, extra : {<<>>, <<9>>}]
FrameOK(f) == (f.lossless => f.alph = <<>>) /\ (~f.lossless => ~f.alpha)

VARIABLES d, bytes
vars == <<d, bytes>>
\* still descriptions, and animations grown frame by frame
InitStill == \E f \in StillFrames, ic \in Metas, ex \in Metas, xm \in {AbsentB, <<3>>} :
               /\ FrameOK(f)
               /\ d = [anim |-> FALSE, cw |-> f.w, ch |-> f.h, loop |-> 0, bg |-> <<0, 0, 0, 0>>, icc |-> ic, exif |-> ex, xmp |-> xm, frames |-> <<f>>]
InitAnim == \E f \in AnimFrames, lp \in {0, 258}, ex \in {AbsentB, <<1>>} :
               /\ FrameOK(f)
               /\ d = [anim |-> TRUE, cw |-> 9, ch |-> 7, loop |-> lp, bg |-> <<1, 2, 3, 255>>, icc |-> AbsentB, exif |-> ex, xmp |-> AbsentB, frames |-> <<f>>]
Init == (InitStill \/ InitAnim) /\ bytes = <<>>
AddFrame == /\ d.anim /\ bytes = <<>> /\ Len(d.frames) < MAXFRAMES
            /\ \E f \in AnimFrames : FrameOK(f) /\ d' = [d EXCEPT !.frames = Append(@, f)]
            /\ UNCHANGED bytes
Write == /\ bytes = <<>> /\ bytes' = Layout(d) /\ UNCHANGED d
Next == AddFrame \/ Write
Spec == Init /\ [][Next]_vars

(* ---------------- reader o writer = identity ---------------- *)
FrameBack(bs, pf, f) ==
  /\ pf.w = f.w /\ pf.h = f.h /\ pf.lossless = f.lossless /\ pf.alpha = FrameAlpha(f)
  /\ Slice(bs, pf.img) = FramePayload(f)
  /\ (IF ~f.lossless /\ f.alph # <<>> THEN pf.alph # NoMeta /\ Slice(bs, pf.alph) = f.alph ELSE pf.alph = NoMeta)
  /\ (d.anim => pf.x = f.x /\ pf.y = f.y /\ pf.dur = f.dur /\ pf.dispose = f.dispose /\ pf.noblend = f.noblend)
MetaBack(bs, od, m) == IF m = AbsentB THEN od = NoMeta ELSE od # NoMeta /\ Slice(bs, od) = m
RoundTrip ==
  bytes # <<>> =>
    LET p == StrictParse(bytes) IN
    /\ p.ok
    /\ p.cw = d.cw /\ p.ch = d.ch /\ p.anim = d.anim
    /\ Len(p.frames) = Len(d.frames)
    /\ \A i \in 1..Len(d.frames) : FrameBack(bytes, p.frames[i], d.frames[i])
    /\ (d.anim => p.loop = d.loop /\ p.bg = d.bg)
    /\ MetaBack(bytes, p.icc, d.icc) /\ MetaBack(bytes, p.exif, d.exif) /\ MetaBack(bytes, p.xmp, d.xmp)
\* strictness: a RIFF size field that is off by one is never accepted
SizeStrict ==
  bytes # <<>> => ~StrictParse([bytes EXCEPT ![5] = (@ + 1) % 256]).ok
Emit == bytes # <<>> => PrintT(<<"CASE", ToJson([d |-> d, bytes |-> bytes])>>)
=============================================================================
