------------------------------ MODULE TVFiles ------------------------------
(* Trace validation of FILES: every line of trace.ndjson is one file written *)
(* by the real code (webp.Encode, mux.Muxer.Assemble, animation encoder) or   *)
(* hand-assembled, together with a list of expectation records:               *)
(*   src = "input"  : what was put in (the contract)                          *)
(*   src = "demux" / "parser" / "anim" : what a real parser reported          *)
(* The strict reader must accept the file (unless must = "reject") and every  *)
(* expectation record must equal the strict reader's view.  Lines are         *)
(* independent: a failing line is recorded in `bad` and the machine moves on. *)
EXTENDS Riff, Json, IOUtils

Trace == ndJsonDeserialize("trace.ndjson")

VARIABLES l, cur, bad
vars == <<l, cur, bad>>

Absent == <<-1>>
SkipB  == <<-2>>

MetaEq(bs, od, e) ==
  IF e = SkipB THEN TRUE
  ELSE IF e = Absent THEN od = NoMeta
  ELSE od # NoMeta /\ Slice(bs, od) = e

FrameMismatch(bs, f, e) ==
  IF e.x >= 0 /\ (f.x # e.x \/ f.y # e.y) THEN "offset"
  ELSE IF e.w >= 0 /\ (f.w # e.w \/ f.h # e.h) THEN "frame size"
  ELSE IF e.dur >= 0 /\ f.dur # e.dur THEN "duration"
  ELSE IF e.dispose >= 0 /\ f.dispose # e.dispose THEN "dispose"
  ELSE IF e.noblend >= 0 /\ f.noblend # e.noblend THEN "blend"
  ELSE IF e.img # SkipB /\ Slice(bs, f.img) # e.img THEN "bitstream bytes"
  ELSE IF e.alph # SkipB /\ ~(IF e.alph = Absent THEN f.alph = NoMeta ELSE f.alph # NoMeta /\ Slice(bs, f.alph) = e.alph) THEN "alpha bytes"
  ELSE IF e.falpha >= 0 /\ (IF f.alpha THEN 1 ELSE 0) # e.falpha THEN "frame alpha flag"
  ELSE ""

Mismatch(bs, p, e) ==
  IF e.w >= 0 /\ (p.cw # e.w \/ p.ch # e.h) THEN e.src \o ": canvas size"
  ELSE IF e.anim >= 0 /\ (IF p.anim THEN 1 ELSE 0) # e.anim THEN e.src \o ": animation flag"
  ELSE IF e.alpha = 1 /\ ~HasBit(p.flags, FLAG_ALPHA) /\ ~(p.fmt = "VP8L" /\ p.frames[1].alpha) THEN e.src \o ": alpha not announced"
  ELSE IF e.alpha = 0 /\ (\E i \in 1..Len(p.frames) : p.frames[i].alph # NoMeta) THEN e.src \o ": ALPH chunk for an opaque picture"
  ELSE IF e.halpha >= 0 /\ (IF HasBit(p.flags, FLAG_ALPHA) \/ (p.fmt = "VP8L" /\ p.frames[1].alpha) THEN 1 ELSE 0) # e.halpha THEN e.src \o ": alpha feature"
  ELSE IF e.loop >= 0 /\ p.anim /\ p.loop # e.loop THEN e.src \o ": loop count"
  ELSE IF e.bg # <<>> /\ p.anim /\ p.bg # e.bg THEN e.src \o ": background colour"
  ELSE IF ~MetaEq(bs, p.icc, e.icc) THEN e.src \o ": ICC"
  ELSE IF ~MetaEq(bs, p.exif, e.exif) THEN e.src \o ": EXIF"
  ELSE IF ~MetaEq(bs, p.xmp, e.xmp) THEN e.src \o ": XMP"
  ELSE IF e.nframes >= 0 /\ Len(p.frames) # e.nframes THEN e.src \o ": frame count"
  ELSE IF e.frames # <<>> /\ Len(e.frames) # Len(p.frames) THEN e.src \o ": frame list length"
  ELSE IF e.frames # <<>> THEN
         LET mm == [i \in 1..Len(p.frames) |-> FrameMismatch(bs, p.frames[i], e.frames[i])]
             badi == {i \in 1..Len(p.frames) : mm[i] # ""}
         IN IF badi = {} THEN "" ELSE LET i == CHOOSE i \in badi : \A j \in badi : i <= j
                                      IN e.src \o ": frame " \o ToString(i) \o " " \o mm[i]
  ELSE ""

Judge(line, p) ==
  IF line.must = "reject" THEN (IF p.ok THEN "strict reader accepts a file that must be rejected" ELSE "")
  ELSE IF ~p.ok THEN "strict reader rejects: " \o p.why
  ELSE LET ms == [i \in 1..Len(line.x) |-> Mismatch(line.bytes, p, line.x[i])]
           bi == {i \in 1..Len(line.x) : ms[i] # ""}
       IN IF bi = {} THEN "" ELSE ms[CHOOSE i \in bi : \A j \in bi : i <= j]

Init == l = 1 /\ cur = [ok |-> FALSE, why |-> "init"] /\ bad = <<>>

\* two steps per line so that the parse is evaluated once (TLC evaluates LETs by name)
ParseLine == /\ l <= Len(Trace) /\ cur.why = "init"
             /\ cur' = StrictParse(Trace[l].bytes)
             /\ UNCHANGED <<l, bad>>
JudgeLine == /\ l <= Len(Trace) /\ cur.why # "init"
             /\ LET j == Judge(Trace[l], cur)
                IN bad' = IF j = "" THEN bad ELSE Append(bad, [id |-> Trace[l].id, why |-> j])
             /\ cur' = [ok |-> FALSE, why |-> "init"]
             /\ l' = l + 1
Next == ParseLine \/ JudgeLine
Spec == Init /\ [][Next]_vars

\* printed exactly once, in the final state
Verdict == l <= Len(Trace) \/ PrintT(<<"VERDICT", ToJson([n |-> Len(Trace), bad |-> bad])>>)
=============================================================================
