SPECIFICATION Spec
CONSTANTS
 W = 3
 H = 3
 NW = 2
 WAITAHEAD = 2
 SIGLOCK = FALSE
INVARIANT Safe
PROPERTY Termination
