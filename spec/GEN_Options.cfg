SPECIFICATION Spec
INVARIANTS ResolveIdempotent ValidStable Emit
CHECK_DEADLOCK FALSE
