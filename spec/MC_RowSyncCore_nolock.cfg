SPECIFICATION Spec
CONSTANTS
  WIDTH = 3
  SIGLOCK = FALSE
  NeedDom <- MCNeedDom
INVARIANTS NoLostWakeup
CHECK_DEADLOCK FALSE
