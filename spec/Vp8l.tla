-------------------------------- MODULE Vp8l --------------------------------
(* The VP8L lossless bitstream as a READER, written from the WebP lossless    *)
(* bitstream specification: LSB-first bit reader, canonical prefix codes       *)
(* (simple and normal descriptions, code-length code with repeat codes and     *)
(* max_symbol), meta prefix image, LZ77 backward references with the 120-entry *)
(* distance map, colour cache, transform list with working width, and the four *)
(* inverse transforms (14 predictors with their border rules, cross-colour,    *)
(* subtract-green, colour indexing with 1/2/4/8-bit packing).                  *)
(* It is the independent decoder for C01, C02, C03, C07, C08.  A pixel is      *)
(* <<a, r, g, b>>.  All loops are folds (eager in TLC).                        *)
EXTENDS Integers, Sequences, SequencesExt, TLC, FiniteSets
Bit(b, p) == IF (p \div 8) + 1 > Len(b) THEN 0 ELSE (b[(p \div 8) + 1] \div (2 ^ (p % 8))) % 2
Bits(b, p, n) == FoldLeft(LAMBDA acc, k : acc + Bit(b, p + k) * (2 ^ k), 0, [k \in 1..n |-> k - 1])
CeilDiv(a, sh) == (a + (2 ^ sh) - 1) \div (2 ^ sh)

\* canonical prefix code from a sequence of lengths (index = symbol + 1)
MkCode(lens) ==
  LET syms == {s \in 1..Len(lens) : lens[s] > 0}
  IN [n |-> Cardinality(syms),
      sorted |-> SortSeq(SetToSeq(syms), LAMBDA a, c : lens[a] < lens[c] \/ (lens[a] = lens[c] /\ a < c)),
      cnt |-> [len \in 1..15 |-> Cardinality({s \in syms : lens[s] = len})]]

ReadSym(b, p, c) ==
  IF c.n = 0 THEN [sym |-> -1, p |-> p]
  ELSE IF c.n = 1 THEN [sym |-> c.sorted[1] - 1, p |-> p]
  ELSE LET Step(st, len) ==
             IF st.done THEN st
             ELSE LET code == st.code + Bit(b, st.p)
                      count == c.cnt[len]
                  IN IF code - count < st.first
                       THEN [st EXCEPT !.done = TRUE, !.sym = c.sorted[st.index + (code - st.first) + 1] - 1, !.p = st.p + 1]
                       ELSE [st EXCEPT !.index = st.index + count, !.first = (st.first + count) * 2,
                                       !.code = code * 2, !.p = st.p + 1]
           r == FoldLeft(Step, [done |-> FALSE, sym |-> -1, code |-> 0, first |-> 0, index |-> 0, p |-> p],
                         [len \in 1..15 |-> len])
       IN [sym |-> r.sym, p |-> r.p]

Order == <<17,18,0,1,2,3,4,5,16,6,7,8,9,10,11,12,13,14,15>>

ReadCode(b, p0, A) ==
  IF Bit(b, p0) = 1
  THEN LET nsym == Bit(b, p0 + 1) + 1
           w0 == IF Bit(b, p0 + 2) = 1 THEN 8 ELSE 1
           s0 == Bits(b, p0 + 3, w0)
           p1 == p0 + 3 + w0
           s1 == Bits(b, p1, 8)
       IN [code |-> MkCode([s \in 1..A |-> IF s - 1 = s0 \/ (nsym = 2 /\ s - 1 = s1) THEN 1 ELSE 0]),
           p |-> IF nsym = 2 THEN p1 + 8 ELSE p1]
  ELSE LET num == 4 + Bits(b, p0 + 1, 4)
           cll == [s \in 1..19 |->
                     LET idxs == {i \in 1..num : Order[i] = s - 1}
                     IN IF idxs = {} THEN 0 ELSE Bits(b, p0 + 5 + 3 * ((CHOOSE i \in idxs : TRUE) - 1), 3)]
           p1 == p0 + 5 + 3 * num
           clcode == MkCode(cll)
           useMax == Bit(b, p1)
           lnb == 2 + 2 * Bits(b, p1 + 1, 3)
           maxSym == IF useMax = 1 THEN 2 + Bits(b, p1 + 4, lnb) ELSE A
           p2 == IF useMax = 1 THEN p1 + 4 + lnb ELSE p1 + 1
           Step(st, k) ==
             IF st.i >= A \/ st.rem = 0 THEN st
             ELSE LET r == ReadSym(b, st.p, clcode)
                  IN IF r.sym < 16
                       THEN [p |-> r.p, i |-> st.i + 1, prev |-> IF r.sym # 0 THEN r.sym ELSE st.prev,
                             rem |-> st.rem - 1, lens |-> Append(st.lens, r.sym)]
                       ELSE LET eb == IF r.sym = 16 THEN 2 ELSE IF r.sym = 17 THEN 3 ELSE 7
                                off == IF r.sym = 18 THEN 11 ELSE 3
                                rep == Bits(b, r.p, eb) + off
                                v == IF r.sym = 16 THEN st.prev ELSE 0
                            IN [p |-> r.p + eb, i |-> st.i + rep, prev |-> st.prev, rem |-> st.rem - 1,
                                lens |-> st.lens \o [j \in 1..rep |-> v]]
           fin == FoldLeft(Step, [p |-> p2, i |-> 0, prev |-> 8, rem |-> maxSym, lens |-> <<>>], [k \in 1..A |-> k])
       IN [code |-> MkCode([s \in 1..A |-> IF s <= Len(fin.lens) THEN fin.lens[s] ELSE 0]), p |-> fin.p]

\* value of a length/distance prefix symbol
PrefixVal(b, p, sym) ==
  IF sym < 4 THEN [v |-> sym + 1, p |-> p]
  ELSE LET eb == (sym - 2) \div 2
           off == (2 + (sym % 2)) * (2 ^ eb)
       IN [v |-> off + Bits(b, p, eb) + 1, p |-> p + eb]

DistMap == << <<0,1>>,<<1,0>>,<<1,1>>,<<-1,1>>,<<0,2>>,<<2,0>>,<<1,2>>,<<-1,2>>,<<2,1>>,<<-2,1>>,<<2,2>>,<<-2,2>>,
  <<0,3>>,<<3,0>>,<<1,3>>,<<-1,3>>,<<3,1>>,<<-3,1>>,<<2,3>>,<<-2,3>>,<<3,2>>,<<-3,2>>,<<0,4>>,<<4,0>>,<<1,4>>,<<-1,4>>,
  <<4,1>>,<<-4,1>>,<<3,3>>,<<-3,3>>,<<2,4>>,<<-2,4>>,<<4,2>>,<<-4,2>>,<<0,5>>,<<3,4>>,<<-3,4>>,<<4,3>>,<<-4,3>>,<<5,0>>,
  <<1,5>>,<<-1,5>>,<<5,1>>,<<-5,1>>,<<2,5>>,<<-2,5>>,<<5,2>>,<<-5,2>>,<<4,4>>,<<-4,4>>,<<3,5>>,<<-3,5>>,<<5,3>>,<<-5,3>>,
  <<0,6>>,<<6,0>>,<<1,6>>,<<-1,6>>,<<6,1>>,<<-6,1>>,<<2,6>>,<<-2,6>>,<<6,2>>,<<-6,2>>,<<4,5>>,<<-4,5>>,<<5,4>>,<<-5,4>>,
  <<3,6>>,<<-3,6>>,<<6,3>>,<<-6,3>>,<<0,7>>,<<7,0>>,<<1,7>>,<<-1,7>>,<<5,5>>,<<-5,5>>,<<7,1>>,<<-7,1>>,<<4,6>>,<<-4,6>>,
  <<6,4>>,<<-6,4>>,<<2,7>>,<<-2,7>>,<<7,2>>,<<-7,2>>,<<3,7>>,<<-3,7>>,<<7,3>>,<<-7,3>>,<<5,6>>,<<-5,6>>,<<6,5>>,<<-6,5>>,
  <<8,0>>,<<4,7>>,<<-4,7>>,<<7,4>>,<<-7,4>>,<<8,1>>,<<8,2>>,<<6,6>>,<<-6,6>>,<<8,3>>,<<5,7>>,<<-5,7>>,<<7,5>>,<<-7,5>>,
  <<8,4>>,<<6,7>>,<<-6,7>>,<<7,6>>,<<-7,6>>,<<8,5>>,<<7,7>>,<<-7,7>>,<<8,6>>,<<8,7>> >>
PlaneDist(xs, code) ==
  IF code > 120 THEN code - 120
  ELSE LET d == DistMap[code][1] + DistMap[code][2] * xs IN IF d < 1 THEN 1 ELSE d

Alphabets == <<280, 256, 256, 256, 40>>
ReadGroup(b, p0, cbits) ==
  FoldLeft(LAMBDA st, j : LET r == ReadCode(b, st.p, Alphabets[j] + (IF j = 1 /\ cbits > 0 THEN 2 ^ cbits ELSE 0)) IN [p |-> r.p, codes |-> Append(st.codes, r.code)],
           [p |-> p0, codes |-> <<>>], <<1,2,3,4,5>>)

\* entropy-coded pixels: returns [ok, p, pix] ; groups: sequence of 5-code groups; gidx(pos) group index (1-based)
\* colour-cache hash: (0x1e35a7bd * argb) mod 2^32 >> (32 - bits), in 16-bit limbs (TLC ints are 32-bit)
MulLo16(a, k) == ((((a \div 256) * k) % 256) * 256 + (a % 256) * k) % 65536       \* (a*k) mod 2^16, a,k < 2^16
MulHi16(a, k) == LET t == (a \div 256) * k  u == (a % 256) * k                     \* floor(a*k / 2^16)
                 IN (t \div 256) + (((t % 256) * 256 + u) \div 65536)
CacheKey(px, bits) ==
  LET hi == px[1] * 256 + px[2]  lo == px[3] * 256 + px[4]     \* a,r | g,b
      Khi == 7733  Klo == 42941
      H16 == (MulHi16(lo, Klo) + MulLo16(hi, Klo) + MulLo16(lo, Khi)) % 65536
      L16 == MulLo16(lo, Klo)
  IN IF bits <= 16 THEN H16 \div (2 ^ (16 - bits)) ELSE H16 * (2 ^ (bits - 16)) + L16 \div (2 ^ (32 - bits))

DecodePixels(b, p0, xs, ys, groups, GIdx(_), cbits) ==
  LET N == xs * ys
      CSize == IF cbits = 0 THEN 0 ELSE 2 ^ cbits
      Ins(c, px) == IF cbits = 0 THEN c ELSE [c EXCEPT ![CacheKey(px, cbits)] = px]
      InsAll(c, sq) == FoldLeft(Ins, c, sq)
      Step(st, k) ==
        IF ~st.ok \/ Len(st.pix) >= N THEN st
        ELSE LET pos == Len(st.pix)
                 g == groups[GIdx(pos)]
                 s == ReadSym(b, st.p, g[1])
             IN IF s.sym < 0 THEN [st EXCEPT !.ok = FALSE]
                ELSE IF s.sym < 256
                THEN LET r == ReadSym(b, s.p, g[2])  bl == ReadSym(b, r.p, g[3])  a == ReadSym(b, bl.p, g[4])
                         px == <<a.sym, r.sym, s.sym, bl.sym>>
                     IN [ok |-> TRUE, p |-> a.p, pix |-> Append(st.pix, px), cache |-> Ins(st.cache, px)]
                ELSE IF s.sym < 280
                THEN LET ln == PrefixVal(b, s.p, s.sym - 256)
                         ds == ReadSym(b, ln.p, g[5])
                         dc == PrefixVal(b, ds.p, ds.sym)
                         dist == PlaneDist(xs, dc.v)
                     IN IF dist > pos \/ pos + ln.v > N THEN [st EXCEPT !.ok = FALSE]
                        ELSE LET cp == [k2 \in 1..ln.v |-> st.pix[pos - dist + ((k2 - 1) % dist) + 1]]
                             IN [ok |-> TRUE, p |-> dc.p, pix |-> st.pix \o cp, cache |-> InsAll(st.cache, cp)]
                ELSE IF s.sym < 280 + CSize
                THEN LET px == st.cache[s.sym - 280]
                     IN [ok |-> TRUE, p |-> s.p, pix |-> Append(st.pix, px), cache |-> st.cache]
                ELSE [st EXCEPT !.ok = FALSE]
  IN FoldLeft(Step, [ok |-> TRUE, p |-> p0, pix |-> <<>>, cache |-> [i \in 0..(CSize - 1) |-> <<0,0,0,0>>]], [k \in 1..N |-> k])

\* sub-image (no transforms, no meta): returns [ok, p, pix]
SubImage(b, p0, xs, ys) ==
  LET cb == IF Bit(b, p0) = 1 THEN Bits(b, p0 + 1, 4) ELSE 0
      p1 == IF Bit(b, p0) = 1 THEN p0 + 5 ELSE p0 + 1
      gr == ReadGroup(b, p1, cb)
  IN DecodePixels(b, gr.p, xs, ys, <<gr.codes>>, LAMBDA pos : 1, cb)

\* main ARGB image after the transform list: cache bits, optional meta image, groups, pixels
MainImage(b, p0, w, h) ==
  LET cb == IF Bit(b, p0) = 1 THEN Bits(b, p0 + 1, 4) ELSE 0
      p1 == IF Bit(b, p0) = 1 THEN p0 + 5 ELSE p0 + 1
  IN IF Bit(b, p1) = 0
       THEN LET gr == ReadGroup(b, p1 + 1, cb)
            IN DecodePixels(b, gr.p, w, h, <<gr.codes>>, LAMBDA pos : 1, cb)
       ELSE LET prec == Bits(b, p1 + 1, 3) + 2
                mw == CeilDiv(w, prec)  mh == CeilDiv(h, prec)
                sub == SubImage(b, p1 + 4, mw, mh)
                gi == [i \in 1..(mw * mh) |-> sub.pix[i][2] * 256 + sub.pix[i][3]]
                ng == 1 + FoldLeft(LAMBDA m, i : IF gi[i] > m THEN gi[i] ELSE m, 0, [i \in 1..(mw*mh) |-> i])
                grs == FoldLeft(LAMBDA st, j : LET g == ReadGroup(b, st.p, cb) IN [p |-> g.p, gs |-> Append(st.gs, g.codes)],
                                [p |-> sub.p, gs |-> <<>>], [j \in 1..ng |-> j])
            IN DecodePixels(b, grs.p, w, h, grs.gs,
                            LAMBDA pos : gi[((pos \div w) \div (2 ^ prec)) * mw + ((pos % w) \div (2 ^ prec)) + 1] + 1, cb)

\* ---------------- transforms ----------------
Sgn8(v) == IF v >= 128 THEN v - 256 ELSE v
Delta(t, c) == (Sgn8(t) * Sgn8(c)) \div 32                   \* arithmetic shift right by 5 (floor)
Avg2(x, y) == [c \in 1..4 |-> (x[c] + y[c]) \div 2]
Abs(v) == IF v < 0 THEN -v ELSE v
Clamp(v) == IF v < 0 THEN 0 ELSE IF v > 255 THEN 255 ELSE v
TruncHalf(d) == IF d >= 0 THEN d \div 2 ELSE -((-d) \div 2)  \* C division truncates toward zero
Select(L, T, TL) ==
  LET pL == Abs(T[1]-TL[1]) + Abs(T[2]-TL[2]) + Abs(T[3]-TL[3]) + Abs(T[4]-TL[4])
      pT == Abs(L[1]-TL[1]) + Abs(L[2]-TL[2]) + Abs(L[3]-TL[3]) + Abs(L[4]-TL[4])
  IN IF pL < pT THEN L ELSE T
Black == <<255, 0, 0, 0>>
Pred(mode, L, T, TR, TL) ==
  CASE mode = 0 -> Black [] mode = 1 -> L [] mode = 2 -> T [] mode = 3 -> TR [] mode = 4 -> TL
    [] mode = 5 -> Avg2(Avg2(L, TR), T) [] mode = 6 -> Avg2(L, TL) [] mode = 7 -> Avg2(L, T)
    [] mode = 8 -> Avg2(TL, T) [] mode = 9 -> Avg2(T, TR) [] mode = 10 -> Avg2(Avg2(L, TL), Avg2(T, TR))
    [] mode = 11 -> Select(L, T, TL)
    [] mode = 12 -> [c \in 1..4 |-> Clamp(L[c] + T[c] - TL[c])]
    [] mode = 13 -> LET A == Avg2(L, T) IN [c \in 1..4 |-> Clamp(A[c] + TruncHalf(A[c] - TL[c]))]
    [] OTHER -> Black
AddPx(x, y) == [c \in 1..4 |-> (x[c] + y[c]) % 256]

InvPredictor(t, pix, h) ==
  LET W == t.xs  tw == CeilDiv(W, t.bits)
      Step(out, i) ==
        LET x == (i - 1) % W  y == (i - 1) \div W
            L == IF x > 0 THEN out[i - 1] ELSE Black
            T == IF y > 0 THEN out[i - W] ELSE Black
            TL == IF x > 0 /\ y > 0 THEN out[i - W - 1] ELSE Black
            TR == IF y > 0 THEN (IF x < W - 1 THEN out[i - W + 1] ELSE out[i - x]) ELSE Black
            mode == t.data[(y \div (2 ^ t.bits)) * tw + (x \div (2 ^ t.bits)) + 1][3] % 16
            p == IF y = 0 THEN (IF x = 0 THEN Black ELSE L) ELSE IF x = 0 THEN T ELSE Pred(mode, L, T, TR, TL)
        IN Append(out, AddPx(pix[i], p))
  IN FoldLeft(Step, <<>>, [i \in 1..(W * h) |-> i])

InvCrossColor(t, pix, h) ==
  LET W == t.xs  tw == CeilDiv(W, t.bits) IN
  [i \in 1..(W * h) |->
     LET x == (i - 1) % W  y == (i - 1) \div W
         e == t.data[(y \div (2 ^ t.bits)) * tw + (x \div (2 ^ t.bits)) + 1]   \* <<a, r2b, g2b, g2r>>
         px == pix[i]
         nr == (px[2] + Delta(e[4], px[3])) % 256
         nb == (px[4] + Delta(e[3], px[3]) + Delta(e[2], nr)) % 256
     IN <<px[1], nr, px[3], nb>>]

InvSubGreen(pix) == [i \in 1..Len(pix) |-> <<pix[i][1], (pix[i][2] + pix[i][3]) % 256, pix[i][3], (pix[i][4] + pix[i][3]) % 256>>]

InvPalette(t, pix, h) ==
  LET w == t.xs  xb == t.bits  pw == CeilDiv(w, xb)  bpp == 8 \div (2 ^ xb)  nc == Len(t.data) IN
  [i \in 1..(w * h) |->
     LET x == (i - 1) % w  y == (i - 1) \div w
         packed == pix[y * pw + (x \div (2 ^ xb)) + 1][3]
         idx == (packed \div (2 ^ ((x % (2 ^ xb)) * bpp))) % (2 ^ bpp)
     IN IF idx < nc THEN t.data[idx + 1] ELSE <<0,0,0,0>>]

ReadTransforms(b, p0, w, h) ==
  LET Step(st, k) ==
        IF ~st.more \/ ~st.ok THEN st
        ELSE IF Bit(b, st.p) = 0 THEN [st EXCEPT !.more = FALSE, !.p = st.p + 1]
        ELSE LET ty == Bits(b, st.p + 1, 2) IN
             IF ty \in {tt.type : tt \in {st.ts[j] : j \in 1..Len(st.ts)}} THEN [st EXCEPT !.ok = FALSE]
             ELSE IF ty \in {0, 1}
             THEN LET bits == Bits(b, st.p + 3, 3) + 2
                      sub == SubImage(b, st.p + 6, CeilDiv(st.xs, bits), CeilDiv(h, bits))
                  IN [st EXCEPT !.p = sub.p, !.ok = sub.ok,
                                !.ts = Append(st.ts, [type |-> ty, bits |-> bits, xs |-> st.xs, data |-> sub.pix])]
             ELSE IF ty = 2
             THEN [st EXCEPT !.p = st.p + 3, !.ts = Append(st.ts, [type |-> 2, bits |-> 0, xs |-> st.xs, data |-> <<>>])]
             ELSE LET nc == Bits(b, st.p + 3, 8) + 1
                      pal0 == SubImage(b, st.p + 11, nc, 1)
                      pal == FoldLeft(LAMBDA acc, i : Append(acc, IF i = 1 THEN pal0.pix[1]
                                         ELSE [c \in 1..4 |-> (pal0.pix[i][c] + acc[i-1][c]) % 256]), <<>>, [i \in 1..nc |-> i])
                      xb == IF nc > 16 THEN 0 ELSE IF nc > 4 THEN 1 ELSE IF nc > 2 THEN 2 ELSE 3
                  IN [st EXCEPT !.p = pal0.p, !.ok = pal0.ok, !.xs = CeilDiv(st.xs, xb),
                                !.ts = Append(st.ts, [type |-> 3, bits |-> xb, xs |-> st.xs, data |-> pal])]
  IN FoldLeft(Step, [p |-> p0, xs |-> w, ts |-> <<>>, more |-> TRUE, ok |-> TRUE], <<1,2,3,4,5>>)

\* Decode the image stream that starts at bit p0 of b for a w x h picture (the part of a VP8L chunk after its 5-byte
\* header; an ALPH chunk with compression 1 holds exactly such a stream after its header byte).
DecodeStreamAt(b, p0, w, h, abit) ==
  LET tr == ReadTransforms(b, p0, w, h) IN
  IF ~tr.ok \/ tr.more THEN [ok |-> FALSE, why |-> "transforms", w |-> w, h |-> h, alpha |-> abit, tlist |-> <<>>, pix |-> <<>>]
  ELSE LET d == MainImage(b, tr.p, tr.xs, h)
           n == Len(tr.ts)
           Inv(pix, k) == LET t == tr.ts[n + 1 - k] IN
                CASE t.type = 0 -> InvPredictor(t, pix, h) [] t.type = 1 -> InvCrossColor(t, pix, h)
                  [] t.type = 2 -> InvSubGreen(pix) [] t.type = 3 -> InvPalette(t, pix, h)
           why == [k \in 1..n |-> tr.ts[k].type]
       IN IF ~d.ok THEN [ok |-> FALSE, why |-> "pixel data", w |-> w, h |-> h, alpha |-> abit, tlist |-> why, pix |-> <<>>]
          ELSE IF d.p > 8 * Len(b) THEN [ok |-> FALSE, why |-> "stream ends before the last pixel", w |-> w, h |-> h, alpha |-> abit, tlist |-> why, pix |-> <<>>]
          ELSE [ok |-> TRUE, why |-> "", w |-> w, h |-> h, alpha |-> abit, tlist |-> why, endbit |-> d.p,
                pix |-> FoldLeft(Inv, d.pix, [k \in 1..n |-> k])]

\* Decode a VP8L payload (the bytes of the VP8L chunk). Result: [ok, why, w, h, alpha, tlist, pix]
DecodeVP8L(b) ==
  IF Len(b) < 5 \/ b[1] # 47 \/ Bits(b, 37, 3) # 0 THEN [ok |-> FALSE, why |-> "header", w |-> 0, h |-> 0, alpha |-> 0, tlist |-> <<>>, pix |-> <<>>]
  ELSE DecodeStreamAt(b, 40, Bits(b, 8, 14) + 1, Bits(b, 22, 14) + 1, Bit(b, 36))

=============================================================================
