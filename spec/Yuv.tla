-------------------------------- MODULE Yuv --------------------------------
(* Colour conversion of a decoded lossy picture that carries alpha (C04):     *)
(* the reference "fancy" 4:2:0 upsampler (row pairs, edge rules) in closed    *)
(* form, and libwebp's 14-bit fixed-point YUV -> RGB constants.               *)
EXTENDS Integers, Sequences, SequencesExt

MultHi(v, c) == (v * c) \div 256
YClip(v) == IF v < 0 THEN 0 ELSE IF v > 16383 THEN 255 ELSE v \div 64      \* VP8Clip8 with YUV_FIX2 = 6
ToR(y, v) == YClip(MultHi(y, 19077) + MultHi(v, 26149) - 14234)
ToG(y, u, v) == YClip(MultHi(y, 19077) - MultHi(u, 6419) - MultHi(v, 13320) + 8708)
ToB(y, u) == YClip(MultHi(y, 19077) + MultHi(u, 33050) - 17685)

\* C: chroma plane (cw x ch, row-major); the upsampled chroma sample for luma position (x, y) of a picture w wide
Up(C, cw, ch, w, x, y) ==
  LET near == y \div 2
      far0 == IF y % 2 = 1 THEN near + 1 ELSE near - 1
      far == IF far0 < 0 THEN 0 ELSE IF far0 > ch - 1 THEN ch - 1 ELSE far0
      N(i) == C[near * cw + i + 1]
      F(i) == C[far * cw + i + 1]
      i == (x + 1) \div 2
  IN IF x = 0 THEN (3 * N(0) + F(0) + 2) \div 4
     ELSE IF x % 2 = 1
       THEN (IF x = w - 1 /\ w % 2 = 0 THEN (3 * N((w - 1) \div 2) + F((w - 1) \div 2) + 2) \div 4
             ELSE (((N(i - 1) + 3 * N(i) + 3 * F(i - 1) + F(i) + 8) \div 8) + N(i - 1)) \div 2)
       ELSE (((3 * N(i - 1) + N(i) + F(i - 1) + 3 * F(i) + 8) \div 8) + N(i)) \div 2

\* flat r,g,b,a list of the picture
ToNRGBA(Y, U, V, alpha, w, h) ==
  LET cw == (w + 1) \div 2  ch == (h + 1) \div 2 IN
  FoldLeft(LAMBDA acc, k :
             LET x == (k - 1) % w  y == (k - 1) \div w
                 yy == Y[k]  u == Up(U, cw, ch, w, x, y)  v == Up(V, cw, ch, w, x, y)
             IN acc \o <<ToR(yy, v), ToG(yy, u, v), ToB(yy, u), alpha[k]>>,
           <<>>, [k \in 1..(w * h) |-> k])
=============================================================================
