-------------------------------- MODULE Pool --------------------------------
(* Sequential call histories over the pooled coders (C11).                    *)
(* Abstract state: for every pool, the object a Get would return (its shape:  *)
(* the macroblock grid it was sized for) or "none".  A call takes the object, *)
(* reuses it when the shape matches (the code's resetForReuse path) and puts  *)
(* an object of its own shape back.  The contract of C11 is                   *)
(*      result(history, call) = Fresh(call)                                    *)
(* i.e. the abstract state must be unobservable.  TLC enumerates the          *)
(* histories and predicts, for every call, whether it runs on a REUSED object *)
(* (the histories that matter); the driver replays them on the real API,       *)
(* compares every result with the same call made first in a fresh process,     *)
(* and checks the predicted reuse against the hook counters.                   *)
EXTENDS Integers, Sequences, FiniteSets, TLC, Json

CONSTANTS MAXLEN, CALLS      \* CALLS: set of call ids (attributes below)

\* call attributes: kind, macroblock grid (0 = not applicable), parallel (uses the row pipeline)
Kind(c) == CASE c \in (0..7) \cup {23, 24, 40, 41} -> "lossy-enc" [] c \in (8..11) \cup (25..27) \cup {30, 39} -> "lossless-enc" [] c \in (12..15) \cup {29, 37, 38} -> "lossy-dec"
             [] c \in (16..18) \cup {31} -> "lossless-dec" [] c \in {19} \cup (33..36) -> "bad-lossy-dec" [] c = 20 -> "bad-lossless-dec" [] OTHER -> "other"
\* macroblock grid class of the picture a lossy call works on: 1 = 3x2, 2 = 6x8, 3 = 5x4, 4 = 2x2
Grid(c) == CASE c \in {0, 1, 2, 3, 12, 13, 29, 37, 38} -> 1 [] c \in {4, 5, 14, 19} \cup (33..36) -> 2 [] c \in {6, 7, 15, 23, 24} -> 3 [] c \in {40, 41} -> 4 [] OTHER -> 0
Parallel(c) == c \in {4, 5}

VARIABLES encObj, decObj, llDecUsed, llEncUsed, hist, reuse
vars == <<encObj, decObj, llDecUsed, llEncUsed, hist, reuse>>
Init == encObj = 0 /\ decObj = 0 /\ llDecUsed = FALSE /\ llEncUsed = FALSE /\ hist = <<>> /\ reuse = <<>>

Call(c) ==
  /\ Len(hist) < MAXLEN
  /\ hist' = Append(hist, c)
  /\ LET k == Kind(c) IN
     /\ encObj' = IF k = "lossy-enc" THEN Grid(c) ELSE encObj
     /\ decObj' = IF k \in {"lossy-dec", "bad-lossy-dec"} THEN Grid(c) ELSE decObj
     /\ llDecUsed' = (llDecUsed \/ k \in {"lossless-dec", "bad-lossless-dec"})
     /\ llEncUsed' = (llEncUsed \/ k = "lossless-enc")      \* the pooled lossless Encoder keeps its scratch slabs
     /\ reuse' = Append(reuse,
                   CASE k = "lossy-enc" -> encObj = Grid(c)
                     [] k \in {"lossy-dec", "bad-lossy-dec"} -> decObj # 0
                     [] k \in {"lossless-dec", "bad-lossless-dec"} -> llDecUsed
                     [] k = "lossless-enc" -> llEncUsed
                     [] OTHER -> FALSE)
Next == \E c \in CALLS : Call(c)
Spec == Init /\ [][Next]_vars

Emit == Len(hist) = 0 \/ PrintT(<<"CASE", ToJson([hist |-> hist, reuse |-> reuse])>>)
=============================================================================
