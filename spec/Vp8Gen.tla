------------------------------- MODULE Vp8Gen -------------------------------
(* A VP8 key-frame WRITER in TLA+ (C04, binding direction spec -> code):       *)
(* libwebp's 8-bit-flush boolean encoder (fits TLC's 32-bit integers),          *)
(* partition 0 (filter type / level / sharpness, quantiser index, "no update"   *)
(* flags, mb_no_coeff_skip = 0, 16x16 and chroma mode trees) and one token      *)
(* partition (Y2 / Y / U / V blocks with the non-zero context bookkeeping,      *)
(* EOB / zero / one / large-value tokens with all DCT_CAT categories).          *)
(* The state machine is Pick (macroblock layout x filter setting) -> Write      *)
(* (bytes become a state variable) -> Read (reader spec Vp8); ReaderAccepts is  *)
(* the writer/reader consistency invariant, Emit prints one CASE per frame      *)
(* (bytes + the planes the format defines) for replay on the real decoder.      *)
(* The layouts include CODED macroblocks whose residuals are all zero, which    *)
(* the package's own encoder never emits.                                       *)
EXTENDS Vp8, Json
CONSTANT SEED
VARIABLES phase, fidx, vbytes, vplanes
vars == <<phase, fidx, vbytes, vplanes>>

\* ===================== writer: boolean encoder (libwebp VP8BitWriter formulation, fits 31 bits) =====================
BWInit == [rg |-> 254, val |-> 0, run |-> 0, nb |-> -8, out |-> <<>>]
NormShift(r) == CHOOSE sft \in 0..7 : (r + 1) * (2 ^ sft) >= 128 /\ (sft = 0 \/ (r + 1) * (2 ^ (sft - 1)) < 128)
BWFlush(bw) ==
  LET sft == 8 + bw.nb
      bits == bw.val \div (2 ^ sft)
      val2 == bw.val - bits * (2 ^ sft)
  IN IF bits % 256 # 255
     THEN LET carry == (bits \div 256) % 2 = 1
              out1 == IF carry /\ Len(bw.out) > 0 THEN [bw.out EXCEPT ![Len(bw.out)] = @ + 1] ELSE bw.out
          IN [rg |-> bw.rg, val |-> val2, nb |-> bw.nb - 8, run |-> 0,
              out |-> out1 \o [j \in 1..bw.run |-> IF carry THEN 0 ELSE 255] \o <<bits % 256>>]
     ELSE [rg |-> bw.rg, val |-> val2, nb |-> bw.nb - 8, run |-> bw.run + 1, out |-> bw.out]
PutBit(bw, bit, prob) ==
  LET split == (bw.rg * prob) \div 256
      rg1 == IF bit = 1 THEN bw.rg - split - 1 ELSE split
      val1 == IF bit = 1 THEN bw.val + split + 1 ELSE bw.val
  IN IF rg1 < 127
     THEN LET sft == NormShift(rg1)
              b2 == [rg |-> (rg1 + 1) * (2 ^ sft) - 1, val |-> val1 * (2 ^ sft), nb |-> bw.nb + sft, run |-> bw.run, out |-> bw.out]
          IN IF b2.nb > 0 THEN BWFlush(b2) ELSE b2
     ELSE [rg |-> rg1, val |-> val1, nb |-> bw.nb, run |-> bw.run, out |-> bw.out]
\* a sequence of <<bit, prob>> pairs
PutAll(bw, pairs) == FoldLeft(LAMBDA w, pr : PutBit(w, pr[1], pr[2]), bw, pairs)
LitBits(v, nbits) == [j \in 1..nbits |-> <<(v \div (2 ^ (nbits - j))) % 2, 128>>]      \* MSB first, uniform
BWFinish(bw) == LET w1 == PutAll(bw, LitBits(0, 9 - bw.nb)) IN BWFlush([w1 EXCEPT !.nb = 0]).out

\* ===================== writer: frame syntax (i16 macroblocks, one partition, default probabilities) =====================
\* mb: [ymode, uvmode, y2 (16 levels, zigzag order), y (16 x 16), u (4 x 16), v (4 x 16)]
YModeBits(m) == CASE m = 0 -> << <<0,156>>, <<0,163>> >> [] m = 2 -> << <<0,156>>, <<1,163>> >>
                  [] m = 3 -> << <<1,156>>, <<0,128>> >> [] OTHER -> << <<1,156>>, <<1,128>> >>
UVModeBits(m) == CASE m = 0 -> << <<0,142>> >> [] m = 2 -> << <<1,142>>, <<0,114>> >>
                   [] m = 3 -> << <<1,142>>, <<1,114>>, <<0,183>> >> [] OTHER -> << <<1,142>>, <<1,114>>, <<1,183>> >>
Part0Pairs(fd) ==
  <<<<0,128>>, <<0,128>>, <<0,128>>>>                                    \* colour space, clamp, no segmentation
  \o << <<IF fd.simple THEN 1 ELSE 0, 128>> >> \o LitBits(fd.level, 6) \o LitBits(fd.sharp, 3) \o << <<0,128>> >>
  \o LitBits(0, 2) \o LitBits(fd.q, 7) \o [j \in 1..5 |-> <<0,128>>] \o << <<0,128>> >>
  \o [i \in 1..1056 |-> <<0, CoeffsUpdateProba[((i-1) \div 264) + 1][(((i-1) \div 33) % 8) + 1][(((i-1) \div 11) % 3) + 1][((i-1) % 11) + 1]>>]
  \o << <<0,128>> >>                                                     \* mb_no_coeff_skip = 0
  \o FoldLeft(LAMBDA acc, mb : acc \o << <<1,145>> >> \o YModeBits(mb.ymode) \o UVModeBits(mb.uvmode), <<>>, fd.mbs)

P0(t, n, ctx, k) == CoeffsProba0[t + 1][KBands[n + 1] + 1][ctx + 1][k + 1]
LargePairs(a, t, n, ctx) ==      \* a >= 2
  LET Pk(k) == P0(t, n, ctx, k) IN
  IF a <= 4 THEN << <<0, Pk(3)>> >> \o (IF a = 2 THEN << <<0, Pk(4)>> >> ELSE << <<1, Pk(4)>>, <<a - 3, Pk(5)>> >>)
  ELSE IF a <= 10 THEN << <<1, Pk(3)>>, <<0, Pk(6)>> >> \o
        (IF a <= 6 THEN << <<0, Pk(7)>>, <<a - 5, 159>> >> ELSE << <<1, Pk(7)>>, <<(a - 7) \div 2, 165>>, <<(a - 7) % 2, 145>> >>)
  ELSE LET cat == IF a <= 18 THEN 0 ELSE IF a <= 34 THEN 1 ELSE IF a <= 66 THEN 2 ELSE 3
           tab == CASE cat = 0 -> Cat3 [] cat = 1 -> Cat4 [] cat = 2 -> Cat5 [] OTHER -> Cat6
           ex == a - 3 - 8 * (2 ^ cat)
           nb == Len(tab)
       IN << <<1, Pk(3)>>, <<1, Pk(6)>>, <<cat \div 2, Pk(8)>>, <<cat % 2, Pk(9 + cat \div 2)>> >>
          \o [j \in 1..nb |-> <<(ex \div (2 ^ (nb - j))) % 2, tab[j]>>]
\* levels: 16 values in zigzag order; returns [pairs, nz]
BlockPairs(levels, t, ctx0, first) ==
  LET nzset == {j \in first..15 : levels[j + 1] # 0}
      last == IF nzset = {} THEN -1 ELSE CHOOSE j \in nzset : \A k \in nzset : k <= j
      Step(st, n) ==
        IF n > last THEN st
        ELSE LET v == levels[n + 1]  a == Abs(v)
                 eobp == IF st.eob THEN << <<1, P0(t, n, st.ctx, 0)>> >> ELSE <<>>
             IN IF v = 0 THEN [pairs |-> st.pairs \o eobp \o << <<0, P0(t, n, st.ctx, 1)>> >>, ctx |-> 0, eob |-> FALSE]
                ELSE [pairs |-> st.pairs \o eobp \o << <<1, P0(t, n, st.ctx, 1)>> >>
                                 \o (IF a = 1 THEN << <<0, P0(t, n, st.ctx, 2)>> >> ELSE << <<1, P0(t, n, st.ctx, 2)>> >> \o LargePairs(a, t, n, st.ctx))
                                 \o << <<IF v < 0 THEN 1 ELSE 0, 128>> >>,
                      ctx |-> IF a = 1 THEN 1 ELSE 2, eob |-> TRUE]
      body == FoldLeft(Step, [pairs |-> <<>>, ctx |-> ctx0, eob |-> TRUE], [n \in 1..(16 - first) |-> first + n - 1])
      endn == IF last < first THEN first ELSE last + 1
  IN [pairs |-> IF endn < 16 THEN body.pairs \o << <<0, P0(t, endn, body.ctx, 0)>> >> ELSE body.pairs,
      nz |-> IF last < first THEN 0 ELSE 1]
TokenPairs(fd, mbw) ==
  LET Z4 == <<0,0,0,0>>  Z2 == <<0,0>>
      OneMB(st, i) ==
        LET mx == (i - 1) % mbw
            mb == fd.mbs[i]
            tp == st.top[mx + 1]
            lf == IF mx = 0 THEN [y |-> Z4, u |-> Z2, v |-> Z2, dc |-> 0] ELSE st.left
            y2 == BlockPairs(mb.y2, 1, tp.dc + lf.dc, 0)
            YB(bs, k) == LET r == BlockPairs(mb.y[k + 1], 0, bs.t[(k % 4) + 1] + bs.l[(k \div 4) + 1], 1)
                         IN [pairs |-> bs.pairs \o r.pairs, t |-> SetAt(bs.t, (k % 4) + 1, r.nz), l |-> SetAt(bs.l, (k \div 4) + 1, r.nz)]
            yb == FoldLeft(YB, [pairs |-> y2.pairs, t |-> tp.y, l |-> lf.y], [k \in 1..16 |-> k - 1])
            CBk(blocks, bs, k) == LET r == BlockPairs(blocks[k + 1], 2, bs.t[(k % 2) + 1] + bs.l[(k \div 2) + 1], 0)
                         IN [pairs |-> bs.pairs \o r.pairs, t |-> SetAt(bs.t, (k % 2) + 1, r.nz), l |-> SetAt(bs.l, (k \div 2) + 1, r.nz)]
            ub == FoldLeft(LAMBDA bs, k : CBk(mb.u, bs, k), [pairs |-> yb.pairs, t |-> tp.u, l |-> lf.u], <<0,1,2,3>>)
            vb == FoldLeft(LAMBDA bs, k : CBk(mb.v, bs, k), [pairs |-> ub.pairs, t |-> tp.v, l |-> lf.v], <<0,1,2,3>>)
            nt == [y |-> yb.t, u |-> ub.t, v |-> vb.t, dc |-> y2.nz]
        IN [pairs |-> st.pairs \o vb.pairs, top |-> SetAt(st.top, mx + 1, nt),
            left |-> [y |-> yb.l, u |-> ub.l, v |-> vb.l, dc |-> y2.nz]]
  IN FoldLeft(OneMB, [pairs |-> <<>>, top |-> Rep(mbw, [y |-> Z4, u |-> Z2, v |-> Z2, dc |-> 0]),
                      left |-> [y |-> Z4, u |-> Z2, v |-> Z2, dc |-> 0]], [i \in 1..Len(fd.mbs) |-> i]).pairs
Frame(fd) ==
  LET mbw == (fd.w + 15) \div 16
      p0 == BWFinish(PutAll(BWInit, Part0Pairs(fd)))
      tk == BWFinish(PutAll(BWInit, TokenPairs(fd, mbw)))
      tag == 16 + 32 * Len(p0)                                           \* key frame, profile 0, show, partition length
  IN <<tag % 256, (tag \div 256) % 256, tag \div 65536, 157, 1, 42, fd.w % 256, fd.w \div 256, fd.h % 256, fd.h \div 256>> \o p0 \o tk

\* ===================== frame descriptions =====================
Rnd(k) == ((SEED * 7919 + k * 104729 + ((k * k) % 9973) * 31) % 65521)
ZB == Rep(16, 0)
\* a textured macroblock: DC prediction, a few low-frequency levels in Y2, Y and chroma
Tex(sd) == [ymode |-> 0, uvmode |-> 0,
            y2 |-> [j \in 1..16 |-> IF j <= 4 THEN (Rnd(sd + j) % 13) - 6 ELSE 0],
            y |-> [k \in 1..16 |-> [j \in 1..16 |-> IF j >= 2 /\ j <= 4 THEN (Rnd(sd + 17 * k + j) % 7) - 3 ELSE 0]],
            u |-> [k \in 1..4 |-> [j \in 1..16 |-> IF j <= 2 THEN (Rnd(sd + 300 + 17 * k + j) % 9) - 4 ELSE 0]],
            v |-> [k \in 1..4 |-> [j \in 1..16 |-> IF j <= 3 THEN (Rnd(sd + 400 + 17 * k + j) % 9) - 4 ELSE 0]]]
\* a macroblock with all 16 Y2 levels and all 15 AC levels of every luma block present.  Magnitudes stay inside the
\* domain in which 16-bit inverse transforms cannot overflow (the format is specified on mathematical integers; beyond
\* that domain real decoders differ - known finding of C13): with q <= 60 the dequantised Y2 coefficients add up to
\* less than 24 000, the coefficients of a luma block (its DC from the WHT included) to less than 15 000.
Big(sd) == [Tex(sd) EXCEPT !.y2 = [j \in 1..16 |-> (Rnd(sd + j) % 21) - 10], !.ymode = 1,
                           !.y = [k \in 1..16 |-> [j \in 1..16 |-> IF j >= 2 THEN (Rnd(sd + 19 * k + j) % 11) - 5 ELSE 0]]]
\* a coded macroblock with no coefficient at all (the package's encoder would mark it skipped instead)
Flat(ym, uvm) == [ymode |-> ym, uvmode |-> uvm, y2 |-> ZB, y |-> Rep(16, ZB), u |-> Rep(4, ZB), v |-> Rep(4, ZB)]
Layouts == << [w |-> 16, h |-> 32, mbs |-> <<Tex(1), Flat(2, 2)>>],
              [w |-> 32, h |-> 16, mbs |-> <<Tex(2), Flat(3, 3)>>],
              [w |-> 32, h |-> 32, mbs |-> <<Tex(3), Tex(4), Flat(2, 0), Flat(1, 1)>>],
              [w |-> 32, h |-> 32, mbs |-> <<Tex(5), Tex(6), Tex(7), Tex(8)>>],
              [w |-> 20, h |-> 17, mbs |-> <<Big(9), Big(10), Tex(11), Big(12)>>] >>
Filters == << [simple |-> FALSE, level |-> 0, sharp |-> 0], [simple |-> TRUE, level |-> 20, sharp |-> 0],
              [simple |-> FALSE, level |-> 20, sharp |-> 0], [simple |-> FALSE, level |-> 50, sharp |-> 3] >>
NF == Len(Layouts) * Len(Filters)
FD(i) == LET ly == Layouts[((i - 1) \div Len(Filters)) + 1]  fl == Filters[((i - 1) % Len(Filters)) + 1]
         IN [w |-> ly.w, h |-> ly.h, mbs |-> ly.mbs, simple |-> fl.simple, level |-> fl.level, sharp |-> fl.sharp, q |-> 20 + 2 * i]

Init == phase = "pick" /\ fidx = 0 /\ vbytes = <<>> /\ vplanes = [ok |-> FALSE]
Pick == /\ phase = "pick" /\ \E i \in 1..NF : fidx' = i
        /\ phase' = "picked" /\ UNCHANGED <<vbytes, vplanes>>
Write == /\ phase = "picked" /\ vbytes' = Frame(FD(fidx)) /\ phase' = "written" /\ UNCHANGED <<fidx, vplanes>>
Read == /\ phase = "written"
        /\ LET d == DecodeVP8(vbytes) IN
             vplanes' = IF d.ok THEN [ok |-> TRUE, w |-> d.w, h |-> d.h, Y |-> d.Y, U |-> d.U, V |-> d.V] ELSE [ok |-> FALSE]
        /\ phase' = "decoded" /\ UNCHANGED <<fidx, vbytes>>
Next == Pick \/ Write \/ Read
Spec == Init /\ [][Next]_vars
ReaderAccepts == phase = "decoded" => vplanes.ok /\ vplanes.w = FD(fidx).w /\ vplanes.h = FD(fidx).h
Emit == phase = "decoded" /\ vplanes.ok =>
          PrintT(<<"CASE", ToJson([idx |-> fidx, w |-> vplanes.w, h |-> vplanes.h, bytes |-> vbytes,
                                   y |-> vplanes.Y, u |-> vplanes.U, v |-> vplanes.V])>>)
=============================================================================
