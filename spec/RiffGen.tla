------------------------------ MODULE RiffGen ------------------------------
(* Hand-assembled containers with deliberate irregularities (C16, C05).      *)
(* A state is (base layout, set of irregularities); each irregularity is an  *)
(* action, so TLC's BFS enumerates every combination up to MAXIRR.  Every    *)
(* state prints the abstract chunk list, the VP8X flag byte and the features *)
(* every reader must report.  The Go driver substitutes real bitstreams for  *)
(* the payload tokens and assembles the bytes.                               *)
EXTENDS Integers, Sequences, FiniteSets, TLC, Json

CONSTANT MAXIRR

Bases == {"vp8", "vp8l", "vp8la", "x-vp8", "x-alph-vp8", "x-vp8l", "x-vp8la", "x-anim", "x-anim-alpha"}
IsExt(b) == b \notin {"vp8", "vp8l", "vp8la"}
IsAnim(b) == b \in {"x-anim", "x-anim-alpha"}
\* does a decoded pixel of the base picture carry transparency information
BaseAlpha(b) == b \in {"vp8la", "x-alph-vp8", "x-vp8la", "x-anim-alpha"}

Irrs == {"icc", "exif", "xmp",                 \* regular metadata in the regular place
         "zero-alph",                          \* ALPH chunk of length 0 in front of the VP8 chunk
         "opaque-alph", "opaque-alph-filtered",
         "vp8-hscale", "vp8-vscale",           \* the upscaling hint bits above the 14-bit width / height of a VP8 frame header are set\* the ALPH chunk of the picture decodes to 255 everywhere (raw / horizontal filter)
         "unk-before", "unk-after",            \* unknown chunk (odd length) before / after the image
         "exif-before", "icc-after",           \* metadata on the wrong side of the image
         "over-alpha", "over-icc", "over-exif", "over-xmp",     \* flag set, chunk absent
         "under-alpha", "under-icc", "under-exif", "under-xmp", \* chunk present, flag clear
         "trailing",                           \* bytes after the RIFF end
         "odd-meta"}                           \* metadata blobs of odd length (pad bytes)

Compatible(b, i, s) ==
  /\ (i \notin {"trailing", "odd-meta", "vp8-hscale", "vp8-vscale"} => IsExt(b))
  /\ (i = "zero-alph" => b = "x-vp8")
  /\ (i \in {"vp8-hscale", "vp8-vscale"} => b \in {"vp8", "x-vp8", "x-alph-vp8"})
  /\ (i = "opaque-alph" => b = "x-alph-vp8" /\ "opaque-alph-filtered" \notin s)
  /\ (i = "opaque-alph-filtered" => b = "x-alph-vp8" /\ "opaque-alph" \notin s)
  /\ (i = "over-alpha" => ~BaseAlpha(b) /\ "zero-alph" \notin s)
  /\ (i = "under-alpha" => BaseAlpha(b))
  /\ (i = "over-icc" => {"icc", "icc-after"} \cap s = {})
  /\ (i \in {"icc", "icc-after"} => "over-icc" \notin s)
  /\ (i = "under-icc" => {"icc", "icc-after"} \cap s # {})
  /\ (i = "over-exif" => {"exif", "exif-before"} \cap s = {})
  /\ (i \in {"exif", "exif-before"} => "over-exif" \notin s)
  /\ (i = "under-exif" => {"exif", "exif-before"} \cap s # {})
  /\ (i = "over-xmp" => "xmp" \notin s) /\ (i = "xmp" => "over-xmp" \notin s)
  /\ (i = "under-xmp" => "xmp" \in s)
  /\ (i = "odd-meta" => {"icc", "exif", "xmp", "exif-before", "icc-after"} \cap s # {})
  /\ (i = "zero-alph" => "over-alpha" \notin s)

VARIABLES base, irr
vars == <<base, irr>>

Ch(tag, tok) == [tag |-> tag, tok |-> tok]
Opt(c, x) == IF c THEN <<x>> ELSE <<>>

Scale(s) == (IF "vp8-hscale" \in s THEN "+hs" ELSE "") \o (IF "vp8-vscale" \in s THEN "+vs" ELSE "")
ImageChunks(b, s) ==
  CASE b \in {"vp8", "x-vp8"} -> <<Ch("VP8 ", "vp8" \o Scale(s))>>
    [] b \in {"vp8l", "x-vp8l"} -> <<Ch("VP8L", "vp8l")>>
    [] b \in {"vp8la", "x-vp8la"} -> <<Ch("VP8L", "vp8la")>>
    [] b = "x-alph-vp8" -> <<Ch("ALPH", IF "opaque-alph" \in s THEN "alph-opaque" ELSE IF "opaque-alph-filtered" \in s THEN "alph-opaque-f" ELSE "alph"), Ch("VP8 ", "vp8a" \o Scale(s))>>
    [] b = "x-anim" -> <<Ch("ANIM", "anim"), Ch("ANMF", "f-vp8"), Ch("ANMF", "f-vp8l")>>
    [] b = "x-anim-alpha" -> <<Ch("ANIM", "anim"), Ch("ANMF", "f-vp8la"), Ch("ANMF", "f-alph-vp8"), Ch("ANMF", "f-vp8")>>

Blob(s) == IF "odd-meta" \in s THEN "odd" ELSE "even"
Chunks(b, s) ==
  IF ~IsExt(b) THEN ImageChunks(b, s)
  ELSE <<Ch("VP8X", "vp8x")>>
       \o Opt("icc" \in s, Ch("ICCP", Blob(s)))
       \o Opt("exif-before" \in s, Ch("EXIF", Blob(s)))
       \o Opt("unk-before" \in s, Ch("UNKN", "odd"))
       \o Opt("zero-alph" \in s, Ch("ALPH", "empty"))
       \o ImageChunks(b, s)
       \o Opt("icc-after" \in s, Ch("ICCP", Blob(s)))
       \o Opt("unk-after" \in s, Ch("UNKN", "odd"))
       \o Opt("exif" \in s, Ch("EXIF", Blob(s)))
       \o Opt("xmp" \in s, Ch("XMP ", Blob(s)))

Bit(c, v) == IF c THEN v ELSE 0
Flags(b, s) ==
    Bit(IsAnim(b), 2)
  + Bit(("xmp" \in s /\ "under-xmp" \notin s) \/ "over-xmp" \in s, 4)
  + Bit(({"exif", "exif-before"} \cap s # {} /\ "under-exif" \notin s) \/ "over-exif" \in s, 8)
  + Bit((BaseAlpha(b) /\ "under-alpha" \notin s) \/ "over-alpha" \in s \/ "zero-alph" \in s, 16)
  + Bit(({"icc", "icc-after"} \cap s # {} /\ "under-icc" \notin s) \/ "over-icc" \in s, 32)

NFrames(b) == CASE b = "x-anim" -> 2 [] b = "x-anim-alpha" -> 3 [] OTHER -> 1

Case(b, s) == [base |-> b, irr |-> s, chunks |-> Chunks(b, s), flags |-> Flags(b, s),
               trailing |-> "trailing" \in s,
               anim |-> IsAnim(b), nframes |-> NFrames(b), loop |-> IF IsAnim(b) THEN 32775 ELSE 0,
               alpha |-> BaseAlpha(b),
               \* every irregularity here leaves the headers mutually consistent (the C16 notion of well-formed)
               wellformed |-> TRUE]

Init == base \in Bases /\ irr = {} /\ PrintT(<<"CASE", ToJson(Case(base, {}))>>)
Add(i) == /\ Cardinality(irr) < MAXIRR /\ i \notin irr /\ Compatible(base, i, irr)
          /\ irr' = irr \cup {i} /\ UNCHANGED base
          /\ PrintT(<<"CASE", ToJson(Case(base, irr'))>>)
Next == \E i \in Irrs : Add(i)
Spec == Init /\ [][Next]_vars

\* design invariants of the generator: flags are a byte without reserved bits; a flag that is neither over- nor
\* under-stated tells the truth
FlagsOK == Flags(base, irr) \in 0..62 /\ Flags(base, irr) % 2 = 0
Truthful == ({"over-icc", "under-icc"} \cap irr = {}) =>
              ((Flags(base, irr) \div 32) % 2 = 1 <=> \E k \in 1..Len(Chunks(base, irr)) : Chunks(base, irr)[k].tag = "ICCP")
=============================================================================
