SPECIFICATION Spec
CONSTANTS
 W = 3
 H = 4
 NW = 3
 WAITAHEAD = 2
 SIGLOCK = TRUE
INVARIANT Safe
PROPERTY Termination
