------------------------------ MODULE Vp8lGen2 -----------------------------
(* A second VP8L WRITER (C03, spec -> code): the entropy-coded main image.     *)
(* Where Vp8lGen enumerates transform lists over literal-only images, this     *)
(* module writes TOKEN sequences - literals, LZ77 copies (length and distance  *)
(* prefix symbols with extra bits, plane codes of the 120-entry distance map   *)
(* and linear distances, overlapping copies), colour-cache references - under  *)
(* every combination of: colour cache off / 1 bit / 3 bits, meta prefix image  *)
(* off / on (two groups that consume different numbers of bits: group 2 codes  *)
(* alpha with a zero-bit single-symbol code, tiles of 4x4 pixels laid out in a *)
(* checkerboard), and a width that is / is not a multiple of the tile size.    *)
(* The writer does not search for matches: the tokens DEFINE the picture, the  *)
(* reader specification (Vp8l.tla) says which, ReaderAccepts is the            *)
(* generation-time consistency invariant, and the real decoder must return the *)
(* same pixels (Emit -> replay).  Green codes are complete codes with lengths  *)
(* 8 and 9 (512-n symbols of length 8, 2n-512 of length 9, n = 280 + cache     *)
(* size); distance codes are 32 symbols of length 5.                           *)
EXTENDS Vp8l, Json
CONSTANTS SEEDS, WIDTHS, H
VARIABLES cfg, phase, vbytes, vpix
vars == <<cfg, phase, vbytes, vpix>>

NumLSB(v, nb) == [i \in 1..nb |-> (v \div (2 ^ (i - 1))) % 2]
CodeMSB(v, nb) == [i \in 1..nb |-> (v \div (2 ^ (nb - i))) % 2]
Cat(ss) == FoldLeft(LAMBDA acc, x : acc \o x, <<>>, ss)
Rnd(seed, k) == ((seed * 7919 + k * 104729 + ((k * k) % 9973) * 31) % 65521)

\* ---- code descriptions ----
\* normal code over n symbols: the first 512-n have length 8, the rest length 9 (code-length code: 8 and 9, one bit each)
Code89(n) == <<0>> \o NumLSB(13 - 4, 4) \o Cat([i \in 1..13 |-> NumLSB(IF i = 12 \/ i = 13 THEN 1 ELSE 0, 3)]) \o <<0>>
             \o [s \in 1..n |-> IF s <= 512 - n THEN 0 ELSE 1]
\* 256 symbols of length 8 (code-length code: 0 and 8)
Code8 == <<0>> \o NumLSB(12 - 4, 4) \o Cat([i \in 1..12 |-> NumLSB(IF i = 3 \/ i = 12 THEN 1 ELSE 0, 3)]) \o <<0>> \o [s \in 1..256 |-> 1]
\* 280-symbol green code of a sub-image: 256 of length 8, 24 unused
Code8Green == <<0>> \o NumLSB(12 - 4, 4) \o Cat([i \in 1..12 |-> NumLSB(IF i = 3 \/ i = 12 THEN 1 ELSE 0, 3)]) \o <<0>> \o [s \in 1..256 |-> 1] \o [s \in 1..24 |-> 0]
\* distance code: symbols 0..31 of length 5, 32..39 unused (code-length code: 0 and 5)
Code5Dist == <<0>> \o NumLSB(8 - 4, 4) \o Cat([i \in 1..8 |-> NumLSB(IF i = 3 \/ i = 8 THEN 1 ELSE 0, 3)]) \o <<0>> \o [s \in 1..32 |-> 1] \o [s \in 1..8 |-> 0]
\* a NORMAL code with a single used symbol `sym` (length 1) out of n: code-length code with the symbols 0 and 1
CodeSingle(sym, n) == <<0>> \o NumLSB(0, 4) \o NumLSB(0, 3) \o NumLSB(0, 3) \o NumLSB(1, 3) \o NumLSB(1, 3) \o <<0>>
                      \o [s \in 1..n |-> IF s = sym + 1 THEN 1 ELSE 0]
SimpleOne(v) == <<1, 0, 1>> \o NumLSB(v, 8)                              \* simple code, one 8-bit symbol
SimpleOne0 == <<1, 0, 0, 0>>

GreenBits(s, n) == IF s < 512 - n THEN CodeMSB(s, 8) ELSE CodeMSB(2 * (512 - n) + (s - (512 - n)), 9)
\* prefix coding of a length / distance value v >= 1: symbol and extra bits
Log2(d) == CHOOSE k \in 0..20 : 2 ^ k <= d /\ d < 2 ^ (k + 1)
PrefixEnc(v) == LET d == v - 1 IN
  IF d < 4 THEN [sym |-> d, eb |-> 0, extra |-> 0]
  ELSE LET hb == Log2(d)  sec == (d \div (2 ^ (hb - 1))) % 2
       IN [sym |-> 2 * hb + sec, eb |-> hb - 1, extra |-> d % (2 ^ (hb - 1))]

\* ---- the token plan ----
\* c = [seed, w, cb (cache bits), meta (BOOLEAN), copy (BOOLEAN)]
Tile(c, pos) == ((pos % c.w) \div 4 + (pos \div c.w) \div 4) % 2          \* checkerboard of 4x4 tiles: group 0 / 1
Palette == << <<255, 10, 20, 30>>, <<255, 200, 100, 0>>, <<128, 1, 2, 3>>, <<0, 0, 0, 0>>, <<255, 255, 255, 255>> >>
DistMenu(c, pos) ==          \* distance codes whose distance does not exceed pos
  LET cands == <<2, 1, 121, 120 + pos, 4, 3, 122, 5, 120 + (pos \div 2) + 1>>
  IN SelectSeq(cands, LAMBDA code : code >= 1 /\ PlaneDist(c.w, code) <= pos)
Tokens(c) ==
  LET N == c.w * H
      n == 280 + (IF c.cb > 0 THEN 2 ^ c.cb ELSE 0)
      Step(st, k) ==
        IF st.pos >= N THEN st
        ELSE LET r == Rnd(c.seed, 3 * k)  r2 == Rnd(c.seed, 3 * k + 1)  r3 == Rnd(c.seed, 3 * k + 2)
                 grp == IF c.meta THEN Tile(c, st.pos) ELSE 0
                 menu == DistMenu(c, st.pos)
             IN IF c.zg /\ grp = 1
                THEN [pos |-> st.pos + 1, ntok |-> st.ntok + 1000, bits |-> st.bits]      \* zero-bit copy: length 1, distance 1
                ELSE IF c.copy /\ st.pos >= 1 /\ r % 8 < 3 /\ menu # <<>>
                THEN LET code == menu[(r2 % Len(menu)) + 1]
                         room == N - st.pos
                         ln == 1 + (r3 % (IF room < 14 THEN room ELSE 14))
                         le == PrefixEnc(ln)  de == PrefixEnc(code)
                     IN [pos |-> st.pos + ln, ntok |-> st.ntok + 1000,
                         bits |-> st.bits \o GreenBits(256 + le.sym, n) \o NumLSB(le.extra, le.eb) \o CodeMSB(de.sym, 5) \o NumLSB(de.extra, de.eb)]
                ELSE IF c.cb > 0 /\ r % 8 = 3
                THEN [pos |-> st.pos + 1, ntok |-> st.ntok + 1000000, bits |-> st.bits \o GreenBits(280 + (r2 % (2 ^ c.cb)), n)]
                ELSE LET px == IF r2 % 3 = 0 THEN <<r3 % 256, (r3 \div 7) % 256, (r2 \div 5) % 256, (r3 \div 3) % 256>> ELSE Palette[(r3 % 5) + 1]
                     IN [pos |-> st.pos + 1, ntok |-> st.ntok + 1,
                         bits |-> st.bits \o GreenBits(px[3], n) \o CodeMSB(px[2], 8) \o CodeMSB(px[4], 8)
                                  \o (IF grp = 1 THEN <<>> ELSE CodeMSB(px[1], 8))]
  IN FoldLeft(Step, [pos |-> 0, ntok |-> 0, bits |-> <<>>], [k \in 1..N |-> k])

Group(n, second) == Code89(n) \o Code8 \o Code8 \o (IF second THEN SimpleOne(255) ELSE Code8) \o Code5Dist
MetaImage(c) ==   \* prefix bits 2 (4x4 tiles); entropy image pixel <<a, r, g, b>> with the group index in r*256+g
  LET mw == CeilDiv(c.w, 2)  mh == CeilDiv(H, 2)
      px(i) == LET tx == (i - 1) % mw  ty == (i - 1) \div mw IN (tx + ty) % 2
  IN NumLSB(0, 3) \o <<0>> \o Code8Green \o Code8 \o Code8 \o Code8 \o SimpleOne0
     \o Cat([i \in 1..(mw * mh) |-> CodeMSB(px(i), 8) \o CodeMSB(0, 8) \o CodeMSB(0, 8) \o CodeMSB(255, 8)])
ToBytes(bits) == LET nb == (Len(bits) + 7) \div 8 IN
  [k \in 1..nb |-> FoldLeft(LAMBDA acc, i : acc + (IF 8 * (k - 1) + i <= Len(bits) THEN bits[8 * (k - 1) + i] ELSE 0) * (2 ^ (i - 1)), 0, <<1,2,3,4,5,6,7,8>>)]
\* the stream as labelled segments (name, bits): the field map for bit-level fault injection (C05) is read off it
SegsG(w, h, cb, meta, precField, mw, nmeta, tokbits, zg) ==
  LET n == 280 + (IF cb > 0 THEN 2 ^ cb ELSE 0)
  IN << <<"signature", NumLSB(47, 8)>>, <<"width-1", NumLSB(w - 1, 14)>>, <<"height-1", NumLSB(h - 1, 14)>>, <<"alpha-hint", <<1>> >>,
        <<"version", NumLSB(0, 3)>>, <<"transform-present", <<0>> >> >>
     \o (IF cb > 0 THEN << <<"cache-present", <<1>> >>, <<"cache-bits", NumLSB(cb, 4)>> >> ELSE << <<"cache-present", <<0>> >> >>)
     \o (IF meta
         THEN << <<"meta-present", <<1>> >>, <<"meta-prefix-bits", NumLSB(precField, 3)>>, <<"meta-image-cache-present", <<0>> >>,
                 <<"meta-image-codes", Code8Green \o Code8 \o Code8 \o Code8 \o SimpleOne0>> >>
              \o [i \in 1..nmeta |-> <<"meta-pixel", CodeMSB((((i - 1) % mw) + ((i - 1) \div mw)) % 2, 8) \o CodeMSB(0, 8) \o CodeMSB(0, 8) \o CodeMSB(255, 8)>>]
              \o << <<"group-1-green-code", Code89(n)>>, <<"group-1-red-code", Code8>>, <<"group-1-blue-code", Code8>>, <<"group-1-alpha-code", Code8>>, <<"group-1-dist-code", Code5Dist>>,
                    <<"group-2-green-code", IF zg THEN CodeSingle(256, n) ELSE Code89(n)>>, <<"group-2-red-code", IF zg THEN SimpleOne0 ELSE Code8>>,
                    <<"group-2-blue-code", IF zg THEN SimpleOne0 ELSE Code8>>, <<"group-2-alpha-code", IF zg THEN SimpleOne0 ELSE SimpleOne(255)>>,
                    <<"group-2-dist-code", IF zg THEN <<1, 0, 0, 1>> ELSE Code5Dist>> >>
         ELSE << <<"meta-present", <<0>> >>,
                 <<"group-1-green-code", Code89(n)>>, <<"group-1-red-code", Code8>>, <<"group-1-blue-code", Code8>>, <<"group-1-alpha-code", Code8>>, <<"group-1-dist-code", Code5Dist>> >>)
     \o << <<"tokens", tokbits>> >>
Segs(c) == SegsG(c.w, H, c.cb, c.meta, 0, CeilDiv(c.w, 2), CeilDiv(c.w, 2) * CeilDiv(H, 2), Tokens(c).bits, c.zg)
Stream(c) == ToBytes(Cat([i \in 1..Len(Segs(c)) |-> Segs(c)[i][2]]))
\* field map: name, first bit, width (the long code descriptions and the token area are cut to their first 24 bits:
\* that is where their headers are)
FieldMapOf(sg) ==
  LET offs == FoldLeft(LAMBDA acc, i : Append(acc, acc[Len(acc)] + Len(sg[i][2])), <<0>>, [i \in 1..Len(sg) |-> i])
  IN [i \in 1..Len(sg) |-> [name |-> sg[i][1], off |-> offs[i], width |-> IF Len(sg[i][2]) > 24 THEN 24 ELSE Len(sg[i][2])]]

FieldMap(c) == FieldMapOf(Segs(c))
\* hostile bases (C05): headers that declare a large picture and stop - no pixel data follows.  They are not valid
\* streams (the reader rejects them); they are the starting points for bit-field faults whose cost must stay
\* proportional to the input length plus the declared area.
HostileBases == <<
  [name |-> "256x256 cache 11 meta 128x128-tiles two groups no pixel data", sg |-> SegsG(256, 256, 11, TRUE, 5, 2, 4, <<>>, FALSE)],
  [name |-> "16383x16383 one group no pixel data", sg |-> SegsG(16383, 16383, 0, FALSE, 0, 1, 0, <<>>, FALSE)],
  [name |-> "4096x4096 meta 4x4-tiles meta image cut after 3 pixels", sg |-> SegsG(4096, 4096, 3, TRUE, 0, 1024, 3, <<>>, FALSE)],
  [name |-> "1000x1000 cache 1 meta 512x512-tiles two groups 8 tokens", sg |-> SegsG(1000, 1000, 1, TRUE, 7, 2, 4, Cat([i \in 1..8 |-> GreenBits(i * 20, 282) \o CodeMSB(i, 8) \o CodeMSB(2 * i, 8) \o CodeMSB(255, 8)]), FALSE)] >>

Configs == {c \in [seed : SEEDS, w : WIDTHS, cb : {0, 1, 3}, meta : BOOLEAN, copy : BOOLEAN, zg : BOOLEAN] : c.zg => c.meta}
Init == cfg \in Configs /\ phase = "pick" /\ vbytes = <<>> /\ vpix = <<>>
Write == /\ phase = "pick" /\ vbytes' = Stream(cfg) /\ phase' = "written" /\ UNCHANGED <<cfg, vpix>>
Read == /\ phase = "written"
        /\ LET d == DecodeVP8L(vbytes) IN
             IF d.ok /\ d.w = cfg.w /\ d.h = H THEN vpix' = d.pix /\ phase' = "decoded"
             ELSE vpix' = <<>> /\ phase' = "rejected: " \o d.why
        /\ UNCHANGED <<cfg, vbytes>>
Next == Write \/ Read
Spec == Init /\ [][Next]_vars
ReaderAccepts == phase \in {"pick", "written", "decoded"}
\* group 2 really is exercised: in meta mode some pixel of a group-2 tile gets alpha 255 from the zero-bit code
Emit == phase = "decoded" =>
          PrintT(<<"CASE", ToJson([ts |-> <<cfg.seed, cfg.cb, IF cfg.meta THEN 1 ELSE 0, IF cfg.copy THEN 1 ELSE 0, IF cfg.zg THEN 1 ELSE 0>>, w |-> cfg.w, h |-> H, ntok |-> Tokens(cfg).ntok, fields |-> FieldMap(cfg), bytes |-> vbytes,
                                   pix |-> FoldLeft(LAMBDA acc, p : acc \o p, <<>>, vpix)])>>)
EmitHostile == (phase = "pick" /\ cfg = CHOOSE c \in Configs : \A c2 \in Configs : c.seed <= c2.seed /\ c.w <= c2.w /\ c.cb <= c2.cb /\ (c.meta => c2.meta) /\ (c.copy => c2.copy) /\ (c.zg => c2.zg)) =>
  \A k \in 1..Len(HostileBases) :
     PrintT(<<"HOSTILE", ToJson([name |-> HostileBases[k].name, fields |-> FieldMapOf(HostileBases[k].sg),
                                 bytes |-> ToBytes(Cat([i \in 1..Len(HostileBases[k].sg) |-> HostileBases[k].sg[i][2]]))])>>)
=============================================================================
