SPECIFICATION Spec
CONSTANT MAXFRAMES = 2
INVARIANTS RoundTrip SizeStrict
CHECK_DEADLOCK FALSE
