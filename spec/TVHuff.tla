------------------------------- MODULE TVHuff -------------------------------
(* Trace validation of prefix-code descriptions written by the real lossless  *)
(* encoder (C01).  A line is [id, a (alphabet size), bytes, nused, syms,       *)
(* nbits]: the bytes hold the description the encoder wrote for its code,      *)
(* followed by every used symbol written once with the encoder's code bits.   *)
(* The reader specification (Vp8l!ReadCode / ReadSym) must                     *)
(*   - read a code with exactly `nused` symbols,                               *)
(*   - that is complete (Kraft sum 1) when it has two or more symbols,         *)
(*   - read back the symbols in order, ending exactly at bit `nbits`.          *)
EXTENDS Vp8l, Json, IOUtils
Trace == ndJsonDeserialize("trace.ndjson")
VARIABLES l, bad
Kraft(c) == FoldLeft(LAMBDA acc, len : acc + c.cnt[len] * (2 ^ (15 - len)), 0, [len \in 1..15 |-> len])
Judge(r) ==
  LET rc == ReadCode(r.bytes, 0, r.a)
      c == rc.code
  IN IF c.n # r.nused THEN "the description declares " \o ToString(c.n) \o " used symbols, the encoder's code has " \o ToString(r.nused)
     ELSE IF c.n >= 2 /\ Kraft(c) # 32768 THEN "the described code is not complete (Kraft sum " \o ToString(Kraft(c)) \o "/32768)"
     ELSE LET rd == FoldLeft(LAMBDA st, k :
                       IF st.bad # 0 THEN st
                       ELSE LET s == ReadSym(r.bytes, st.p, c)
                            IN IF s.sym # r.syms[k] THEN [p |-> s.p, bad |-> k] ELSE [p |-> s.p, bad |-> 0],
                     [p |-> rc.p, bad |-> 0], [k \in 1..Len(r.syms) |-> k])
          IN IF rd.bad # 0 THEN "symbol " \o ToString(r.syms[rd.bad]) \o " (number " \o ToString(rd.bad) \o " written) is not read back with the described code"
             ELSE IF rd.p # r.nbits THEN "reading ends at bit " \o ToString(rd.p) \o ", the encoder wrote " \o ToString(r.nbits) \o " bits"
             ELSE ""
Init == l = 1 /\ bad = <<>>
Next == /\ l <= Len(Trace)
        /\ LET j == Judge(Trace[l]) IN bad' = IF j = "" THEN bad ELSE Append(bad, [id |-> Trace[l].id, why |-> j])
        /\ l' = l + 1
Spec == Init /\ [][Next]_<<l, bad>>
Verdict == l <= Len(Trace) \/ PrintT(<<"VERDICT", ToJson([n |-> Len(Trace), bad |-> bad])>>)
=============================================================================
