------------------------------- MODULE TVAlph -------------------------------
(* Trace validation of ALPH chunks written by the real encoder (C07, C02).    *)
(* Line: [id, bytes (ALPH payload), w, h, q (resolved AlphaQuality),          *)
(*        src (source alpha plane), real (alpha plane webp.Decode returned)].  *)
(* q = 100: the plane the independent reader decodes equals the source plane   *)
(* (and the real decoder's).  q < 100: the reader's plane equals the real      *)
(* decoder's, uses at most Levels(q) distinct values and keeps the smallest    *)
(* and the largest source value.                                              *)
EXTENDS Alph, Json, IOUtils
Trace == ndJsonDeserialize("trace.ndjson")
VARIABLES l, cur, bad
vars == <<l, cur, bad>>

MinOf(s) == FoldLeft(LAMBDA m, v : IF v < m THEN v ELSE m, 255, s)
MaxOf(s) == FoldLeft(LAMBDA m, v : IF v > m THEN v ELSE m, 0, s)
Vals(s) == {s[i] : i \in 1..Len(s)}

Judge(r, d) ==
  IF ~d.ok THEN "independent reader rejects the ALPH chunk: " \o d.why
  ELSE IF d.plane # r.real THEN "the decoder's alpha plane differs from the plane the format defines for this chunk"
  ELSE IF r.q >= 100 /\ d.plane # r.src THEN "alpha plane differs from the source although AlphaQuality is 100"
  ELSE IF r.q < 100 /\ Cardinality(Vals(d.plane)) > Levels(r.q) THEN "more alpha levels than documented for this AlphaQuality"
  ELSE IF r.q < 100 /\ (MinOf(d.plane) # MinOf(r.src) \/ MaxOf(d.plane) # MaxOf(r.src)) THEN "smallest/largest source alpha not kept"
  ELSE ""

Init == l = 1 /\ cur = [ok |-> FALSE, why |-> "init"] /\ bad = <<>>
ParseLine == /\ l <= Len(Trace) /\ cur.why = "init"
             /\ cur' = DecodeALPH(Trace[l].bytes, Trace[l].w, Trace[l].h) /\ UNCHANGED <<l, bad>>
JudgeLine == /\ l <= Len(Trace) /\ cur.why # "init"
             /\ LET j == Judge(Trace[l], cur)
                IN bad' = IF j = "" THEN bad ELSE Append(bad, [id |-> Trace[l].id, why |-> j])
             /\ cur' = [ok |-> FALSE, why |-> "init"] /\ l' = l + 1
Next == ParseLine \/ JudgeLine
Spec == Init /\ [][Next]_vars
Verdict == l <= Len(Trace) \/ PrintT(<<"VERDICT", ToJson([n |-> Len(Trace), bad |-> bad])>>)
=============================================================================
