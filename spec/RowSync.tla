------------------------------ MODULE RowSync ------------------------------
(* The row-pipelined lossy encoder (internal/lossy/encode_parallel.go), C10.  *)
(* One action per atomic step of row claiming, waitFor and signal; the shared *)
(* one-row top context is abstracted to owner[c] = the row whose bottom        *)
(* samples currently sit in column c; context reads and writes are split into  *)
(* begin/end so that an overlap is a reachable state.                          *)
(* WAITAHEAD = 2 in the code (row y may process x once row y-1 published x+1). *)
(* SIGLOCK = TRUE in the code: signal() takes and releases the row mutex       *)
(* before Broadcast; FALSE models its removal (lost wake-up).                  *)
EXTENDS Integers, FiniteSets, TLC
CONSTANTS W, H, NW, WAITAHEAD, SIGLOCK
Workers == 1..NW
Rec == 0
Procs == Workers \cup {Rec}
Rows == 0..(H-1)
Cols == 0..(W-1)
MinI(a,b) == IF a < b THEN a ELSE b

VARIABLES nextRow, done, waiters, mu, sleeping, pc, row, col, need, wrow, owner, recY
vars == <<nextRow, done, waiters, mu, sleeping, pc, row, col, need, wrow, owner, recY>>

Init ==
  /\ nextRow = 0
  /\ done = [y \in Rows |-> 0]
  /\ waiters = [y \in Rows |-> 0]
  /\ mu = [y \in Rows |-> -1]
  /\ sleeping = [y \in Rows |-> {}]
  /\ pc = [p \in Procs |-> IF p = Rec THEN "rloop" ELSE "claim"]
  /\ row = [p \in Procs |-> -1]
  /\ col = [p \in Procs |-> 0]
  /\ need = [p \in Procs |-> 0]
  /\ wrow = [p \in Procs |-> 0]     \* row being waited on
  /\ owner = [c \in Cols |-> -1]
  /\ recY = 0

Goto(p, l) == pc' = [pc EXCEPT ![p] = l]

\* ---- worker ----
Claim(p) == /\ pc[p] = "claim"
            /\ nextRow' = nextRow + 1
            /\ IF nextRow >= H
                 THEN /\ Goto(p, "exit") /\ UNCHANGED <<row, col>>
                 ELSE /\ row' = [row EXCEPT ![p] = nextRow]
                      /\ col' = [col EXCEPT ![p] = 0]
                      /\ Goto(p, "loop")
            /\ UNCHANGED <<done, waiters, mu, sleeping, need, wrow, owner, recY>>

Loop(p) == /\ pc[p] = "loop"
           /\ IF col[p] = W THEN Goto(p, "claim") /\ UNCHANGED <<need, wrow>>
              ELSE IF row[p] = 0 THEN Goto(p, "rbegin") /\ UNCHANGED <<need, wrow>>
              ELSE /\ need' = [need EXCEPT ![p] = MinI(col[p] + WAITAHEAD, W)]
                   /\ wrow' = [wrow EXCEPT ![p] = row[p] - 1]
                   /\ Goto(p, "wfast")
           /\ UNCHANGED <<nextRow, done, waiters, mu, sleeping, row, col, owner, recY>>

After(p) == IF p = Rec THEN "record" ELSE "rbegin"

WFast(p) == /\ pc[p] = "wfast"
            /\ IF done[wrow[p]] >= need[p] THEN Goto(p, After(p)) ELSE Goto(p, "winc")
            /\ UNCHANGED <<nextRow, done, waiters, mu, sleeping, row, col, need, wrow, owner, recY>>
WInc(p) == /\ pc[p] = "winc"
           /\ waiters' = [waiters EXCEPT ![wrow[p]] = @ + 1]
           /\ Goto(p, "wlock")
           /\ UNCHANGED <<nextRow, done, mu, sleeping, row, col, need, wrow, owner, recY>>
WLock(p) == /\ pc[p] \in {"wlock", "wrelock"}
            /\ mu[wrow[p]] = -1
            /\ mu' = [mu EXCEPT ![wrow[p]] = p]
            /\ Goto(p, "wcheck")
            /\ UNCHANGED <<nextRow, done, waiters, sleeping, row, col, need, wrow, owner, recY>>
WCheck(p) == /\ pc[p] = "wcheck"
             /\ IF done[wrow[p]] >= need[p]
                  THEN /\ mu' = [mu EXCEPT ![wrow[p]] = -1]      \* Unlock
                       /\ Goto(p, "wdec")
                  ELSE /\ Goto(p, "wpark") /\ UNCHANGED mu       \* predicate false: about to call cond.Wait, mutex still held
             /\ UNCHANGED <<nextRow, done, waiters, sleeping, row, col, need, wrow, owner, recY>>
\* cond.Wait: add to the notify list, then unlock (atomic with respect to anyone who needs the mutex first)
WPark(p) == /\ pc[p] = "wpark"
            /\ mu' = [mu EXCEPT ![wrow[p]] = -1]
            /\ sleeping' = [sleeping EXCEPT ![wrow[p]] = @ \cup {p}]
            /\ Goto(p, "asleep")
            /\ UNCHANGED <<nextRow, done, waiters, row, col, need, wrow, owner, recY>>
Wake(p) == /\ pc[p] = "asleep"
           /\ p \notin sleeping[wrow[p]]
           /\ Goto(p, "wrelock")
           /\ UNCHANGED <<nextRow, done, waiters, mu, sleeping, row, col, need, wrow, owner, recY>>
WDec(p) == /\ pc[p] = "wdec"
           /\ waiters' = [waiters EXCEPT ![wrow[p]] = @ - 1]
           /\ Goto(p, After(p))
           /\ UNCHANGED <<nextRow, done, mu, sleeping, row, col, need, wrow, owner, recY>>

RBegin(p) == /\ pc[p] = "rbegin" /\ Goto(p, "rend")
             /\ UNCHANGED <<nextRow, done, waiters, mu, sleeping, row, col, need, wrow, owner, recY>>
REnd(p) == /\ pc[p] = "rend" /\ Goto(p, "ebegin")
           /\ UNCHANGED <<nextRow, done, waiters, mu, sleeping, row, col, need, wrow, owner, recY>>
EBegin(p) == /\ pc[p] = "ebegin" /\ Goto(p, "eend")
             /\ UNCHANGED <<nextRow, done, waiters, mu, sleeping, row, col, need, wrow, owner, recY>>
EEnd(p) == /\ pc[p] = "eend"
           /\ owner' = [owner EXCEPT ![col[p]] = row[p]]
           /\ Goto(p, "sstore")
           /\ UNCHANGED <<nextRow, done, waiters, mu, sleeping, row, col, need, wrow, recY>>
SStore(p) == /\ pc[p] = "sstore"
             /\ done' = [done EXCEPT ![row[p]] = col[p] + 1]
             /\ Goto(p, "scheck")
             /\ UNCHANGED <<nextRow, waiters, mu, sleeping, row, col, need, wrow, owner, recY>>
SCheck(p) == /\ pc[p] = "scheck"
             /\ IF waiters[row[p]] > 0 THEN Goto(p, IF SIGLOCK THEN "slock" ELSE "bcast") ELSE Goto(p, "next")
             /\ UNCHANGED <<nextRow, done, waiters, mu, sleeping, row, col, need, wrow, owner, recY>>
SLock(p) == /\ pc[p] = "slock" /\ mu[row[p]] = -1
            /\ mu' = [mu EXCEPT ![row[p]] = p] /\ Goto(p, "sunlock")
            /\ UNCHANGED <<nextRow, done, waiters, sleeping, row, col, need, wrow, owner, recY>>
SUnlock(p) == /\ pc[p] = "sunlock"
              /\ mu' = [mu EXCEPT ![row[p]] = -1] /\ Goto(p, "bcast")
              /\ UNCHANGED <<nextRow, done, waiters, sleeping, row, col, need, wrow, owner, recY>>
BCast(p) == /\ pc[p] = "bcast"
            /\ sleeping' = [sleeping EXCEPT ![row[p]] = {}] /\ Goto(p, "next")
            /\ UNCHANGED <<nextRow, done, waiters, mu, row, col, need, wrow, owner, recY>>
NextMB(p) == /\ pc[p] = "next"
             /\ col' = [col EXCEPT ![p] = @ + 1] /\ Goto(p, "loop")
             /\ UNCHANGED <<nextRow, done, waiters, mu, sleeping, row, need, wrow, owner, recY>>

\* ---- recorder (phase B) ----
RLoop == /\ pc[Rec] = "rloop"
         /\ IF recY = H THEN Goto(Rec, "exit") /\ UNCHANGED <<need, wrow>>
            ELSE /\ need' = [need EXCEPT ![Rec] = W]
                 /\ wrow' = [wrow EXCEPT ![Rec] = recY]
                 /\ Goto(Rec, "wfast")
         /\ UNCHANGED <<nextRow, done, waiters, mu, sleeping, row, col, owner, recY>>
Record == /\ pc[Rec] = "record"
          /\ recY' = recY + 1 /\ Goto(Rec, "rloop")
          /\ UNCHANGED <<nextRow, done, waiters, mu, sleeping, row, col, need, wrow, owner>>

WaitSteps(p) == WFast(p) \/ WInc(p) \/ WLock(p) \/ WCheck(p) \/ WPark(p) \/ Wake(p) \/ WDec(p)
WorkerStep(p) == Claim(p) \/ Loop(p) \/ WaitSteps(p) \/ RBegin(p) \/ REnd(p) \/ EBegin(p) \/ EEnd(p)
                 \/ SStore(p) \/ SCheck(p) \/ SLock(p) \/ SUnlock(p) \/ BCast(p) \/ NextMB(p)
RecStep == RLoop \/ Record \/ WaitSteps(Rec)
AllDone == \A p \in Procs : pc[p] = "exit"
Next == (\E p \in Workers : WorkerStep(p)) \/ RecStep \/ (AllDone /\ UNCHANGED vars)
Spec == Init /\ [][Next]_vars /\ \A p \in Workers : WF_vars(WorkerStep(p)) /\ WF_vars(RecStep)

\* ---- properties ----
Reading(p) == p \in Workers /\ pc[p] \in {"rend"}           \* between rbegin and rend
Writing(p) == p \in Workers /\ pc[p] \in {"eend"}           \* between ebegin and eend
ReadCols(p) == IF row[p] = 0 THEN {} ELSE {col[p]} \cup (IF col[p] + 1 < W THEN {col[p] + 1} ELSE {})
CtxOK == \A p \in Workers : Reading(p) /\ row[p] > 0 => \A c \in ReadCols(p) : owner[c] = row[p] - 1
NoRace == \A p, q \in Workers : p # q /\ Reading(p) /\ Writing(q) => col[q] \notin ReadCols(p)
NoWW == \A p, q \in Workers : p # q /\ Writing(p) /\ Writing(q) => col[p] # col[q]
RecOK == pc[Rec] = "record" => done[recY] = W
Quiesce == AllDone => (\A y \in Rows : waiters[y] = 0 /\ sleeping[y] = {} /\ done[y] = W /\ mu[y] = -1)
Termination == <>AllDone
\* all safety invariants
Safe == CtxOK /\ NoRace /\ NoWW /\ RecOK /\ Quiesce
=============================================================================
