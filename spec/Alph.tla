-------------------------------- MODULE Alph --------------------------------
(* The ALPH chunk (container specification, "Alpha"): header byte             *)
(* (compression, filter, pre-processing), raw or lossless-compressed plane    *)
(* (a VP8L image stream without its 5-byte header whose GREEN channel carries *)
(* the values), and the three prediction filters with their first-row /       *)
(* first-column rules.  Also the documented level quantisation of             *)
(* AlphaQuality < 100.                                                        *)
EXTENDS Vp8l

ClipByte(v) == IF v < 0 THEN 0 ELSE IF v > 255 THEN 255 ELSE v

\* inverse filters over a row-major plane of residuals; built left to right, top to bottom with a fold
Unfilter(method, res, w, h) ==
  IF method = 0 THEN res
  ELSE FoldLeft(LAMBDA out, i :
         LET x == (i - 1) % w  y == (i - 1) \div w
             L == IF x > 0 THEN out[i - 1] ELSE 0
             T == IF y > 0 THEN out[i - w] ELSE 0
             TL == IF x > 0 /\ y > 0 THEN out[i - w - 1] ELSE 0
             pred == IF y = 0 THEN (IF x = 0 THEN 0 ELSE L)                 \* first row: left neighbour
                     ELSE IF x = 0 THEN T                                    \* first column: pixel above
                     ELSE CASE method = 1 -> L [] method = 2 -> T [] method = 3 -> ClipByte(L + T - TL)
         IN Append(out, (res[i] + pred) % 256),
       <<>>, [i \in 1..(w * h) |-> i])

\* payload = bytes of the ALPH chunk. Result: [ok, why, plane, comp, filter, pre]
DecodeALPH(b, w, h) ==
  IF Len(b) < 1 THEN [ok |-> FALSE, why |-> "empty ALPH chunk", plane |-> <<>>]
  ELSE LET hd == b[1]
           comp == hd % 4  filt == (hd \div 4) % 4  pre == (hd \div 16) % 4
       IN IF comp > 1 THEN [ok |-> FALSE, why |-> "unknown compression", plane |-> <<>>]
          ELSE IF hd \div 64 # 0 THEN [ok |-> FALSE, why |-> "reserved bits set", plane |-> <<>>]
          ELSE IF comp = 0
            THEN IF Len(b) < 1 + w * h THEN [ok |-> FALSE, why |-> "raw plane truncated", plane |-> <<>>]
                 ELSE [ok |-> TRUE, why |-> "", comp |-> 0, filter |-> filt, pre |-> pre,
                       plane |-> Unfilter(filt, [i \in 1..(w * h) |-> b[i + 1]], w, h)]
            ELSE LET d == DecodeStreamAt(b, 8, w, h, 0)
                 IN IF ~d.ok THEN [ok |-> FALSE, why |-> "lossless stream: " \o d.why, plane |-> <<>>]
                    ELSE [ok |-> TRUE, why |-> "", comp |-> 1, filter |-> filt, pre |-> pre,
                          plane |-> Unfilter(filt, [i \in 1..(w * h) |-> d.pix[i][3]], w, h)]

\* documented mapping AlphaQuality -> maximal number of alpha levels
Levels(q) == IF q >= 100 THEN 256 ELSE IF q <= 70 THEN 2 + q \div 5 ELSE 16 + (q - 70) * 8
=============================================================================
