------------------------------ MODULE Workers ------------------------------
(* Work partitioning at the GOMAXPROCS sites (C12).  Three arithmetic schemes *)
(* are used in the code base; each is transcribed and checked to be a         *)
(* partition (disjoint, covering, in order) of 0..n-1 for every item count n  *)
(* and worker count w, so that the work done - and hence the result - cannot  *)
(* depend on w through the partition itself.                                  *)
(*   "ceil"  : chunk = ceil(n/w); worker i gets [i*chunk, min((i+1)*chunk,n))  *)
(*             (lossy analysis, lossless predictor / cross-colour / histogram) *)
(*   "floor" : chunk = n div w; the last worker also takes the remainder       *)
(*             (lossless inverse transforms, ARGB->NRGBA conversion)           *)
(*   "prop"  : worker i gets [i*n div w, (i+1)*n div w)   (lossy RGB import)   *)
EXTENDS Integers, FiniteSets, TLC
CONSTANTS MAXN, MAXW

Clamp(n, w) == IF w > n THEN n ELSE w       \* every site clamps the worker count to the item count

Range(scheme, n, w0, i) ==
  LET w == Clamp(n, w0) IN
  CASE scheme = "ceil"  -> LET c == (n + w - 1) \div w
                               s == i * c
                               e == IF s + c > n THEN n ELSE s + c
                           IN IF s >= e THEN {} ELSE s..(e - 1)
    [] scheme = "floor" -> LET c == n \div w
                               s == i * c
                               e == IF i = w - 1 THEN n ELSE s + c
                           IN s..(e - 1)
    [] scheme = "prop"  -> ((i * n) \div w)..(((i + 1) * n) \div w - 1)

Schemes == {"ceil", "floor", "prop"}
VARIABLES scheme, n, w
Init == scheme \in Schemes /\ n \in 1..MAXN /\ w \in 1..MAXW
Next == UNCHANGED <<scheme, n, w>>
Spec == Init /\ [][Next]_<<scheme, n, w>>

Cover == UNION {Range(scheme, n, w, i) : i \in 0..(Clamp(n, w) - 1)} = 0..(n - 1)
Disjoint == \A i, j \in 0..(Clamp(n, w) - 1) : i # j => Range(scheme, n, w, i) \cap Range(scheme, n, w, j) = {}
IsPartition == Cover /\ Disjoint
=============================================================================
