------------------------------ MODULE TVLayout ------------------------------
(* Prints, for every file of trace.ndjson, the strict reader's verdict and   *)
(* the layout map (byte extent of every syntax element).                     *)
EXTENDS Riff, Json, IOUtils
Trace == ndJsonDeserialize("trace.ndjson")
VARIABLE l
Init == l = 1
Next == /\ l <= Len(Trace)
        /\ PrintT(<<"LAYOUT", ToJson([id |-> Trace[l].id, ok |-> StrictParse(Trace[l].bytes).ok,
                                     why |-> StrictParse(Trace[l].bytes).why, els |-> LayoutMap(Trace[l].bytes)])>>)
        /\ l' = l + 1
Spec == Init /\ [][Next]_l
=============================================================================
