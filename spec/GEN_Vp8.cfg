SPECIFICATION Spec
CONSTANT SEED = 11
INVARIANTS ReaderAccepts Emit
CHECK_DEADLOCK FALSE
