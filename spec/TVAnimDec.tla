----------------------------- MODULE TVAnimDec -----------------------------
(* Trace validation of animation playback (C09, also used by C08/C18).        *)
(* One trace line = one playback recorded from the real AnimDecoder:          *)
(*   cw, ch, frames[i] = [ox, oy, w, h, blend, dispose, pix (row-major list of *)
(*   <<r,g,b,a>>)], snaps[i] = the canvas NextFrame returned for frame i       *)
(*   (row-major).                                                             *)
(* Every returned canvas must be explained by the container semantics applied *)
(* to the PREVIOUS OBSERVED canvas: dispose the previous frame's rectangle if *)
(* it asked for it, then overwrite or blend the frame's rectangle (clipped).  *)
(* The key-frame shortcut is not part of the contract: it may never show.     *)
EXTENDS Canvas, SequencesExt, TLC, Json, IOUtils

Trace == ndJsonDeserialize("trace.ndjson")
VARIABLES l, bad
vars == <<l, bad>>

\* canvas pixel (x,y) of a row-major snapshot
At(snap, cw, x, y) == snap[y * cw + x + 1]
FramePix(f, x, y) == f.pix[(y - f.oy) * f.w + (x - f.ox) + 1]

\* the canvas before frame i is drawn: previous observed snapshot with the previous frame's disposal applied
Before(t, i, x, y) ==
  IF i = 1 THEN Transparent
  ELSE LET pf == t.frames[i - 1]
       IN IF pf.dispose = 1 /\ InRect(x, y, pf.ox, pf.oy, pf.w, pf.h) THEN Transparent
          ELSE At(t.snaps[i - 1], t.cw, x, y)

PixelOK(t, i, x, y) ==
  LET f == t.frames[i]
      got == At(t.snaps[i], t.cw, x, y)
      base == Before(t, i, x, y)
  IN IF InRect(x, y, f.ox, f.oy, f.w, f.h)
       THEN (IF f.blend = 1 THEN BlendOK(FramePix(f, x, y), base, got) ELSE got = FramePix(f, x, y))
       ELSE got = base

\* first offending (frame, x, y) or <<>> ; a fold over frames, then over pixels
FirstBad(t) ==
  LET n == Len(t.frames)
      cells == [k \in 1..(t.cw * t.ch) |-> <<(k - 1) % t.cw, (k - 1) \div t.cw>>]
      frameBad(i) == FoldLeft(LAMBDA acc, c : IF acc # <<>> THEN acc
                                               ELSE IF PixelOK(t, i, c[1], c[2]) THEN <<>> ELSE <<i, c[1], c[2]>>,
                              <<>>, cells)
  IN IF Len(t.snaps) # n THEN <<0, 0, 0>>
     ELSE FoldLeft(LAMBDA acc, i : IF acc # <<>> THEN acc ELSE frameBad(i), <<>>, [i \in 1..n |-> i])

Init == l = 1 /\ bad = <<>>
Next == /\ l <= Len(Trace)
        /\ LET fb == FirstBad(Trace[l])
           IN bad' = IF fb = <<>> THEN bad
                     ELSE Append(bad, [id |-> Trace[l].id,
                                       why |-> "frame " \o ToString(fb[1]) \o " pixel (" \o ToString(fb[2]) \o "," \o ToString(fb[3]) \o ") is not what the container semantics define"])
        /\ l' = l + 1
Spec == Init /\ [][Next]_vars
Verdict == l <= Len(Trace) \/ PrintT(<<"VERDICT", ToJson([n |-> Len(Trace), bad |-> bad])>>)
=============================================================================
