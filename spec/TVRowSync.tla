----------------------------- MODULE TVRowSync -----------------------------
(* Trace validation of the row pipeline (C10): every line of trace.ndjson is  *)
(* the event log of one real parallel encode ([id, W, H, ev: [k, y, a]*]),     *)
(* ordered by the global atomic sequence number of the hooks.                  *)
(* Contract evaluated at every event:                                          *)
(*  - a wait returns only after a signal with at least that progress began;    *)
(*  - a row reads context columns x, x+1 only when they were last written by   *)
(*    the row above and nobody is writing them; no export overlaps a read of   *)
(*    the same column by another row; never two exports of one column at once; *)
(*  - the recorder reads complete rows only; every row completes.              *)
(* The clause "row above has published x+1" is the code's mechanism            *)
(* (code-shaped); its failure alone is reported as drift, not as a violation.  *)
EXTENDS Integers, Sequences, SequencesExt, TLC, Json, FiniteSets
Trace == ndJsonDeserialize("trace.ndjson")
VARIABLES l, bad
WAITAHEAD == 2

MinI(a, b) == IF a < b THEN a ELSE b
Check(t) ==
  LET W == t.W  H == t.H
      Cols(x) == IF x + 1 < W THEN {x, x + 1} ELSE {x}
      Step(st, i) ==
        IF ~st.ok THEN st
        ELSE LET e == t.ev[i]  y == e.y  a == e.a
                 Fail(why) == [st EXCEPT !.ok = FALSE, !.at = i, !.why = why]
             IN CASE e.k \in {"claim", "wait_b", "sig_e", "wslow", "stored"} -> st
                  [] e.k = "wait_e" -> IF st.hi[y] >= a THEN st ELSE Fail("wait returned before any signal with that progress had begun")
                  [] e.k = "sig_b" -> [st EXCEPT !.hi[y] = IF a > @ THEN a ELSE @]
                  [] e.k = "read_b" ->
                       IF y > 0 /\ \E c \in Cols(a) : st.owner[c] # y - 1 \/ st.wr[c] # {} THEN Fail("context column not owned by the row above, or being written")
                       ELSE IF y > 0 /\ st.hi[y - 1] < MinI(a + WAITAHEAD, W) THEN [st EXCEPT !.rd = @ \cup {<<y, a>>}, !.drift = TRUE]
                       ELSE [st EXCEPT !.rd = @ \cup {<<y, a>>}]
                  [] e.k = "read_e" -> [st EXCEPT !.rd = @ \ {<<y, a>>}]
                  [] e.k = "write_b" ->
                       IF \E r \in st.rd : r[1] # y /\ a \in Cols(r[2]) THEN Fail("export overlaps a read of the same column by another row")
                       ELSE IF st.wr[a] # {} THEN Fail("two rows export the same column at once")
                       ELSE [st EXCEPT !.wr[a] = {y}]
                  [] e.k = "write_e" -> [st EXCEPT !.wr[a] = {}, !.owner[a] = y]
                  [] e.k = "rec" -> IF st.hi[y] >= W THEN st ELSE Fail("recorder read an incomplete row")
                  [] OTHER -> Fail("unknown event")
      fin == FoldLeft(Step, [ok |-> TRUE, at |-> 0, why |-> "", drift |-> FALSE, hi |-> [y \in 0..(H-1) |-> 0],
                             owner |-> [c \in 0..(W-1) |-> -1], wr |-> [c \in 0..(W-1) |-> {}], rd |-> {}],
                      [i \in 1..Len(t.ev) |-> i])
      complete == \A y \in 0..(H-1) : fin.hi[y] = W
  IN IF ~fin.ok THEN [id |-> t.id, why |-> "event " \o ToString(fin.at) \o " (" \o t.ev[fin.at].k \o " y=" \o ToString(t.ev[fin.at].y) \o " a=" \o ToString(t.ev[fin.at].a) \o "): " \o fin.why]
     ELSE IF ~complete THEN [id |-> t.id, why |-> "not every row was completed"]
     ELSE IF fin.drift THEN [id |-> t.id, why |-> "SPEC-DRIFT: a row started before the row above published x+1, without any conflicting access"]
     ELSE [id |-> t.id, why |-> ""]
Init == l = 1 /\ bad = <<>>
Next == /\ l <= Len(Trace)
        /\ LET e == Check(Trace[l]) IN bad' = IF e.why = "" THEN bad ELSE Append(bad, e)
        /\ l' = l + 1
Spec == Init /\ [][Next]_<<l, bad>>
Verdict == l <= Len(Trace) \/ PrintT(<<"VERDICT", ToJson([n |-> Len(Trace), bad |-> bad])>>)
=============================================================================
